"""C20 — sequential programs are deterministic, enumerate in insertion order, and leave nothing
behind for the next VM.

Proof: coq/C20 (OrderedMap refinement; oracle independence of the map-ranging sites; frame theorem
for process-level state).
Tie / search (harness/cmd/c20, harness/cmd/c20walk, the built interpreter):
  om      op sequences on the real data.OrderedMap                     vs model and spec
  find    repeated GetClass on a real VM with colliding class names    vs find_ci, determinism
  classes generated class hierarchies: `new C` enumeration, ReflectionClass::getMethods,
          runtime.ReflectClass listings, repeated in fresh VMs         vs instantiate / get_methods
  script  op sequences on string-keyed arrays / objects at script level vs the alist spec
  probes  generated programs of labelled probe lines, repeated in fresh VMs and fresh processes
  corpus  deterministic files of /repo/tests and /repo/examples, repeated in fresh processes
  pairs   (A;B) vs (B) in separate child processes                     vs the state-cell table
  sites   go/types inventory of range-over-map statements in runtime/, node/, data/
"""
import itertools
import json
import os
import re
import subprocess
import time

import vcheck
from vcheck import coq_string, coq_list, coq_z, coq_bool, coq_option

HEADER = ("From Coq Require Import List String ZArith.\nImport ListNotations.\n"
          "From V.C20 Require Import Model Spec Abs Run.\nOpen Scope string_scope.\nOpen Scope Z_scope.\n")

# ---------------------------------------------------------------------------- helpers


def run_engine(binary, cases, timeout=900, cwd=None):
    inp = "\n".join(json.dumps(c) for c in cases) + "\n"
    p = subprocess.run([binary], input=inp, stdout=subprocess.PIPE, stderr=subprocess.PIPE, text=True,
                       timeout=timeout, cwd=cwd)
    outs = []
    for l in p.stdout.splitlines():
        l = l.strip()
        if l.startswith("{"):
            try:
                outs.append(json.loads(l))
            except ValueError:
                pass
    return outs, p.returncode, p.stderr


def cs(s):
    return coq_string(s)


def coq_slist(l):
    return coq_list(cs(x) for x in l)


# ---------------------------------------------------------------------------- (1) OrderedMap
OM_KEYS = ["a", "b", "c", "A", ""]


def om_pool():
    pool = []
    for k in ("a", "b"):
        pool.append(["set", k, 1])
        pool.append(["del", k])
        pool.append(["get", k])
    pool.append(["set", "a", 2])
    pool.append(["getz", "b"])
    pool.append(["range", -1])
    pool.append(["range", 0])
    pool.append(["len"])
    pool.append(["idx", 0])
    pool.append(["idx", 1])
    return pool


def om_rand_op(rng):
    k = rng.choice(["set", "set", "set", "set", "del", "del", "get", "getz", "range", "len", "idx"])
    if k == "set":
        return [k, rng.choice(OM_KEYS), rng.randint(-3, 9)]
    if k in ("del", "get", "getz"):
        return [k, rng.choice(OM_KEYS)]
    if k == "range":
        return [k, rng.choice([-1, -1, 0, 1, 2, 5])]
    if k == "idx":
        return [k, rng.randint(-2, 6)]
    return [k]


def coq_om_op(o):
    k = o[0]
    if k == "set":
        return "OSet %s %s" % (cs(o[1]), coq_z(o[2]))
    if k == "get":
        return "OGet %s" % cs(o[1])
    if k == "getz":
        return "OGetZ %s" % cs(o[1])
    if k == "del":
        return "ODelete %s" % cs(o[1])
    if k == "range":
        return "ORange %s" % ("None" if o[1] < 0 else "(Some %d%%nat)" % o[1])
    if k == "len":
        return "OLen"
    if k == "idx":
        return "OIdx %s" % coq_z(o[1])
    raise ValueError(k)


def coq_kv(p):
    return "(%s, %s)" % (cs(p[0]), coq_z(p[1]))


def coq_om_res(r):
    if "u" in r:
        return "RUnit"
    if "v" in r:
        return "RVal %s" % coq_option(None if r["v"] is None else coq_z(r["v"]))
    if "l" in r:
        return "RList %s" % coq_list(coq_kv(p) for p in r["l"])
    if "n" in r:
        return "RLen %d%%nat" % r["n"]
    if "i" in r:
        return "RIdx %s" % coq_option(None if r["i"] is None else coq_kv(r["i"]))
    raise ValueError(r)


# ---------------------------------------------------------------------------- (2a) class lookup
NAME_POOL = ["Foo", "FOO", "foo", "fOO", "Bar", "BAR", "bar", "Baz", "Qux_1", "QUX_1", "N\\Foo", "n\\foo", "Zed"]
LOOKUP_EXTRA = ["FoO", "bAR", "baz", "BAZ", "qux_1", "N\\FOO", "nope", "zed", "ZED"]


# ---------------------------------------------------------------------------- (2b) generated classes
PROP_NAMES = ["x", "y", "z", "w", "a", "b", "id", "name", "p1", "p2", "k", "v"]
METH_NAMES = ["run", "get", "set", "alpha", "beta", "gamma", "m1", "m2", "zeta", "apply", "Bx", "aY"]


def gen_hierarchy(rng, depth):
    """list of classes, most-derived first; each = {name, props:[(n, default|None)], methods:[..], ctor:bool}"""
    levels = []
    for d in range(depth):
        np = rng.randint(1, 7)
        props = [(n, (rng.randint(0, 9) if rng.random() < 0.8 else None)) for n in rng.sample(PROP_NAMES, np)]
        nm = rng.randint(0, 6)
        meths = rng.sample(METH_NAMES, nm)
        levels.append({"name": "K%d" % d, "props": props, "methods": meths, "ctor": rng.random() < 0.4})
    return levels


def php_hierarchy(levels, news=3):
    """source: classes declared base-first; probes print one labelled line each"""
    src = ["<?php"]
    n = len(levels)
    for i in range(n - 1, -1, -1):
        c = levels[i]
        ext = (" extends %s" % levels[i + 1]["name"]) if i + 1 < n else ""
        body = []
        for (p, d) in c["props"]:
            body.append("public $%s%s;" % (p, "" if d is None else " = %d" % d))
        if c["ctor"]:
            body.append("function __construct() {}")
        for m in c["methods"]:
            body.append("function %s() {}" % m)
        src.append("class %s%s { %s }" % (c["name"], ext, " ".join(body)))
    for i in range(n):
        c = levels[i]
        for _ in range(news):
            src.append("$o = new %s(); $ks = []; foreach ($o as $k => $v) { $ks[] = $k; } echo \"I:%d\\t\", json_encode($ks), \"\\n\";" % (c["name"], i))
        src.append("echo \"M:%d\\t\", json_encode((new ReflectionClass('%s'))->getMethods()), \"\\n\";" % (i, c["name"]))
        src.append("echo \"M:%d\\t\", json_encode((new ReflectionClass('%s'))->getMethods()), \"\\n\";" % (i, c["name"]))
    return "\n".join(src) + "\n"


def coq_clevel(c):
    return "{| c_index := %s; c_props := %s |}" % (
        coq_slist([p for p, _ in c["props"]]),
        coq_list("(%s, %s)" % (cs(p), coq_option(None if d is None else coq_z(d))) for p, d in c["props"]))


def parse_lines(out):
    """labelled probe lines  LABEL \\t payload"""
    res = {}
    for line in out.split("\n"):
        if "\t" in line:
            lab, payload = line.split("\t", 1)
            res.setdefault(lab, []).append(payload)
    return res


# ---------------------------------------------------------------------------- script-level stores
def gen_script_ops(rng, kind):
    n = rng.randint(1, 12)
    ops = []
    for _ in range(n):
        if kind == "array" and rng.random() < 0.3:
            ops.append(["del", rng.choice(["a", "b", "c", "k1"])])
        else:
            ops.append(["set", rng.choice(["a", "b", "c", "k1", "Zz"]), rng.randint(0, 9)])
    return ops


def php_script_ops(kind, ops, label):
    s = ["$s = [];" if kind == "array" else "$s = new stdClass();"]
    for o in ops:
        if kind == "array":
            s.append("$s['%s'] = %d;" % (o[1], o[2]) if o[0] == "set" else "unset($s['%s']);" % o[1])
        else:
            s.append("$s->%s = %d;" % (o[1], o[2]))
    s.append("$r = []; foreach ($s as $k => $v) { $r[] = [$k, $v]; } echo \"%s\\t\", json_encode($r), \"\\n\";" % label)
    return " ".join(s)


# ---------------------------------------------------------------------------- probes (search)
# each probe: label -> php expression template over $A (string-keyed array), $L (list), $O (object)
PROBES = [
    ("foreach_assoc", "$r=[]; foreach ($A as $k=>$v) { $r[]=$k; } echo json_encode($r);"),
    ("array_keys", "echo json_encode(array_keys($A));"),
    ("json_encode_obj", "echo json_encode($O);"),
    ("foreach_obj", "$r=[]; foreach ($O as $k=>$v) { $r[]=$k; } echo json_encode($r);"),
    ("echo_obj_cast", "echo json_encode((array)$O);"),
    ("implode", "echo implode(',', $L);"),
    ("sort_list", "$t=$L; sort($t); echo json_encode($t);"),
    ("count", "echo count($A), count($L);"),
    ("in_array", "echo in_array(3, $L) ? 'y':'n';"),
    ("array_reverse", "echo json_encode(array_reverse($L));"),
    ("array_map_list", "echo json_encode(array_map(function($x){ return $x+1; }, $L));"),
    ("str_funcs", "echo strtoupper('abc'), strlen('hello'), substr('hello',1,3), str_repeat('ab',2);"),
    ("sprintf", "echo sprintf('%05d|%s|%.2f', 42, 'x', 1.5);"),
    ("closure", "$f = function($x) use ($L) { return $x + count($L); }; echo $f(1);"),
    ("static_call", "echo C20S::twice(4);"),
    ("exception", "try { throw new Exception('e1'); } catch (Exception $e) { echo get_class($e), ':', $e->getMessage(); }"),
    ("serialize_list", "echo serialize($L);"),
    ("clone_obj", "$c = clone $O; $c->zz = 1; echo json_encode($O);"),
    ("instanceof", "echo ($P instanceof C20P) ? 'y':'n';"),
    ("get_class", "echo get_class($P);"),
    ("declared_obj", "$r=[]; foreach ($P as $k=>$v) { $r[]=$k; } echo json_encode($r);"),
    ("declared_json", "echo json_encode($P);"),
    ("declared_echo", "echo str_replace(\"\\n\", ' ', (string)json_encode(get_class_vars_c20($P)));"),
    ("reflect_methods", "echo json_encode((new ReflectionClass('C20P'))->getMethods());"),
    ("class_ci", "$q = new c20p(); echo get_class($q);"),
    # std functions over string-keyed arrays (several range over Go maps)
    ("json_decode_assoc", "echo json_encode(array_keys(json_decode($J, true)));"),
    ("json_decode_obj", "echo json_encode(json_decode($J));"),
    ("array_values", "echo json_encode(array_values($A));"),
    ("array_flip", "echo json_encode(array_keys(array_flip($A)));"),
    ("array_merge", "echo json_encode(array_keys(array_merge($A, ['zz'=>1])));"),
    ("array_filter", "echo json_encode(array_keys(array_filter($A)));"),
    ("array_unique", "echo json_encode(array_keys(array_unique($A)));"),
    ("array_slice", "echo json_encode(array_slice($A, 1, 2));"),
    ("array_replace", "echo json_encode(array_keys(array_replace($A, ['zz'=>1])));"),
    ("array_intersect", "echo json_encode(array_keys(array_intersect($A, [1,2,3])));"),
    ("iterator_to_array", "echo json_encode(array_keys(iterator_to_array(new ArrayIterator($A))));"),
    ("array_map_assoc", "echo json_encode(array_map(function($x){ return $x; }, $A));"),
    ("array_search", "echo json_encode(array_search(2, $A));"),
    ("array_key_first", "echo json_encode(array_key_first($A));"),
    ("array_combine", "echo json_encode(array_keys(array_combine(array_keys($A), array_values($L5))));"),
    ("http_build_query", "echo http_build_query($A);"),
    ("ksort", "$t=$A; ksort($t); echo json_encode(array_keys($t));"),
    ("array_walk", "$r=[]; array_walk($A, function($v,$k) use (&$r) { $r[]=$k; }); echo json_encode($r);"),
    ("str_replace_arr", "echo str_replace(array_keys($A), array_values($L5), 'k1 k2 k3 k4 k5');"),
    ("strtr_arr", "echo strtr('k1 k2 k3', ['k1'=>'k2','k2'=>'k3','k3'=>'k1']);"),
    ("min_max", "echo min($L), max($L);"),
]
PRELUDE = """<?php
class C20S { public static function twice($x) { return 2*$x; } }
class C20P { public $pa = 1; public $pb = 2; public $pc = 3; public $pd = 4; public $pe = 5; public $pf = 6;
  function ma() {} function mb() {} function mc() {} function md() {} function me() {} }
function get_class_vars_c20($o) { $r = []; foreach ($o as $k => $v) { $r[$k] = $v; } return $r; }
"""


def gen_probe_program(rng, nprobes, pool=None):
    keys = ["k1", "k2", "k3", "k4", "k5", "k6", "k7"]
    rng.shuffle(keys)
    nk = rng.randint(4, 7)
    vals = [rng.randint(0, 4) for _ in range(nk)]
    A = "[" + ", ".join("'%s'=>%d" % (k, v) for k, v in zip(keys[:nk], vals)) + "]"
    L = "[" + ", ".join(str(rng.randint(0, 9)) for _ in range(rng.randint(3, 7))) + "]"
    J = "'{" + ",".join('"%s":%d' % (k, v) for k, v in zip(keys[:nk], vals)) + "}'"
    src = [PRELUDE, "$A = %s; $L = %s; $L5 = [1,2,3,4,5,6,7]; $L5 = array_slice($L5, 0, %d); $J = %s;" % (A, L, nk, J),
           "$O = new stdClass(); " + " ".join("$O->%s = %d;" % (k, v) for k, v in zip(keys[:nk], vals)),
           "$P = new C20P();"]
    pool = pool or PROBES
    chosen = rng.sample(pool, min(nprobes, len(pool)))
    for lab, code in chosen:
        src.append("echo \"%s\\t\"; %s echo \"\\n\";" % (lab, code))
    ks, vs = keys[:nk], vals
    first = {}
    for k, v in zip(ks, vs):
        first.setdefault(v, k)
    # what insertion order demands of the enumeration probes (json text)
    expect = {
        "foreach_assoc": json.dumps(ks, separators=(",", ":")),
        "array_keys": json.dumps(ks, separators=(",", ":")),
        "foreach_obj": json.dumps(ks, separators=(",", ":")),
        "array_values": json.dumps(vs, separators=(",", ":")),
        "array_merge": json.dumps(ks + ["zz"], separators=(",", ":")),
        "array_replace": json.dumps(ks + ["zz"], separators=(",", ":")),
        "array_filter": json.dumps([k for k, v in zip(ks, vs) if v != 0], separators=(",", ":")),
        "array_unique": json.dumps([k for k, v in zip(ks, vs) if first[v] == k], separators=(",", ":")),
        "iterator_to_array": json.dumps(ks, separators=(",", ":")),
        "array_slice": json.dumps(vs[1:3], separators=(",", ":")),
        "declared_obj": json.dumps(["pa", "pb", "pc", "pd", "pe", "pf"], separators=(",", ":")),
        "reflect_methods": json.dumps(["ma", "mb", "mc", "md", "me"], separators=(",", ":")),
        "array_walk": None,
    }
    return "\n".join(src) + "\n", [lab for lab, _ in chosen], {k: v for k, v in expect.items() if v is not None}


# ---------------------------------------------------------------------------- (3) A;B pairs
# cell table: where each piece of state lives.  PerVM / ProcReset / ProcSticky (Model.v Part 3).
CELLS = {
    "class": "PerVM", "func": "PerVM", "const": "PerVM", "global": "PerVM", "static_prop": "PerVM",
    "static_var": "PerVM", "include_once": "PerVM", "exception_handler": "PerVM",
    "userOutputEmitted": "ProcReset", "ob_level": "ProcReset",   # ob stack: flushed and popped by FlushAllBuffersFn at script end (/repo 7b31d88)
    "ini": "ProcSticky", "GLOBALS": "ProcSticky", "_GET": "ProcSticky", "_POST": "ProcSticky",
    "_SERVER": "ProcSticky", "_ENV": "ProcSticky", "_SESSION": "ProcSticky", "_COOKIE": "ProcSticky",
    "_REQUEST": "ProcSticky", "putenv": "ProcSticky", "spl_autoload": "ProcSticky",
}
# (label, php A, cell written, php B, cell read)
POLLUTERS = [
    ("class", "class C20K { function f() { return 1; } }", "class"),
    ("func", "function c20f() { return 1; }", "func"),
    ("const", "define('C20X', 5);", "const"),
    ("global", "$g = 5; function c20g() { global $g; $g = 6; } c20g();", "global"),
    ("static_prop", "class S20 { public static $s = 0; } S20::$s = 5;", "static_prop"),
    ("static_var", "function cnt20() { static $n = 0; return ++$n; } cnt20(); cnt20();", "static_var"),
    ("include_once", "include_once '%INC%';", "include_once"),
    ("exception_handler", "set_exception_handler(function($e) { echo 'H'; });", "exception_handler"),
    ("echo", "echo 'x';", "userOutputEmitted"),
    ("ini_set", "ini_set('precision', '3');", "ini"),
    ("GLOBALS", "$GLOBALS['c20g'] = 5;", "GLOBALS"),
    ("_GET", "$_GET['c20'] = 1;", "_GET"),
    ("_POST", "$_POST['c20'] = 1;", "_POST"),
    ("_SERVER", "$_SERVER['C20'] = 1;", "_SERVER"),
    ("_ENV", "$_ENV['C20'] = 1;", "_ENV"),
    ("_SESSION", "$_SESSION['c20'] = 1;", "_SESSION"),
    ("_COOKIE", "$_COOKIE['c20'] = 1;", "_COOKIE"),
    ("_REQUEST", "$_REQUEST['c20'] = 1;", "_REQUEST"),
    ("ob_start", "ob_start(); echo 'x';", "ob_level"),
    ("putenv", "putenv('C20ENV=1');", "putenv"),
    ("spl_autoload", "spl_autoload_register(function($c) {});", "spl_autoload"),
]
OBSERVERS = [
    ("class", "echo class_exists('C20K') ? 'y' : 'n'; class C20K { function f() { return 2; } } echo (new C20K())->f();", "class"),
    ("func", "echo function_exists('c20f') ? 'y' : 'n'; function c20f() { return 2; } echo c20f();", "func"),
    ("const", "echo defined('C20X') ? 'y' : 'n'; define('C20X', 7); echo C20X;", "const"),
    ("global", "echo isset($g) ? 'y' : 'n';", "global"),
    ("static_prop", "class S20 { public static $s = 0; } echo S20::$s;", "static_prop"),
    ("static_var", "function cnt20() { static $n = 0; return ++$n; } echo cnt20();", "static_var"),
    ("include_once", "include_once '%INC%'; echo function_exists('c20inc') ? 'y' : 'n';", "include_once"),
    ("exception_handler", "echo 'x'; throw new Exception('q');", "exception_handler"),
    ("go:userOutputEmitted", "", "userOutputEmitted"),
    ("ini_get", "echo ini_get('precision');", "ini"),
    ("GLOBALS", "echo isset($GLOBALS['c20g']) ? 'y' : 'n';", "GLOBALS"),
    ("_GET", "echo isset($_GET['c20']) ? 'y' : 'n';", "_GET"),
    ("_POST", "echo isset($_POST['c20']) ? 'y' : 'n';", "_POST"),
    ("_SERVER", "echo isset($_SERVER['C20']) ? 'y' : 'n';", "_SERVER"),
    ("_ENV", "echo isset($_ENV['C20']) ? 'y' : 'n';", "_ENV"),
    ("_SESSION", "echo isset($_SESSION['c20']) ? 'y' : 'n';", "_SESSION"),
    ("_COOKIE", "echo isset($_COOKIE['c20']) ? 'y' : 'n';", "_COOKIE"),
    ("_REQUEST", "echo isset($_REQUEST['c20']) ? 'y' : 'n';", ["_REQUEST", "_GET", "_POST", "_COOKIE"]),
    ("ob_level", "echo ob_get_level();", "ob_level"),
    ("getenv", "echo getenv('C20ENV') === false ? 'n' : 'y';", "putenv"),
    ("spl_autoload", "echo count(spl_autoload_functions());", "spl_autoload"),
]

# ---------------------------------------------------------------------------- corpus
NONDET_SRC = re.compile(
    r"\b(time|microtime|hrtime|date|gmdate|strftime|mktime|strtotime|rand|mt_rand|random_int|random_bytes|"
    r"uniqid|shuffle|array_rand|str_shuffle|getmypid|memory_get_usage|memory_get_peak_usage|sleep|usleep|"
    r"tempnam|tmpfile|sys_get_temp_dir|spawn|curl_init|fsockopen|stream_socket_client|proc_open|"
    r"shell_exec|system|passthru|gethostname|php_uname|spl_object_id|spl_object_hash|lcg_value|"
    r"file_put_contents|mkdir|unlink|rmdir|touch|fwrite|set_time_limit)\s*\(|new\s+\\?(DateTime|DateTimeImmutable|DateTimeZone)|"
    r"\b(pcntl_|posix_)|\bgo\s+(function|fn|\$)|->listen\(|->serve\(|Net\\\\Http|Channel")
TS = re.compile(r"\d{4}-\d{2}-\d{2}[ T]\d{2}:\d{2}:\d{2}")


def corpus_files(repo):
    res, excluded = [], 0
    for root in ("tests", "examples"):
        for dp, dn, fs in os.walk(os.path.join(repo, root)):
            dn.sort()
            for f in sorted(fs):
                if not f.endswith(".php"):
                    continue
                p = os.path.join(dp, f)
                rel = os.path.relpath(p, repo)
                try:
                    txt = open(p, encoding="utf-8", errors="replace").read()
                except OSError:
                    continue
                if NONDET_SRC.search(txt) or "run_tests" in rel or "/net/" in rel or "/signal/" in rel or "/cli/" in rel:
                    excluded += 1
                    continue
                res.append(rel)
    return res, excluded


def run_proc(binary, relpath, repo, timeout=20):
    try:
        p = subprocess.run([binary, relpath], cwd=repo, stdout=subprocess.PIPE, stderr=subprocess.PIPE,
                           timeout=timeout)
        out = p.stdout.decode("utf-8", "replace")
        err = p.stderr.decode("utf-8", "replace")
        return (p.returncode, TS.sub("<ts>", out), TS.sub("<ts>", err))
    except subprocess.TimeoutExpired:
        return ("timeout", "", "")


# ---------------------------------------------------------------------------- site inventory
# classification of the range-over-map statements of runtime/, node/, data/ (key = file:func:expr)
SITE_CLASS = {
    "runtime/vm.go:VM.findClassCaseInsensitive:vm.classMap": ("modelled", "find_ci; least matching key, order independent (lookup_oracle_independent)"),
    "node/class.go:ClassStatement.GetMethods:c.Methods": ("modelled", "keys collected then sort.Strings (get_methods_oracle_independent)"),
    "runtime/reflect_class.go:ReflectClass.GetMethods:rc.methods": ("modelled", "keys collected then sort.Strings (member_names_oracle_independent)"),
    "runtime/reflect_class.go:ReflectClass.GetPropertyList:rc.properties": ("modelled", "keys collected then sort.Strings (member_names_oracle_independent)"),
    "runtime/vm.go:VM.AllFuncs:vm.funcMap": ("order-insensitive", "collect then sort.Slice by name"),
    "runtime/vm.go:VM.AllClasses:vm.classMap": ("order-insensitive", "collect then sort.Slice by name"),
    "data/value_class.go:ClassValue.GetProperties:instanceProps": ("order-insensitive", "copies a map into a map"),
    "node/binary_eq_strict.go:isStrictEqual:props1": ("order-insensitive", "conjunction over all keys; result is a boolean"),
    "node/lambda.go:LambdaExpression.Call:f.parent": ("order-insensitive", "writes distinct slots by index"),
    "runtime/vm.go:bindTemplateVariables:props": ("order-insensitive", "writes distinct variables by name"),
    "runtime/reflect_register.go:VM.RegisterReflectFunctions:functions": ("order-insensitive", "registers distinct names"),
    "runtime/vm_temp.go:TempVM.AddedClasses:vm.addedClasses": ("order-insensitive", "verification/diagnostic listing, not script visible"),
    "node/class_abstract_validate.go:abstractMethodsDeclaredOnClass:cs.StaticMethods": ("unmodelled", "which missing abstract static method is reported first"),
    "node/class_abstract_validate.go:abstractMethodsDeclaredOnClass:cg.StaticMethods": ("unmodelled", "which missing abstract static method is reported first"),
    "node/foreach.go:ForeachValueTarget.SetValue:d.GetProperties()": ("unmodelled", "list()-style destructuring target over an object; breaks after first"),
    "node/init_class.go:InitClass.GetValue:n.KV": ("unmodelled", "`new C { k: v }` initialiser: evaluation and insertion order of the named fields"),
    "node/html.go:HtmlNode.generateHtml:h.Attributes": ("unmodelled", "html template attribute order"),
    "node/html.go:HtmlNode.generateNormalHtml:h.Attributes": ("unmodelled", "html template attribute order"),
    "node/html.go:HtmlForNode.GetValue:array.GetProperties()": ("unmodelled", "html for-loop over an object"),
    "node/html.go:HtmlTemplateNode.GetValue:h.HtmlNode.Attributes": ("unmodelled", "html template attribute order"),
    "node/js_server.go:formatObjectValue:v": ("unmodelled", "JS value formatting of objects"),
    "node/js_server.go:formatClassOrObjectValue:properties": ("unmodelled", "JS value formatting of objects"),
    "node/globals_files_variable.go:FilesVariable.GetValue:httpReq.MultipartForm.File": ("unmodelled", "HTTP only: $_FILES key order (C11)"),
    "node/globals_get_variable.go:GetVariable.GetValue:httpReq.URL.Query()": ("unmodelled", "HTTP only: $_GET key order (C11)"),
    "node/globals_post_variable.go:PostVariable.GetValue:httpReq.Form": ("unmodelled", "HTTP only: $_POST key order (C11)"),
    "node/globals_server_variable.go:ServerVariable.GetValue:httpReq.Header": ("unmodelled", "HTTP only: $_SERVER header key order (C11)"),
}


def site_key(s):
    return "%s:%s:%s" % (s["file"], s["func"], s["expr"])


# ---------------------------------------------------------------------------- main
def main(ck):
    rng = ck.rng
    quick = ck.tier != "thorough"
    repo = vcheck.REPO
    ck.trusted += [
        "Go maps modelled as association lists read through a lookup function; `range m` = iteration over an arbitrary permutation of the key set (the quantified `order`)",
        "strings.EqualFold modelled on ASCII names (equality after folding A-Z); sort.Strings modelled as insertion sort on the byte-wise order",
        "state-cell table (checks/C20.py CELLS): which script-reachable state is per-VM / reset by protocol / sticky — hand-written, validated by the (A;B) runs",
        "harness/cmd/c20, harness/cmd/c20walk (Go), checks/C20.py (generators, Coq term printer)",
        "whole-program determinism beyond the modelled sites is searched by repetition, not proved",
    ]
    ck.prove()
    binary, out = ck.go_build("c20")
    walker, wout = ck.go_build("c20walk", tags=None)
    if binary is None or walker is None:
        ck.broken.append("harness-build")
        ck.finish(evaluations=0, distinct_nontrivial=0, rule="harness did not build")
    origami, oout = ck.build_origami()
    if origami is None:
        ck.broken.append("origami-build")
        ck.finish(evaluations=0, distinct_nontrivial=0, rule="interpreter did not build")

    replay = None
    if ck.replay:
        replay = json.load(open(ck.replay))
        replay = replay.get("case")
    evaluations = 0
    traces = 0
    nontriv = 0

    def want(kind):
        return replay is None or replay.get("kind") == kind

    # ================================================================= om
    om_cases = []
    if replay and replay.get("kind") == "om":
        om_cases = [replay]
    elif replay is None:
        pool = om_pool()
        maxlen = 3 if quick else 4
        tail = [["range", -1], ["len"]]
        for n in range(0, maxlen + 1):
            for seq in itertools.product(pool, repeat=n):
                om_cases.append({"kind": "om", "ops": list(seq) + tail})
        for _ in range(1500 if quick else 20000):
            n = rng.randint(1, 25)
            om_cases.append({"kind": "om", "ops": [om_rand_op(rng) for _ in range(n)] + tail + [["idx", rng.randint(0, 4)]]})
    if om_cases:
        outs, rc, err = run_engine(binary, om_cases)
        if len(outs) != len(om_cases):
            ck.log("om: engine returned %d/%d rc=%s %s" % (len(outs), len(om_cases), rc, err[-1500:]))
            ck.broken.append("harness-run:om")
        else:
            terms, idx = [], []
            for i, (c, o) in enumerate(zip(om_cases, outs)):
                if o.get("panic") or o.get("err"):
                    ck.violation("om:panic", {"case": c, "impl_out": o, "clause": "OrderedMap operation panicked"})
                    continue
                terms.append("(%s, %s)" % (coq_list(coq_om_op(x) for x in c["ops"]), coq_list(coq_om_res(r) for r in o["res"])))
                idx.append(i)
            bad = ck.eval_cases("om", HEADER, terms, "check_om", shard=1200)
            if ck.replay:
                for c, o in zip(om_cases, outs):
                    ops = coq_list(coq_om_op(x) for x in c["ops"])
                    ck.log("replay om ops: %s" % json.dumps(c["ops"]))
                    ck.log("implementation: %s" % json.dumps(o.get("res")))
                    ck.log("model:          %s" % ck.eval_print(HEADER, "snd (om_run %s om_new)" % ops))
                    ck.log("spec:           %s" % ck.eval_print(HEADER, "snd (a_run (map to_sop %s) [])" % ops))
            evaluations += len(om_cases)
            traces += len(terms)
            seen = set()
            for c in om_cases:
                k = json.dumps(c["ops"])
                if k in seen:
                    continue
                seen.add(k)
                kinds = [x[0] for x in c["ops"][:-2]]
                if "set" in kinds and len(kinds) >= 2:
                    nontriv += 1
            for j, cls in sorted(bad.items(), key=lambda kv: len(om_cases[idx[kv[0]]]["ops"])):
                c, o = om_cases[idx[j]], outs[idx[j]]
                key = "om:clauses=%s" % "".join(map(str, cls))
                if 2 not in cls:
                    ck.broken.append("correspondence:C20.om")
                ck.violation(key, {"case": c, "impl_out": o,
                                   "clause": ["model-vs-impl" if x == 1 else "refines_alist / range_is_insertion_order (impl)" for x in cls]})
            ck.cov["om_cases"] = len(om_cases)
            ck.cov["om_exhaustive_len"] = 3 if quick else 4
            ck.samples.append(om_cases[len(om_cases) // 2])

    # ================================================================= find
    find_cases = []
    if replay and replay.get("kind") == "find":
        find_cases = [replay]
    elif replay is None:
        for _ in range(220 if quick else 2500):
            ks = rng.sample(NAME_POOL, rng.randint(1, 8))
            name = rng.choice(NAME_POOL + LOOKUP_EXTRA)
            find_cases.append({"kind": "find", "keys": ks, "name": name, "reps": 160})
        # all 2- and 3-subsets of the Foo family, every spelling looked up
        fam = ["Foo", "FOO", "foo", "fOO"]
        for r in (2, 3, 4):
            for ks in itertools.permutations(fam, r):
                if list(ks) != sorted(ks) and r > 2:
                    continue
                for name in fam + ["FoO"]:
                    find_cases.append({"kind": "find", "keys": list(ks), "name": name, "reps": 160})
    if find_cases:
        outs, rc, err = run_engine(binary, find_cases)
        if len(outs) != len(find_cases):
            ck.log("find: engine returned %d/%d rc=%s %s" % (len(outs), len(find_cases), rc, err[-1500:]))
            ck.broken.append("harness-run:find")
        else:
            terms, idx = [], []
            for i, (c, o) in enumerate(zip(find_cases, outs)):
                if o.get("panic") or o.get("err"):
                    ck.violation("find:error", {"case": c, "impl_out": o, "clause": "lookup failed"})
                    continue
                found = [None if f == "N" else f[2:] for f in o["found"]]
                terms.append("(%s, %s, %s)" % (coq_slist(c["keys"]), cs(c["name"]),
                                               coq_list(coq_option(None if f is None else cs(f)) for f in found)))
                idx.append(i)
            bad = ck.eval_cases("find", HEADER, terms, "check_find", shard=400)
            if ck.replay:
                for c, o in zip(find_cases, outs):
                    ck.log("replay find: keys=%s name=%s" % (c["keys"], c["name"]))
                    ck.log("implementation (distinct answers of %d lookups): %s" % (c.get("reps", 0), o.get("found")))
                    ck.log("model / spec (find_ci, order independent): %s" % ck.eval_print(HEADER, "find_ci %s %s" % (coq_slist(c["keys"]), cs(c["name"]))))
            evaluations += len(find_cases)
            traces += len(terms)
            coll = 0
            for c in find_cases:
                low = [k.lower() for k in c["keys"]]
                if len(set(low)) < len(low) and c["name"] not in c["keys"] and c["name"].lower() in low:
                    coll += 1
            nontriv += coll
            ck.cov["find_cases"] = len(find_cases)
            ck.cov["find_cases_with_casefold_collision_and_inexact_name"] = coll
            for j, cls in sorted(bad.items(), key=lambda kv: len(find_cases[idx[kv[0]]]["keys"])):
                c, o = find_cases[idx[j]], outs[idx[j]]
                key = "find:clauses=%s" % "".join(map(str, cls))
                if 3 not in cls and 2 not in cls:
                    ck.broken.append("correspondence:C20.find")
                ck.violation(key, {"case": c, "impl_out": o,
                                   "clause": {1: "find_ci model-vs-impl", 2: "find_ci_exact/find_ci_least (impl)",
                                              3: "lookup_oracle_independent (impl gave more than one answer)"}.get(cls[-1])})
            ck.samples.append(find_cases[0])

    # ================================================================= generated classes
    cls_cases = []
    if replay and replay.get("kind") == "classes":
        cls_cases = [replay]
    elif replay is None:
        for _ in range(70 if quick else 600):
            cls_cases.append({"kind": "classes", "levels": gen_hierarchy(rng, rng.randint(1, 3))})
    reps_vm = 6 if quick else 20
    if cls_cases:
        progs = [{"kind": "prog", "src": php_hierarchy(c["levels"]), "file": "c20cls.php", "reps": reps_vm} for c in cls_cases]
        progs.append({"kind": "reflect", "reps": 60})
        outs, rc, err = run_engine(binary, progs)
        if len(outs) != len(progs):
            ck.log("classes: engine returned %d/%d rc=%s %s" % (len(outs), len(progs), rc, err[-1500:]))
            ck.broken.append("harness-run:classes")
        else:
            iterms, iidx, mterms, midx = [], [], [], []
            for ci, (c, o) in enumerate(zip(cls_cases, outs)):
                lv = c["levels"]
                obs_i = {}
                obs_m = {}
                okrun = True
                for r in o.get("runs", []):
                    if r["outcome"] != "ok":
                        okrun = False
                    for lab, pl in parse_lines(r["out"]).items():
                        tgt = obs_i if lab.startswith("I:") else obs_m if lab.startswith("M:") else None
                        if tgt is None:
                            continue
                        for p in pl:
                            try:
                                v = json.loads(p)
                            except ValueError:
                                v = ["<unparsed>"]
                            if v not in tgt.setdefault(lab, []):
                                tgt[lab].append(v)
                if not okrun or not obs_i:
                    ck.violation("classes:run-failed", {"case": c, "impl_out": o, "clause": "generated class program did not run"})
                    continue
                for i in range(len(lv)):
                    impl = obs_i.get("I:%d" % i, [])
                    iterms.append("(%s, %s, %s)" % (coq_clevel(lv[i]), coq_list(coq_clevel(a) for a in lv[i + 1:]),
                                                   coq_list(coq_slist(e) for e in impl)))
                    iidx.append((ci, i))
                    names = list(lv[i]["methods"]) + (["__construct"] if lv[i]["ctor"] else [])
                    hasc = any(a["ctor"] for a in lv[i:])
                    implm = obs_m.get("M:%d" % i, [])
                    mterms.append("(%s, %s, %s)" % (coq_slist(names), coq_bool(hasc), coq_list(coq_slist(e) for e in implm)))
                    midx.append((ci, i))
            ro = outs[-1]
            if ro.get("panic") or ro.get("err") or not ro.get("methods"):
                ck.violation("reflect:error", {"case": {"kind": "reflect"}, "impl_out": ro, "clause": "ReflectClass listing failed"})
            else:
                wnames = ["Juniper", "Apple", "Iris", "Banana", "Hazel", "Cherry", "Grape", "Damson", "Fig", "Elder"]
                mterms.append("(%s, false, %s)" % (coq_slist(wnames), coq_list(coq_slist(e) for e in ro["methods"])))
                midx.append((-1, 0))
            badi = ck.eval_cases("inst", HEADER, iterms, "check_inst", shard=300)
            badm = ck.eval_cases("meth", HEADER, mterms, "check_meth", shard=300)
            evaluations += len(iterms) + len(mterms)
            traces += len(iterms) + len(mterms)
            nontriv += sum(1 for c in cls_cases for l in c["levels"] if len(l["props"]) >= 2 or len(l["methods"]) >= 2)
            ck.cov["class_hierarchies"] = len(cls_cases)
            ck.cov["inst_cases"] = len(iterms)
            ck.cov["method_list_cases"] = len(mterms)
            ck.cov["fresh_vm_repetitions"] = reps_vm
            for j, cl in sorted(badi.items()):
                ci, i = iidx[j]
                key = "inst:clauses=%s" % "".join(map(str, cl))
                if 3 not in cl and 2 not in cl:
                    ck.broken.append("correspondence:C20.inst")
                ck.violation(key, {"case": cls_cases[ci], "level": i, "impl_out": outs[ci],
                                   "clause": "instantiate_enumeration / instantiate_declaration_order; clauses %s (1 model, 2 declaration order, 3 not deterministic)" % cl})
            for j, cl in sorted(badm.items()):
                ci, i = midx[j]
                key = ("meth:clauses=%s" if ci >= 0 else "reflect:clauses=%s") % "".join(map(str, cl))
                if 3 not in cl:
                    ck.broken.append("correspondence:C20.meth")
                ck.violation(key, {"case": cls_cases[ci] if ci >= 0 else {"kind": "reflect"}, "level": i,
                                   "impl_out": outs[ci] if ci >= 0 else ro,
                                   "clause": "get_methods_oracle_independent; clauses %s (1 model, 3 not deterministic)" % cl})
            ck.samples.append({"kind": "classes", "levels": cls_cases[0]["levels"]})

    # ================================================================= script-level stores
    sc_cases = []
    if replay and replay.get("kind") == "script":
        sc_cases = [replay]
    elif replay is None:
        for _ in range(160 if quick else 2000):
            kind = rng.choice(["array", "array", "object"])
            sc_cases.append({"kind": "script", "store": kind, "ops": gen_script_ops(rng, kind)})
    if sc_cases:
        group = 20
        progs = []
        for g in range(0, len(sc_cases), group):
            src = "<?php\n" + "\n".join(php_script_ops(c["store"], c["ops"], "S:%d" % (g + i))
                                        for i, c in enumerate(sc_cases[g:g + group])) + "\n"
            progs.append({"kind": "prog", "src": src, "file": "c20s.php", "reps": 2})
        outs, rc, err = run_engine(binary, progs)
        if len(outs) != len(progs):
            ck.broken.append("harness-run:script")
        else:
            obs = {}
            for o in outs:
                for r in o.get("runs", []):
                    for lab, pl in parse_lines(r["out"]).items():
                        for p in pl:
                            obs.setdefault(lab, set()).add(p)
            terms, idx = [], []
            for i, c in enumerate(sc_cases):
                got = sorted(obs.get("S:%d" % i, []))
                if len(got) != 1:
                    ck.violation("script:%s:nondeterministic" % c["store"], {"case": c, "impl_out": got, "clause": "range_is_insertion_order (script level): not exactly one enumeration"})
                    continue
                try:
                    pairs = json.loads(got[0])
                    ops = [coq_om_op(o) for o in c["ops"]] + ["ORange None"]
                    res = ["RUnit"] * len(c["ops"]) + ["RList %s" % coq_list(coq_kv(p) for p in pairs)]
                    terms.append("(%s, %s)" % (coq_list(ops), coq_list(res)))
                    idx.append(i)
                except (ValueError, TypeError):
                    ck.violation("script:%s:unparsed" % c["store"], {"case": c, "impl_out": got, "clause": "enumeration not printable"})
            bad = ck.eval_cases("script", HEADER, terms, "check_om", shard=400)
            evaluations += len(sc_cases)
            traces += len(terms)
            nontriv += sum(1 for c in sc_cases if len(c["ops"]) >= 3)
            ck.cov["script_store_cases"] = len(sc_cases)
            for j, cl in sorted(bad.items(), key=lambda kv: len(sc_cases[idx[kv[0]]]["ops"])):
                c = sc_cases[idx[j]]
                ck.violation("script:%s:order" % c["store"], {"case": c, "impl_out": sorted(obs.get("S:%d" % idx[j], [])),
                                                             "clause": "range_is_insertion_order at script level (string-keyed array / object)"})

    # ================================================================= probe programs (search)
    nprog = (14 if quick else 120)
    probe_cases = []
    if replay and replay.get("kind") == "probe":
        probe_cases = [replay]
    elif replay is None:
        for _ in range(nprog):
            src, labs, exp = gen_probe_program(rng, 18)
            probe_cases.append({"kind": "probe", "src": src, "labels": labs, "expect": exp})
    nproc = 3 if quick else 8
    probes_seen = {}
    if probe_cases:
        progs = [{"kind": "prog", "src": c["src"], "file": "c20p.php", "reps": reps_vm} for c in probe_cases]
        outs, rc, err = run_engine(binary, progs)
        if len(outs) != len(progs):
            ck.log("probe: engine returned %d/%d rc=%s %s" % (len(outs), len(progs), rc, err[-1500:]))
            ck.broken.append("harness-run:probe")
        else:
            pdir = os.path.join(ck.bdir, "probe")
            os.makedirs(pdir, exist_ok=True)
            for pi, (c, o) in enumerate(zip(probe_cases, outs)):
                variants = {}          # label -> set of payloads
                runs = [(r["outcome"], r["out"]) for r in o.get("runs", [])]
                # fresh processes
                path = os.path.join(pdir, "p%d.php" % pi)
                open(path, "w").write(c["src"])
                for _ in range(nproc):
                    rcode, so, se = run_proc(origami, path, repo)
                    runs.append(("proc:%s" % rcode, so))
                    variants.setdefault("@stderr", set()).add(se)
                    variants.setdefault("@exit", set()).add(str(rcode))
                for oc, text in runs:
                    pl = parse_lines(text)
                    for lab in c["labels"]:
                        variants.setdefault(lab, set()).add(json.dumps(pl.get(lab)))
                evaluations += len(runs)
                for lab, vs in variants.items():
                    probes_seen[lab] = probes_seen.get(lab, 0) + 1
                    want = (c.get("expect") or {}).get(lab)
                    if len(vs) == 1 and want is not None and json.loads(next(iter(vs))) != [want]:
                        ck.violation("order:%s" % lab, {"case": {"kind": "probe", "src": c["src"], "labels": [lab], "expect": {lab: want}},
                                                        "impl_out": sorted(vs)[:2], "want": want,
                                                        "clause": "entries are enumerated in insertion order (probe %s)" % lab})
                    if len(vs) > 1:
                        ck.violation("nondet:%s" % lab, {"case": {"kind": "probe", "src": c["src"], "labels": [lab] if not lab.startswith("@") else c["labels"]},
                                                         "impl_out": sorted(vs)[:4],
                                                         "clause": "same program, same inputs: byte-identical output (probe line %s differs between runs)" % lab})
            nontriv += len(probe_cases)
            ck.cov["probe_programs"] = len(probe_cases)
            ck.cov["probe_runs_per_program"] = "%d fresh VMs + %d fresh processes" % (reps_vm, nproc)
            ck.cov["probe_label_frequency"] = probes_seen

    # ================================================================= corpus (fresh processes)
    if replay is None or (replay and replay.get("kind") == "corpus"):
        if replay:
            files, excluded = [replay["file"]], 0
        else:
            files, excluded = corpus_files(repo)
        nrep = 3 if quick else 8
        t0 = time.time()
        from concurrent.futures import ThreadPoolExecutor
        jobs = [(f, i) for f in files for i in range(nrep)]
        with ThreadPoolExecutor(max_workers=max(2, min(12, vcheck.NCPU))) as ex:
            results = list(ex.map(lambda j: run_proc(origami, j[0], repo), jobs))
        byfile = {}
        for (f, i), r in zip(jobs, results):
            byfile.setdefault(f, []).append(r)
        varying = []
        for f, rs in sorted(byfile.items()):
            if any(r[0] == "timeout" for r in rs):
                continue
            if len(set(rs)) > 1:
                varying.append(f)
                ck.violation("corpus:%s" % f, {"case": {"kind": "corpus", "file": f},
                                               "impl_out": [list(map(str, r))[:2] for r in sorted(set(rs), key=str)[:3]],
                                               "clause": "same corpus file run %d times in fresh processes: output / stderr / exit status differ" % nrep})
        evaluations += len(jobs)
        ck.cov["corpus_files"] = len(files)
        ck.cov["corpus_files_excluded_as_time_or_io_dependent"] = excluded
        ck.cov["corpus_runs_per_file"] = nrep
        ck.cov["corpus_wall_s"] = round(time.time() - t0, 1)
        nontriv += len(files)

    # ================================================================= (A;B) vs (B)
    pair_cases = []
    incfile = os.path.join(ck.bdir, "c20inc.php")
    open(incfile, "w").write("<?php function c20inc() { return 1; }\n")
    if replay and replay.get("kind") == "pair":
        pair_cases = [replay]
    elif replay is None:
        for (pl, pa, wcell) in POLLUTERS:
            for (ol, ob, rcell) in OBSERVERS:
                rcells = rcell if isinstance(rcell, list) else [rcell]
                if wcell in rcells or rng.random() < (0.25 if quick else 1.0):
                    pair_cases.append({"kind": "pair", "pl": pl, "ol": ol, "wcell": wcell, "rcell": rcells,
                                       "a": "<?php " + pa.replace("%INC%", incfile), "b": "<?php " + ob.replace("%INC%", incfile)})
        # generated probe programs as A and as B
        # (B must be deterministic on its own: probes with a recorded nondet finding are left out)
        det = [p for p in PROBES if ("nondet:" + p[0]) not in ck.known]
        for _ in range(6 if quick else 60):
            a, _l, _e = gen_probe_program(rng, 10)
            b, _l, _e = gen_probe_program(rng, 10, det)
            pair_cases.append({"kind": "pair", "pl": "probe-program", "ol": "probe-program", "wcell": "-", "rcell": ["-"], "a": a, "b": b})
    if pair_cases:
        outs, rc, err = run_engine(binary, [{"kind": "pair", "a": c["a"], "b": c["b"]} for c in pair_cases], cwd=ck.bdir)
        if len(outs) != len(pair_cases):
            ck.log("pair: engine returned %d/%d rc=%s %s" % (len(outs), len(pair_cases), rc, err[-1500:]))
            ck.broken.append("harness-run:pair")
        else:
            table = coq_list("(%s, %s)" % (cs(k), v) for k, v in sorted(CELLS.items()))
            terms, idx = [], []
            for i, (c, o) in enumerate(zip(pair_cases, outs)):
                if o.get("err") or not o.get("alone") or not o.get("after"):
                    ck.violation("pair:error", {"case": c, "impl_out": o, "clause": "child process failed"})
                    continue
                leak = o["alone"] != o["after"]
                if c["wcell"] == "-":
                    # generated programs: no abstract script; the clause itself is the oracle
                    evaluations += 1
                    if leak:
                        ck.violation("leak:probe-program", {"case": c, "impl_out": o, "clause": "(A;B) vs (B): B's output differs"})
                    continue
                a = "[AWrite %s 1]" % cs(c["wcell"])
                rcs = c["rcell"] if isinstance(c["rcell"], list) else [c["rcell"]]
                b = coq_list("ARead %s" % cs(r) for r in rcs)
                terms.append("(%s, %s, %s, %s)" % (table, a, b, coq_bool(leak)))
                idx.append(i)
            bad = ck.eval_cases("pair", HEADER, terms, "check_leak", shard=400)
            if ck.replay:
                for c, o in zip(pair_cases, outs):
                    ck.log("replay pair: A = %s | B = %s" % (c["a"], c["b"]))
                    ck.log("implementation: B alone -> %s ; B after A -> %s" % (json.dumps(o.get("alone")), json.dumps(o.get("after"))))
                    ck.log("model: cell written %s (%s), cells read %s; spec: B must print the same" % (c.get("wcell"), CELLS.get(c.get("wcell")), c.get("rcell")))
            evaluations += len(terms)
            traces += len(terms)
            nontriv += sum(1 for c in pair_cases if c["wcell"] in c["rcell"])
            ck.cov["pair_cases"] = len(pair_cases)
            ck.cov["pair_cases_same_cell"] = sum(1 for c in pair_cases if c["wcell"] in c["rcell"])
            for j, cl in sorted(bad.items()):
                c, o = pair_cases[idx[j]], outs[idx[j]]
                if 1 in cl:
                    # the cell table mispredicts: either a new leak (2 also set) or a cell that stopped leaking
                    key = "leak-table:%s->%s:%s" % (c["pl"], c["ol"], "leaks" if 2 in cl else "no-longer-leaks")
                    if 2 not in cl:
                        ck.broken.append("correspondence:C20.cells:%s" % c["wcell"])
                    ck.violation(key, {"case": c, "impl_out": o,
                                       "clause": "no_leak: state-cell table says %s is %s but B %s" % (
                                           c["wcell"], CELLS.get(c["wcell"]), "could tell" if 2 in cl else "could not tell")})
                else:
                    ck.violation("leak:%s" % c["wcell"], {"case": c, "impl_out": o,
                                                         "clause": "a program on a fresh VM behaves the same whether or not others ran before (sticky_leaks_refuted instance)"})

    # ================================================================= site inventory
    if replay is None:
        p = subprocess.run([walker, repo, "./runtime", "./node", "./data"], stdout=subprocess.PIPE, stderr=subprocess.PIPE,
                           text=True, env=vcheck.go_env(), timeout=600)
        sites = []
        for l in p.stdout.splitlines():
            try:
                sites.append(json.loads(l))
            except ValueError:
                pass
        inv, gaps = [], []
        for s in sites:
            k = site_key(s)
            cls = SITE_CLASS.get(k)
            if cls is None and s.get("sorted_after"):
                cls = ("order-insensitive", "collect then sort (detected syntactically)")
            if cls is None:
                cls = ("unclassified", "new site: coverage gap")
                gaps.append(k)
            inv.append({"site": k, "line": s["line"], "class": cls[0], "why": cls[1]})
        if not sites:
            ck.notes.append("site walker produced no output: " + p.stderr[-500:])
        ck.cov["map_range_sites"] = inv
        ck.cov["map_range_sites_by_class"] = {c: sum(1 for x in inv if x["class"] == c)
                                             for c in ("modelled", "order-insensitive", "unmodelled", "unclassified")}
        ck.cov["map_range_sites_unclassified"] = gaps
        missing = [k for k, v in SITE_CLASS.items() if v[0] == "modelled" and k not in {site_key(s) for s in sites}]
        if missing:
            ck.notes.append("modelled map-range sites no longer present in the source (model may be stale): %s" % missing)
            ck.cov["modelled_sites_missing"] = missing

    ck.finish(level="proof", evaluations=evaluations, distinct_nontrivial=nontriv,
              rule="om: all sequences up to the stated length over a 13-op pool + seeded sequences of 1..25 ops with collision-biased keys; "
                   "find: seeded key sets from a case-colliding name pool, 160 lookups each; classes: seeded hierarchies of depth 1..3; "
                   "script: seeded set/unset sequences on string-keyed arrays and stdClass objects; probes: seeded programs of 18 labelled probe lines; "
                   "corpus: every .php under tests/ and examples/ that does not mention time/random/io; pairs: every polluter x observer on the same cell plus a seeded sample of the others. "
                   "non-trivial = distinct om sequence with a Set and >= 2 ops; find case with a case-fold collision and an inexact name; class level with >= 2 members; script case with >= 3 ops; each probe program; each corpus file; same-cell pair",
              traces=traces)
