"""C14 — encoders are faithful and decoders total: protobuf wire, base64/hex/url, PHP serialize, JSON.
Proof: coq/C14 (WireModel/WireSpec/WireProofs, BytesModel/..., SerModel/..., JsonModel/..., Properties.v).
Tie: the Go engine harness/cmd/c14 runs the real functions of /repo (std/protowire, std/php) and the Go
reference libraries on generated inputs; the Coq models and specs are evaluated on the same inputs by
vm_compute and diffed (coq/C14/*Run.v)."""
import importlib.util
import json
import os
import random
import subprocess
import sys

import vcheck
from vcheck import coq_list

HERE = os.path.dirname(os.path.abspath(__file__))


def _load(name):
    spec = importlib.util.spec_from_file_location(name, os.path.join(HERE, name + ".py"))
    mod = importlib.util.module_from_spec(spec)
    spec.loader.exec_module(mod)
    return mod


def run_impl(ck, binary, cases, timeout=900):
    """run cases through the engine (see run_impl_once) and re-run a shuffled sample of them in a second
    process: an observation that depends on which calls came before it (state kept between calls) differs
    between the two runs and is reported"""
    outs = run_impl_once(ck, binary, cases, timeout)
    if len(outs) == len(cases) and len(cases) > 20 and not ck.replay:
        idx = list(range(len(cases)))
        random.Random(ck.seed * 7919 + len(cases)).shuffle(idx)     # own stream: the generators' draws are not disturbed
        idx = [i for i in idx if cases[i].get("k") not in ("ftext", "fcanon")][:400]
        again = run_impl_once(ck, binary, [cases[i] for i in idx], timeout)
        if len(again) == len(idx):
            for i, o2 in zip(idx, again):
                if json.dumps(outs[i], sort_keys=True) != json.dumps(o2, sort_keys=True):
                    ck.violation("history-dependent:%s" % cases[i].get("k"),
                                 {"part": "history", "case": cases[i], "impl_out": outs[i], "impl_out_second_run": o2,
                                  "clause": "the same call gives a different result depending on the calls made before it"})
    return outs


def run_impl_once(ck, binary, cases, timeout=900):
    """run cases through the engine; restart after a hang/crash and attribute it to the case"""
    outs = []
    i = 0
    while i < len(cases):
        chunk = cases[i:]
        inp = "\n".join(json.dumps(c) for c in chunk) + "\n"
        env = dict(os.environ)
        env["GOMEMLIMIT"] = "2GiB"
        p = subprocess.run("ulimit -v 8000000; exec " + binary, shell=True, input=inp, stdout=subprocess.PIPE,
                           stderr=subprocess.PIPE, text=True, timeout=timeout, env=env)
        got = [json.loads(l) for l in p.stdout.splitlines() if l.strip()]
        outs.extend(got)
        i += len(got)
        if len(got) < len(chunk):
            # the process died on case i (fatal error / out of memory / killed)
            if not got or not got[-1].get("hang"):
                outs.append({"died": True, "rc": p.returncode, "stderr": p.stderr[-600:]})
                i += 1
    return outs


def main(ck):
    ck.trusted += [
        "models of library code the origami functions delegate to, hand-written and validated against the real libraries on "
        "every run (all 1- and 2-byte inputs + seeded longer ones): google protowire Consume*/Append* (WireModel.v), "
        "encoding/base64 StdEncoding, encoding/hex, net/url QueryEscape/unescape (BytesModel.v), strings.TrimSpace (SerModel.v)",
        "encoding/json text <-> tree, string escaping and float formatting are assumed: the JSON layer is modelled on trees whose "
        "number tokens (integer-looking?, exact integer, nearest binary64) are read from the text by checks/C14_json.py",
        "amd64 float64 -> int64 conversion and `val == float64(int64(val))` as modelled by f_integral / number_of_float (JsonModel.v)",
        "md5 / hash: no model; digests compared with crypto/* inside the Go engine only",
        "harness/cmd/c14 (Go engine), checks/C14*.py (generators, third encoder for protobuf trees, Coq term printers), "
        "coq/C14/Hex.v + Exh.v (transport; Uint63 primitives appear only there, not under any theorem)",
    ]
    ok = ck.prove()
    binary, out = ck.go_build("c14")
    if binary is None:
        ck.broken.append("harness-build")
        ck.finish(evaluations=0, distinct_nontrivial=0, rule="harness did not build")

    parts = []
    for name in ("C14_wire", "C14_bytes", "C14_ser", "C14_json"):
        if os.path.exists(os.path.join(HERE, name + ".py")):
            parts.append(_load(name))

    replay = None
    if ck.replay:
        replay = json.load(open(ck.replay))

    total_eval = 0
    total_nontriv = 0
    total_traces = 0
    rules = []
    for part in parts:
        if replay is not None and replay.get("part") != part.NAME:
            continue
        st = part.run(ck, binary, run_impl, replay)
        total_eval += st["evaluations"]
        total_nontriv += st["nontrivial"]
        total_traces += st["traces"]
        rules.append(st["rule"])
    ck.finish(level="proof", evaluations=total_eval, distinct_nontrivial=total_nontriv,
              rule=" || ".join(rules), traces=total_traces)
