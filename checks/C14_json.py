"""C14 part 4: JSON value <-> tree layer (json_encode / json_decode, std/serializer/json)."""
import json
import os
import struct
import sys

sys.setrecursionlimit(20000)
sys.path.insert(0, os.path.dirname(os.path.abspath(__file__)))
from C14_common import cbytes, eval_balanced, exh_inputs

NAME = "json"
HEADER = ("From Coq Require Import List NArith ZArith Uint63.\nFrom V.C14 Require Import Hex JsonModel JsonSpec JsonRun.\n"
          "Import ListNotations.\nOpen Scope N_scope.\n")

INTS = [0, 1, -1, 7, -128, 2 ** 31, -2 ** 31 - 1, 2 ** 53 - 1, 2 ** 53, 2 ** 53 + 1, -2 ** 53 - 1, 2 ** 62 + 1, 2 ** 63 - 1, -2 ** 63]
FLOATS = [0.5, -0.5, 0.1, 1e-7, 1.5e300, 1.0, -0.0, 0.0, 2.0 ** 53, 1e21, 1e22, 123456789.0, float("inf"), float("nan")]
STRS = ["", "a", "\"", "\\", "/", "<>&", "\n\t\x01", "é", "漢字", "😀", "0", "5", "-1", "key", "a b", " "]
BAD_UTF8 = [b"\xff", b"a\xc3", b"\xe2\x82", b"\xed\xa0\x80", b"\xc0\xaf", b"\xf4\x90\x80\x80", b"ok\x80"]
ECL = {1: "model json_encode<>impl", 2: "model json_decode(default)<>impl", 3: "model json_decode(assoc)<>impl",
       4: "reference reader does not read the output back as the value / wrong refusal", 5: "default-mode decode of the output <> the value",
       6: "assoc-mode decode of the output <> the value"}
DCL = {1: "model<>impl", 2: "reference reading<>impl"}


def fbits(f):
    return struct.unpack("<Q", struct.pack("<d", f))[0]


class Skip(Exception):
    pass


# ---------------------------------------------------------------- values
def gen_value(rng, depth, top=False):
    kinds = ["null", "bool", "int", "int", "float", "str", "str"]
    if depth > 0:
        kinds += ["list", "list", "map", "map", "map", "arr"]
    t = rng.choice(kinds)
    if top and rng.random() < 0.6:
        t = "map"
    if t == "null":
        return {"t": "null"}
    if t == "bool":
        return {"t": "bool", "v": rng.random() < 0.5}
    if t == "int":
        return {"t": "int", "v": str(rng.choice(INTS) if rng.random() < 0.6 else rng.randint(-10 ** 6, 10 ** 6))}
    if t == "float":
        f = rng.choice(FLOATS) if rng.random() < 0.7 else rng.uniform(-1e6, 1e6)
        return {"t": "float", "v": str(fbits(f))}
    if t == "str":
        if rng.random() < 0.04:
            return {"t": "str", "v": rng.choice(BAD_UTF8).hex()}
        s = rng.choice(STRS) if rng.random() < 0.6 else "".join(rng.choice("abc\"\\é漢 \n") for _ in range(rng.randint(0, 8)))
        return {"t": "str", "v": s.encode().hex()}
    n = rng.choice([0, 1, 2, 3]) if depth > 0 else 0
    if t == "list":
        return {"t": "list", "v": [gen_value(rng, depth - 1) for _ in range(n)]}
    keys = []
    while len(keys) < n:
        k = rng.choice(STRS + ["k%d" % len(keys)])
        if k not in keys and not (t == "arr" and k == ""):
            keys.append(k)
    if t == "arr" and n == 0:
        t = "map"
    return {"t": t, "v": [[k.encode().hex(), gen_value(rng, depth - 1)] for k in keys]}


def classes(v, out=None, top=True):
    """defect classes a value falls into (for narrow known-finding keys)"""
    out = set() if out is None else out
    t = v["t"]
    if t == "arr":
        out.add("keyed-array")
    if t == "float":
        f = struct.unpack("<d", struct.pack("<Q", int(v["v"])))[0]
        if f != f or f in (float("inf"), float("-inf")):
            out.add("nan-inf")
        elif f == int(f) and abs(f) < 1e21:
            out.add("integral-float")
    if t == "int" and abs(int(v["v"])) > 2 ** 53:
        out.add("int-above-2^53")
    if t == "list":
        for x in v["v"]:
            classes(x, out, False)
    if t in ("map", "arr"):
        for k, x in v["v"]:
            if k == "":
                out.add("empty-key")
            classes(x, out, False)
    if top and t not in ("map", "arr"):
        out.add("toplevel-" + ("array" if t == "list" else ("null" if t == "null" else "scalar")))
    return out


# ---------------------------------------------------------------- JSON trees and text
def gen_tree(rng, depth, top=False):
    kinds = ["null", "bool", "int", "int", "flt", "str", "str"]
    if depth > 0:
        kinds += ["arr", "arr", "obj", "obj", "obj"]
    t = rng.choice(kinds)
    if top and rng.random() < 0.6:
        t = "obj"
    if t in ("null",):
        return ("null",)
    if t == "bool":
        return ("bool", rng.random() < 0.5)
    if t == "int":
        z = rng.choice(INTS + [2 ** 63, 2 ** 64, -2 ** 63 - 1, 10 ** 25]) if rng.random() < 0.6 else rng.randint(-10 ** 6, 10 ** 6)
        return ("int", str(z) if z != 0 or rng.random() < 0.8 else "-0")
    if t == "flt":
        return ("flt", rng.choice(["1.0", "1.5", "0.1", "1e2", "1E+2", "1e-2", "-0.0", "2.5e3", "9007199254740993.0", "1e21",
                                   "1e19", "9.223372036854775807e18", "-9.223372036854775808e18", "123.456", "1e400", "5e-324", "1.0e0"]))
    if t == "str":
        return ("str", rng.choice(STRS))
    n = rng.choice([0, 1, 2, 3])
    if t == "arr":
        return ("arr", [gen_tree(rng, depth - 1) for _ in range(n)])
    kvs = []
    for _ in range(n):
        k = rng.choice(STRS[:6] + ["a", "b", "a"])          # repeated keys on purpose
        kvs.append((k, gen_tree(rng, depth - 1)))
    return ("obj", kvs)


def render(rng, t):
    sp = lambda: rng.choice(["", "", "", " ", "\n", "\t "])
    k = t[0]
    if k == "null":
        return "null"
    if k == "bool":
        return "true" if t[1] else "false"
    if k in ("int", "flt"):
        return t[1]
    if k == "str":
        return json.dumps(t[1], ensure_ascii=rng.random() < 0.5)
    if k == "arr":
        return "[" + sp() + ("," + sp()).join(render(rng, x) for x in t[1]) + sp() + "]"
    return "{" + sp() + ("," + sp()).join(json.dumps(kk) + sp() + ":" + sp() + render(rng, x) for kk, x in t[1]) + sp() + "}"


class NotUTF8(Exception):
    pass


def parse_text(b):
    """text -> tree with tokens kept; raises Skip when python cannot represent it, NotUTF8 when the
    text is not UTF-8 (for implementation output that is a violation: the text denotes nothing)"""
    def const(_):
        raise ValueError("constant")
    try:
        b.decode("utf-8")
    except UnicodeDecodeError:
        raise NotUTF8()
    try:
        s = b.decode("utf-8")
        x = json.loads(s, object_pairs_hook=lambda p: ("obj", p), parse_int=lambda q: ("int", q),
                       parse_float=lambda q: ("flt", q), parse_constant=const)
    except (ValueError, RecursionError):
        raise Skip()

    def conv(y):
        if y is None:
            return ("null",)
        if y is True or y is False:
            return ("bool", y)
        if isinstance(y, str):
            try:
                y.encode("utf-8")
            except UnicodeEncodeError:
                raise Skip()
            return ("str", y)
        if isinstance(y, list):
            return ("arr", [conv(z) for z in y])
        if isinstance(y, tuple) and y[0] == "obj":
            return ("obj", [(kk, conv(z)) for kk, z in y[1]])
        return y
    return conv(x)


def tofloat(txt):
    try:
        return float(txt)
    except OverflowError:
        return float("-inf") if txt.startswith("-") else float("inf")


def overflow(t):
    k = t[0]
    if k in ("int", "flt"):
        try:
            f = float(t[1])
        except (OverflowError, ValueError):
            return True
        return f in (float("inf"), float("-inf"))
    if k == "arr":
        return any(overflow(x) for x in t[1])
    if k == "obj":
        return any(overflow(x) for _, x in t[1])
    return False


def assoc_class(t):
    """why the assoc-mode reading of a tree differs from the reference: narrow key"""
    found = set()

    def walk(x):
        if x[0] == "arr":
            for y in x[1]:
                walk(y)
        elif x[0] == "obj":
            for k, y in x[1]:
                if k == "":
                    found.add("empty-key")
                walk(y)
    walk(t)
    return sorted(found) or ["other"]


# ---------------------------------------------------------------- Coq printers
def cz(z):
    z = int(z)
    if -2 ** 31 < z < 2 ** 31:
        return "(%d)%%Z" % z
    m = abs(z)
    if m >= 2 ** 64:
        return "(%d)%%Z" % z
    return "(z64 %s 0x%x 0x%x)" % ("true" if z < 0 else "false", m >> 32, m & 0xffffffff)


def cb(b):
    return "(n64 0x%x 0x%x)" % (b >> 32, b & 0xffffffff)


def ctree(t):
    k = t[0]
    if k == "null":
        return "JNull"
    if k == "bool":
        return "(JBool %s)" % ("true" if t[1] else "false")
    if k == "int":
        return "(JNum true %s %s)" % (cz(int(t[1])), cb(fbits(tofloat(t[1]))))
    if k == "flt":
        return "(JNum false 0%%Z %s)" % cb(fbits(tofloat(t[1])))
    if k == "str":
        return "(JStr %s)" % cbytes(t[1].encode("utf-8"))
    if k == "arr":
        return "(JArr [%s])" % ";".join(ctree(x) for x in t[1])
    return "(JObj [%s])" % ";".join("(%s,%s)" % (cbytes(kk.encode("utf-8")), ctree(x)) for kk, x in t[1])


def cpval(v):
    t = v["t"]
    if t == "null":
        return "PNull"
    if t == "bool":
        return "(PBool %s)" % ("true" if v["v"] else "false")
    if t == "int":
        return "(PInt %s)" % cz(v["v"])
    if t == "float":
        return "(PFloat %s)" % cb(int(v["v"]))
    if t == "str":
        return "(PStr %s)" % cbytes(bytes.fromhex(v["v"]))
    if t == "list":
        return "(PList [%s])" % ";".join(cpval(x) for x in v["v"])
    if t in ("map", "arr"):
        items = []
        for k, x in v["v"]:
            items.append("(%s,%s)" % (cbytes(bytes.fromhex(k or "")), cpval(x)))
        return "(%s [%s])" % ("PMap" if t == "map" else "PArr", ";".join(items))
    raise Skip()


def copt(v):
    if v is None or v["t"] == "null":
        return "None"
    return "(Some %s)" % cpval(v)


def run(ck, binary, run_impl, replay):
    rng = ck.rng
    quick = ck.tier == "quick"
    ecases, dcases, mal = [], [], []
    depth_case = []
    if replay is not None:
        c = replay["case"]
        if c["k"] == "json.enc":
            ecases = [c]
        elif c["k"] == "json.depth":
            depth_case = [c]
        elif replay.get("malformed"):
            mal = [c]
        else:
            dcases = [dict(c, _tree=parse_text(bytes.fromhex(c["hex"])))]
    else:
        for i in range(700 if quick else 15000):
            ecases.append({"k": "json.enc", "v": gen_value(rng, rng.choice([0, 1, 2, 3, 4]), top=True)})
        for z in INTS:
            ecases.append({"k": "json.enc", "v": {"t": "map", "v": [["6e", {"t": "int", "v": str(z)}]]}})
        for f in FLOATS:
            ecases.append({"k": "json.enc", "v": {"t": "map", "v": [["66", {"t": "float", "v": str(fbits(f))}]]}})
        for s in STRS:
            ecases.append({"k": "json.enc", "v": {"t": "map", "v": [[s.encode().hex(), {"t": "str", "v": s.encode().hex()}]]}})
        ecases.append({"k": "json.enc", "v": {"t": "arr", "v": [["61", {"t": "int", "v": "1"}]]}})
        ecases.append({"k": "json.enc", "v": {"t": "str", "v": "ff22"}})          # invalid UTF-8
        for i in range(700 if quick else 15000):
            t = gen_tree(rng, rng.choice([0, 1, 2, 3, 4]), top=True)
            txt = render(rng, t).encode("utf-8")
            if len(txt) > 4096:
                continue
            for assoc in (False, True):
                dcases.append({"k": "json.dec", "hex": txt.hex(), "assoc": assoc, "_tree": t})
            if rng.random() < 0.5:
                dcases.append({"k": "json.dec", "hex": txt.hex(), "assoc": rng.random() < 0.5, "depth": rng.choice([1, 2, 3, 4, 5, -1]), "_tree": t})
            # malformed neighbours
            b = bytearray(txt)
            kind = rng.choice(["trunc", "flip", "insert", "del"])
            if kind == "trunc" and b:
                del b[rng.randrange(len(b)):]
            elif kind == "flip" and b:
                b[rng.randrange(len(b))] ^= 1 << rng.randrange(7)
            elif kind == "insert":
                b.insert(rng.randrange(len(b) + 1), rng.choice(b"{}[],:\"\\0-.eE tnf"))
            elif kind == "del" and b:
                del b[rng.randrange(len(b))]
            mal.append({"k": "json.dec", "hex": bytes(b).hex(), "assoc": rng.random() < 0.5})
            # trailing data after a complete value: every kind of following byte, both modes
            if i < (80 if quick else 1500):
                for tail in (b"}", b"]", b" }", b"\n]", b"} x", b"]]", b",", b"x", b"\"", b"{", b"[", b"0", b" null", b":", b"}{", b"\x00"):
                    for assoc in (False, True):
                        mal.append({"k": "json.dec", "hex": (txt + tail).hex(), "assoc": assoc})
        # nesting: 60 levels of arrays / objects
        deep = "1"
        for i in range(60):
            deep = "[" + deep + "]" if i % 2 else "{\"a\":" + deep + "}"
        for assoc in (False, True):
            for depth in (0, 59, 60, 61):
                dcases.append({"k": "json.dec", "hex": deep.encode().hex(), "assoc": assoc, "depth": depth, "_tree": parse_text(deep.encode())})
        for txt in ("null", "true", "5", "\"s\"", "[1,2]", "[]", "{}", " {\"a\":1} ", "{\"a\":1,\"a\":2}", "{\"a\":{\"b\":[1,{\"c\":null}]}}",
                    "{\"n\":9007199254740993}", "{\"n\":9223372036854775808}", "{\"f\":1.0}", "{\"f\":1e400}", "9007199254740993", "-0", "1E2"):
            for assoc in (False, True):
                dcases.append({"k": "json.dec", "hex": txt.encode().hex(), "assoc": assoc, "_tree": parse_text(txt.encode())})
        # all 1- and 2-byte inputs, both modes
        for b in exh_inputs():
            for assoc in (False, True):
                mal.append({"k": "json.dec", "hex": b.hex(), "assoc": assoc, "_exh": True})
        depth_case = [{"k": "json.depth"}]

    def strip(c):
        return {k: v for k, v in c.items() if not k.startswith("_")}

    ck.log("json: %d encode cases, %d decode cases, %d malformed/short inputs" % (len(ecases), len(dcases), len(mal)))
    outs = run_impl(ck, binary, [strip(c) for c in ecases + dcases + mal + depth_case])
    if len(outs) != len(ecases) + len(dcases) + len(mal) + len(depth_case):
        ck.broken.append("harness-run:json")
        return {"evaluations": len(outs), "nontrivial": 0, "traces": 0, "rule": "json: harness crashed"}
    o_e = outs[:len(ecases)]
    o_d = outs[len(ecases):len(ecases) + len(dcases)]
    o_m = outs[len(ecases) + len(dcases):len(ecases) + len(dcases) + len(mal)]
    o_depth = outs[len(ecases) + len(dcases) + len(mal):]
    ck.log("json: implementation ran")

    def crashed(o):
        return o.get("panic") or o.get("hang") or o.get("died") or o.get("err") or o.get("harness_error") or \
            o.get("back_err") or o.get("back_assoc_err")

    skipped = 0
    # ---- encode cases
    terms, idx = [], []
    for i, (c, o) in enumerate(zip(ecases, o_e)):
        if crashed(o):
            ck.violation("json:enc:crash", {"part": NAME, "case": c, "impl_out": o, "clause": "total: never crashes / throws"})
            continue
        try:
            if "out" in o:
                if o.get("valid") is not True:
                    raise ValueError("output is not JSON")
                tree = "(Some %s)" % ctree(parse_text(bytes.fromhex(o["out"])))
            elif o.get("kind") == "false":
                tree = "None"
            else:
                raise ValueError("neither a string nor false")
            terms.append("{| je_v := %s; je_tree := %s; je_back := %s; je_back_assoc := %s |}" % (
                cpval(c["v"]), tree, copt(o.get("back")), copt(o.get("back_assoc"))))
            idx.append(i)
        except Skip:
            skipped += 1
        except (ValueError, NotUTF8):
            ck.violation("json:enc:invalid-output", {"part": NAME, "case": c, "impl_out": o, "clause": "output is neither well-formed UTF-8 JSON nor false"})
    bad = eval_balanced(ck, "jenc", HEADER, terms, "check_jenc")
    for j, cls in sorted(bad.items(), key=lambda kv: len(json.dumps(ecases[idx[kv[0]]]["v"]))):
        c, o = ecases[idx[j]], o_e[idx[j]]
        rp = {"part": NAME, "case": c, "impl_out": o, "clause": [ECL[x] for x in cls]}
        if 1 in cls or 2 in cls or 3 in cls:
            ck.broken.append("correspondence:C14.json-encode")
            ck.violation("json:enc:clauses=%s" % "".join(map(str, cls)), rp)
            continue
        # spec-only disagreements: attribute each to the defect classes of the value
        cl = classes(c["v"])
        keys = []
        if 5 in cls:
            keys += ["json:dec:default:" + k for k in sorted(cl & {"toplevel-array", "toplevel-scalar", "toplevel-null"})]
        if 6 in cls:
            keys += ["json:dec:assoc:" + k for k in sorted(cl & {"empty-key"})]
        if not keys or 4 in cls:
            keys = ["json:enc:unattributed:clauses=%s" % "".join(map(str, cls))]
        for k in sorted(set(keys)):
            ck.violation(k, dict(rp, key=k))

    # ---- decode cases (well-formed input)
    dterms, didx = [], []
    order_var = 0
    for i, (c, o) in enumerate(zip(dcases, o_d)):
        if crashed(o):
            ck.violation("json:dec:crash", {"part": NAME, "case": strip(c), "impl_out": o, "clause": "decoder total: never crashes / hangs"})
            continue
        if o.get("variants", 1) > 1:
            order_var += 1
            ck.violation("json:dec:object-key-order", {"part": NAME, "case": strip(c), "impl_out": o,
                                                       "clause": "repeated decoding of the same text gives different key orders"})
        if o.get("valid") is not True:
            ck.broken.append("harness:json-generator-produced-invalid-text")
            continue
        try:
            dterms.append("{| jd_tree := %s; jd_assoc := %s; jd_depth := (%d)%%Z; jd_obs := %s |}" % (
                ctree(c["_tree"]), "true" if c["assoc"] else "false", c.get("depth") or 512, copt(o["val"])))
            didx.append(i)
        except Skip:
            skipped += 1
    dbad = eval_balanced(ck, "jdec", HEADER, dterms, "check_jdec")
    for j, cls in sorted(dbad.items(), key=lambda kv: len(dcases[didx[kv[0]]]["hex"])):
        c, o = dcases[didx[j]], o_d[didx[j]]
        rp = {"part": NAME, "case": strip(c), "impl_out": o, "clause": [DCL[x] for x in cls]}
        if 1 in cls:
            ck.broken.append("correspondence:C14.json-decode")
            ck.violation("json:dec:clauses=1:%s" % ("assoc" if c["assoc"] else "default"), rp)
            continue
        t = c["_tree"]
        if not c["assoc"]:
            key = "json:dec:default:toplevel-" + ("array" if t[0] == "arr" else ("null" if t[0] == "null" else "scalar")) \
                if t[0] != "obj" else "json:dec:default:other"
            ck.violation(key, rp)
        else:
            for k in assoc_class(t):
                ck.violation("json:dec:assoc:" + k, dict(rp, key="json:dec:assoc:" + k))
    ck.log("json: coq evaluated")

    # ---- malformed / short inputs: the implementation must answer NULL exactly on the ill-formed ones
    extra = []
    for c, o in zip(mal, o_m):
        if crashed(o):
            ck.violation("json:dec:crash", {"part": NAME, "case": strip(c), "impl_out": o, "malformed": True,
                                            "clause": "decoder total: never crashes / hangs"})
            continue
        if not o.get("valid"):
            if o["val"]["t"] != "null":
                ck.violation("json:dec:accepts-malformed:%s" % ("assoc" if c["assoc"] else "default"),
                             {"part": NAME, "case": strip(c), "impl_out": o, "malformed": True, "clause": "ill-formed JSON accepted"})
        else:
            try:
                t = parse_text(bytes.fromhex(c["hex"]))
                extra.append((c, o, t))
            except (Skip, NotUTF8):
                skipped += 1
    xterms = ["{| jd_tree := %s; jd_assoc := %s; jd_depth := 512%%Z; jd_obs := %s |}" % (ctree(t), "true" if c["assoc"] else "false", copt(o["val"]))
              for c, o, t in extra]
    xbad = eval_balanced(ck, "jdecx", HEADER, xterms, "check_jdec")
    for j, cls in sorted(xbad.items()):
        c, o, t = extra[j]
        rp = {"part": NAME, "case": strip(c), "impl_out": o, "clause": [DCL[x] for x in cls]}
        if 1 in cls:
            ck.broken.append("correspondence:C14.json-decode")
            ck.violation("json:dec:clauses=1:%s" % ("assoc" if c["assoc"] else "default"), rp)
        elif not c["assoc"]:
            key = "json:dec:default:toplevel-" + ("array" if t[0] == "arr" else ("null" if t[0] == "null" else "scalar")) \
                if t[0] != "obj" else "json:dec:default:other"
            ck.violation(key, rp)
        else:
            for k in assoc_class(t):
                ck.violation("json:dec:assoc:" + k, dict(rp, key="json:dec:assoc:" + k))

    for c, o in zip(depth_case, o_depth):
        if o.get("out") != "null":
            ck.violation("json:dec:depth-ignored", {"part": NAME, "case": c, "impl_out": o,
                                                    "clause": "json_decode('[[1]]', true, 1) must be NULL (nesting limit 1)"})

    cls_count = {}
    for c in ecases:
        for k in classes(c["v"]) or {"plain"}:
            cls_count[k] = cls_count.get(k, 0) + 1
    ck.cov["json_encode_value_classes"] = cls_count
    ck.cov["json_decode_cases"] = {"wellformed": len(dcases), "malformed_or_short": len(mal), "order_varied": order_var,
                                   "wellformed_among_short_or_mutants": len(extra)}
    ck.cov["json_skipped_unrepresentable"] = skipped
    if ecases:
        ck.samples.append({"json_case": ecases[len(ecases) // 2]})
    nontriv = len(set(json.dumps(c["v"], sort_keys=True) for c in ecases if c["v"]["t"] in ("list", "map", "arr") and c["v"]["v"])) \
        + len(set((c["hex"], c["assoc"]) for c in dcases if len(c["hex"]) >= 8))
    return {"evaluations": len(ecases) + len(dcases) + len(mal) + len(depth_case), "nontrivial": nontriv,
            "traces": len(terms) + len(dterms) + len(xterms),
            "rule": "json: seeded value trees to depth 4 (boundary ints incl. beyond 2^53, floats incl. integral / NaN / Inf, UTF-8 "
                    "strings with quotes, backslashes, control characters, lists, maps, keyed arrays) through json_encode and both "
                    "json_decode modes; seeded JSON texts (number spellings, repeated keys, white space, 60-level nesting) through both "
                    "modes; one mutant per text and all 1- and 2-byte inputs for NULL-exactly-on-ill-formed (reference: encoding/json "
                    "Valid); non-trivial = distinct non-empty container value / distinct text of >= 4 bytes"}
