"""shared helpers of the C14 check parts: compact Coq term printers, balanced sharding,
exhaustive short-input runs (coq/C14/Exh.v)."""
import vcheck

NSHARD = 16


def cbytes(b):
    """Coq term of type list N for a byte string (coq/C14/Hex.v hb).  No list literal is longer than
    400 elements (Coq's parser overflows its stack on very long literals)."""
    b = bytes(b)
    if len(b) <= 2:
        return "[" + ";".join(str(x) for x in b) + "]"
    parts = []
    step = 7 * 400
    for off in range(0, len(b), step):
        seg = b[off:off + step]
        chunks = [seg[i:i + 7] for i in range(0, len(seg), 7)]
        parts.append("hb %d [%s]%%uint63" % (len(chunks[-1]), ";".join("0x" + ch.hex() for ch in chunks)))
    if len(parts) == 1:
        return "(" + parts[0] + ")"
    return "(" + " ++ ".join(parts) + ")%list"


def cn(v):
    """Coq term of type N for a number below 2^64"""
    v = int(v)
    if v < 2 ** 31:
        return str(v)
    return "(n64 0x%x 0x%x)" % (v >> 32, v & 0xffffffff)


def cnums(l):
    return "[" + ";".join(cn(x) for x in l) + "]"


def eval_balanced(ck, name, header, terms, fn, nshard=NSHARD, timeout=1200):
    """ck.eval_cases with the terms dealt round-robin by size so every shard costs the same;
    returns {original index: clauses}"""
    n = len(terms)
    if n == 0:
        return {}
    order = sorted(range(n), key=lambda i: -len(terms[i]))
    nshard = max(1, min(nshard, (n + 199) // 200))
    buckets = [[] for _ in range(nshard)]
    for k, i in enumerate(order):
        buckets[k % nshard].append(i)
    size = len(buckets[0])
    perm = []
    for b in buckets:
        perm.extend(b)
    # eval_cases cuts consecutive chunks of `size`; buckets after the first few may be one shorter,
    # which only shifts boundaries by a few cases
    bad = ck.eval_cases(name, header, [terms[i] for i in perm], fn, shard=size, timeout=timeout)
    return {perm[j]: cls for j, cls in bad.items()}


def exh_inputs():
    """enumeration order of coq/C14/Exh.v exh_inputs 0 256"""
    out = []
    for a in range(256):
        out.append(bytes([a]))
        for b in range(256):
            out.append(bytes([a, b]))
    return out


def exh_eval(ck, name, header, coq_fns, codes_list, nranges=NSHARD):
    """coq_fns: Coq terms of type N -> N -> list N -> list nat (lo hi stream), one per function;
    codes_list[k]: observation code (bytes) of function k per input of exh_inputs(), in order.
    One coqc process per input range evaluates every function on that range.
    returns {k: sorted failing input indexes (into exh_inputs())}."""
    per = 256 // nranges
    terms = []
    nf = len(coq_fns)
    for r in range(nranges):
        lo, hi = r * per, (r + 1) * per
        for k in range(nf):
            stream = bytearray()
            for idx in range(lo * 257, hi * 257):
                c = codes_list[k][idx]
                stream += len(c).to_bytes(2, "little") + c
            terms.append("(%d%%nat, %d, %d, %s)" % (k, lo, hi, cbytes(stream)))
    fn = ("(fun c => let '(k, lo, hi, s) := c in nth k [%s] (fun _ _ _ => [0%%nat]) lo hi s)"
          % "; ".join(coq_fns))
    bad = ck.eval_cases(name, header, terms, fn, shard=nf)
    fails = {k: [] for k in range(nf)}
    for i, idxs in bad.items():
        r, k = divmod(i, nf)
        for j in idxs:
            fails[k].append(r * per * 257 + j)
    return {k: sorted(v) for k, v in fails.items()}
