"""C19 — a generic instantiation enforces its own type arguments, whatever came before.
Proof: coq/C19 (model of NewClassGenerated.resolveClass / ClassGeneric.Clone+GetProperty /
the three typed-store paths; reference semantics without any shared cell; theorems over ALL
histories).  Tie: histories (instantiations interleaved with typed member stores through three
paths, and reads) are printed as scripts and run on the real interpreter in-process (one fresh
VM per history); the Coq model and the Coq spec are evaluated on the same histories by
vm_compute and compared with what the script printed."""
import itertools
import json
import subprocess
import vcheck
from vcheck import coq_string, coq_list, coq_z

HEADER = "From V.C19 Require Import Model Spec Run.\nOpen Scope string_scope.\n"

ARGS = ["int", "string", "array", "A"]          # the property's {int, string, array, a user class}
ARGS_X = ARGS + ["B", "C"]
# value kinds: int, string, array, object of A / B (extends A) / C, null
VALS = [("i", 5), ("s", "sx"), ("a", 4), ("o", "A"), ("o", "B"), ("o", "C"), ("n", None)]
PATHS = ["direct", "method", "dyn"]

FIXTURE = """class A {}
class B extends A {}
class C {}
function tag($x) {
  if (is_null($x)) { return "null"; }
  if (is_int($x)) { return "i:" . $x; }
  if (is_string($x)) { return "s:" . $x; }
  if (is_array($x)) { return "a:" . $x[0]; }
  if (is_object($x)) { return "o:" . get_class($x); }
  return "?";
}
"""

# class tables: name -> (params, [(prop, declared type)]) ; declared type: "T"-style parameter name,
# a concrete type, or None (untyped)
BOX = ("Box", ["T"], [("v", "T"), ("n", "int"), ("u", None)])
PAIR = ("Pair", ["K", "V"], [("k", "K"), ("w", "V"), ("k2", "K"), ("s", "string")])
CELL = ("Cell", ["E"], [("e", "E"), ("a", "A")])


def matching_value(arg):
    return {"int": ("i", 7), "string": ("s", "m"), "array": ("a", 2), "A": ("o", "B"), "B": ("o", "B"), "C": ("o", "C")}[arg]


def other_value(arg):
    return {"int": ("s", "q"), "string": ("i", 3), "array": ("i", 8), "A": ("o", "C"), "B": ("o", "A"), "C": ("a", 1)}[arg]


# ------------------------------------------------------------------ printers
def php_val(v):
    k, x = v
    if k == "i":
        return str(x)
    if k == "s":
        return '"%s"' % x
    if k == "a":
        return "[%d]" % x
    if k == "o":
        return "new %s()" % x
    return "null"


def script(tbl, ops):
    out = [FIXTURE]
    for name, params, props in tbl:
        out.append("class %s<%s> {" % (name, ", ".join(params)))
        for p, t in props:
            out.append("  public %s$%s;" % ((t + " ") if t else "", p))
        for p, t in props:
            out.append("  public function put_%s($x) { $this->%s = $x; return 1; }" % (p, p))
        out.append("}")
    for o in ops:
        if o[0] == "new":
            _, var, cls, args = o
            out.append('try { $o%d = new %s<%s>(); echo "N\\n"; } catch (Throwable $e) { echo "X\\n"; }' % (var, cls, ", ".join(args)))
        elif o[0] == "write":
            _, path, var, p, v = o
            if path == "direct":
                st = "$o%d->%s = %s;" % (var, p, php_val(v))
            elif path == "method":
                st = "$o%d->put_%s(%s);" % (var, p, php_val(v))
            else:
                st = '$nm = "%s"; $o%d->{$nm} = %s;' % (p, var, php_val(v))
            out.append('try { %s echo "A\\n"; } catch (Throwable $e) { echo "R\\n"; }' % st)
        else:
            _, var, p = o
            out.append('try { echo tag($o%d->%s), "\\n"; } catch (Throwable $e) { echo "T\\n"; }' % (var, p))
    return "\n".join(out) + "\n"


def coq_cty(a):
    return {"int": "CInt", "string": "CString", "array": "CArray"}.get(a) or '(CClass "%s")' % a


def coq_val(v):
    k, x = v
    if k == "i":
        return "(VInt %s)" % coq_z(x)
    if k == "s":
        return "(VStr %s)" % coq_string(x)
    if k == "a":
        return "(VArr %s)" % coq_z(x)
    if k == "o":
        return "(VObj %s)" % coq_string(x)
    return "VNull"


def coq_tbl(tbl):
    items = []
    for name, params, props in tbl:
        ps = []
        for p, t in props:
            if t is None:
                d = "None"
            elif t in params:
                d = '(Some (DGen "%s"))' % t
            else:
                d = "(Some (DConc %s))" % coq_cty(t)
            ps.append('("%s", %s)' % (p, d))
        items.append('("%s", {| g_params := %s; g_props := %s |})' % (
            name, coq_list('"%s"' % x for x in params), coq_list(ps)))
    return coq_list(items)


def coq_ops(ops):
    res = []
    for o in ops:
        if o[0] == "new":
            res.append('ONew "%s" %s' % (o[2], coq_list(coq_cty(a) for a in o[3])))
        elif o[0] == "write":
            pa = {"direct": "PDirect", "method": "PMethod", "dyn": "PDyn"}[o[1]]
            res.append('OWrite %s %d%%nat "%s" %s' % (pa, o[2], o[3], coq_val(o[4])))
        else:
            res.append('ORead %d%%nat "%s"' % (o[1], o[2]))
    return coq_list(res)


def parse_obs(out):
    """script stdout -> list of Coq obs terms, or None when a line is not a marker"""
    res = []
    for line in out.split("\n"):
        if line == "":
            continue
        if line == "N":
            res.append("Created")
        elif line == "X":
            res.append("NewFailed")
        elif line == "A":
            res.append("Accepted")
        elif line == "R":
            res.append("Rejected")
        elif line == "null":
            res.append("Got VNull")
        elif line.startswith("i:") and line[2:].lstrip("-").isdigit():
            res.append("Got (VInt %s)" % coq_z(int(line[2:])))
        elif line.startswith("s:"):
            res.append("Got (VStr %s)" % coq_string(line[2:]))
        elif line.startswith("a:") and line[2:].lstrip("-").isdigit():
            res.append("Got (VArr %s)" % coq_z(int(line[2:])))
        elif line.startswith("o:"):
            res.append("Got (VObj %s)" % coq_string(line[2:]))
        else:
            return None
    return res


# ------------------------------------------------------------------ generators
def props_typed_by_param(cls):
    return [p for p, t in cls[2] if t in cls[1]]


def probe_all(tbl_by_name, live, rot):
    """stores of every value kind into every parameter-typed member of every live instance
    (paths rotate), each followed by a read"""
    ops = []
    k = rot
    for var, cls, args in live:
        c = tbl_by_name[cls]
        for p in props_typed_by_param(c):
            for v in VALS:
                ops.append(("write", PATHS[k % 3], var, p, v))
                k += 1
            ops.append(("read", var, p))
    return ops


def enumerated(tier):
    """all instantiation sequences of Box<T> up to length 3 (quick) with, after each `new`, one of
    {nothing, a store of a value of the argument's type, a store of a value of another type} into
    the new instance's T-typed member; length 4 with {nothing, matching store}; then every live
    instance is probed with every value kind.  Thorough: three choices at length 4 as well."""
    tbl = [BOX]
    byn = {c[0]: c for c in tbl}
    cases = []
    def build(events):
        ops, live = [], []
        for j, (arg, w) in enumerate(events):
            ops.append(("new", j, "Box", [arg]))
            live.append((j, "Box", [arg]))
            if w == 1:
                ops.append(("write", PATHS[j % 3], j, "v", matching_value(arg)))
            elif w == 2:
                ops.append(("write", PATHS[(j + 1) % 3], j, "v", other_value(arg)))
        ops += probe_all(byn, live, len(events))
        return {"tbl": tbl, "ops": ops, "gen": "enum%d" % len(events)}
    for n in (1, 2, 3):
        for ev in itertools.product([(a, w) for a in ARGS for w in (0, 1, 2)], repeat=n):
            cases.append(build(ev))
    ws = (0, 1, 2) if tier != "quick" else (0, 1)
    for ev in itertools.product([(a, w) for a in ARGS for w in ws], repeat=4):
        cases.append(build(ev))
    return cases


def seeded(rng, n):
    cases = []
    for _ in range(n):
        tbl = rng.choice([[BOX, PAIR], [PAIR], [BOX, CELL], [PAIR, CELL, BOX]])
        byn = {c[0]: c for c in tbl}
        ops, live = [], []
        ninst = rng.randint(2, 6)
        nwrites = rng.randint(4, 12)
        plan = ["new"] * ninst + ["w"] * nwrites
        rng.shuffle(plan)
        if plan[0] != "new":
            plan.remove("new")
            plan.insert(0, "new")
        for step in plan:
            if step == "new":
                c = rng.choice(tbl)
                pool = ARGS if rng.random() < 0.7 else ARGS_X
                nargs = len(c[1])
                r = rng.random()
                if r < 0.04 and nargs > 1 and live:
                    nargs -= 1            # too few type arguments: the instantiation fails
                elif r < 0.08:
                    nargs += 1            # one too many: ignored
                args = [rng.choice(pool) for _ in range(nargs)]
                var = len(live)
                if nargs >= len(c[1]):
                    ops.append(("new", var, c[0], args))
                    live.append((var, c[0], args))
                else:
                    ops.append(("new", 90, c[0], args))   # fails; $o90 is never used
            else:
                var, cls, args = rng.choice(live)
                c = byn[cls]
                r = rng.random()
                if r < 0.08:
                    p = "zz"              # undeclared member: dynamic property
                else:
                    p = rng.choice(c[2])[0]
                if rng.random() < 0.25:
                    ops.append(("read", var, p))
                else:
                    # an undeclared member has no put_<p> method in the fixture: direct / dynamic-name only
                    pa = rng.choice(PATHS if p != "zz" else ["direct", "dyn"])
                    ops.append(("write", pa, var, p, rng.choice(VALS + [("i", -2), ("s", "k")])))
                    if rng.random() < 0.5:
                        ops.append(("read", var, p))
        # final probe of a few live instances
        rng.shuffle(live)
        ops += probe_all(byn, sorted(live[:2]), rng.randint(0, 2))
        cases.append({"tbl": tbl, "ops": ops, "gen": "seeded"})
    return cases


def member_cases():
    """the two other members that can carry the type parameter: T-typed method parameter and
    constructor-promoted property; every argument type x every value kind"""
    cases = []
    for a in ARGS_X:
        for v in VALS:
            cases.append({"member": "method-param", "arg": a, "val": v,
                          "src": FIXTURE + "class G<T> { public function m(T $x) { return 1; } }\n"
                                 "$g = new G<%s>();\ntry { $g->m(%s); echo \"A\\n\"; } catch (Throwable $e) { echo \"R\\n\"; }\n" % (a, php_val(v))})
            cases.append({"member": "ctor-promoted", "arg": a, "val": v,
                          "src": FIXTURE + "class G<T> { public function __construct(public T $v) {} }\n"
                                 "try { $g = new G<%s>(%s); echo \"A\\n\"; } catch (Throwable $e) { echo \"R\\n\"; }\n" % (a, php_val(v))})
    return cases


def run_impl(binary, srcs):
    inp = "\n".join(json.dumps({"src": s}) for s in srcs) + "\n"
    p = subprocess.run([binary], input=inp, stdout=subprocess.PIPE, stderr=subprocess.PIPE, text=True, timeout=900)
    outs = [json.loads(l) for l in p.stdout.splitlines() if l.strip()]
    return outs, p.returncode, p.stderr


def op_key(o):
    if o[0] == "new":
        return "new"
    if o[0] == "write":
        return "store:%s:%s" % (o[1], o[4][0])
    return "read"


def main(ck):
    rng = ck.rng
    ck.trusted += [
        "isClassValueInstanceOf (class hierarchy) is a parameter `sub` of every definition and theorem; C08 is about it",
        "harness/cmd/c19 (Go: vrun.RunString, fresh VM per history) and checks/C19.py (generators, script and Coq term printers, marker parser)",
        "method dispatch, argument passing into put_<p>($x), echo/tag helper: assumed to deliver values unchanged",
        "not modelled: inheritance from / of generic classes, default values of typed members, static members, compound assignment, the [] store path on objects (no type check for any class: C07), concurrency (the fixed GetProperty only reads the shared declaration)",
    ]
    ck.prove()
    binary, out = ck.go_build("c19")
    if binary is None:
        ck.broken.append("harness-build")
        ck.finish(evaluations=0, distinct_nontrivial=0, rule="harness did not build")

    if ck.replay:
        rp = json.load(open(ck.replay))
        c = rp.get("case") or {}
        cases = [c] if "ops" in c else []
        mcases = [c] if "member" in c else []
        for c in cases:
            c["tbl"] = [tuple(x) for x in c["tbl"]]
            c["ops"] = [tuple(tuple(y) if isinstance(y, list) and i == 4 else y for i, y in enumerate(o)) for o in c["ops"]]
        for c in mcases:
            c["val"] = tuple(c["val"])
    else:
        cases = enumerated(ck.tier) + seeded(rng, 1500 if ck.tier == "quick" else 30000)
        mcases = member_cases()

    srcs = [script(c["tbl"], c["ops"]) for c in cases] + [c["src"] for c in mcases]
    outs, rc, err = run_impl(binary, srcs)
    if len(outs) != len(srcs):
        ck.log("harness returned %d results for %d cases rc=%d\n%s" % (len(outs), len(srcs), rc, err[-2000:]))
        ck.broken.append("harness-run")
        ck.finish(evaluations=len(outs), distinct_nontrivial=0, rule="harness crashed")
    o_h, o_m = outs[:len(cases)], outs[len(cases):]

    terms, idx = [], []
    for i, (c, o) in enumerate(zip(cases, o_h)):
        seen = parse_obs(o["out"]) if o["outcome"] == "ok" else None
        if seen is None:
            ck.violation("impl-error:%s" % o["outcome"], {"case": c, "impl_out": o, "script": srcs[i],
                                                          "clause": "script did not run to completion / unknown marker"})
            continue
        terms.append("(%s, %s, %s)" % (coq_tbl(c["tbl"]), coq_ops(c["ops"]), coq_list(seen)))
        idx.append(i)
    bad = ck.eval_cases("cases", HEADER, terms, "check_case", shard=500)
    for j, cls in sorted(bad.items(), key=lambda kv: len(cases[idx[kv[0]]]["ops"])):
        i = idx[j]
        c, o = cases[i], o_h[i]
        pos_s = next((x - 1000 for x in cls if 1000 <= x < 2000), None)
        pos_m = next((x - 2000 for x in cls if x >= 2000), None)
        pos = pos_s if pos_s is not None else pos_m
        what = op_key(c["ops"][pos]) if pos is not None and pos < len(c["ops"]) else "length"
        rep = {"case": c, "impl_out": o["out"].split("\n"), "script": srcs[i], "first_difference_at_op": pos,
               "op": c["ops"][pos] if pos is not None and pos < len(c["ops"]) else None}
        if 2 in cls:
            rep["clause"] = "own_args_only / history_refines_spec: the implementation differs from the reference semantics"
            ck.violation("history:%s" % what, rep)
        if 1 in cls:
            ck.broken.append("correspondence:C19.history")
            if 2 not in cls:
                rep["clause"] = "model vs implementation (tie)"
                ck.violation("tie:%s" % what, rep)

    mterms = []
    for c, o in zip(mcases, o_m):
        acc = o["out"].strip()
        if o["outcome"] != "ok" or acc not in ("A", "R"):
            ck.violation("impl-error:member", {"case": c, "impl_out": o})
            acc = "A"
        mterms.append("(%s, %s, %s, %s)" % ("MMethodParam" if c["member"] == "method-param" else "MCtorPromoted",
                                            coq_cty(c["arg"]), coq_val(c["val"]), "true" if acc == "A" else "false"))
    mbad = ck.eval_cases("mcases", HEADER, mterms, "check_mcase", shard=500) if mterms else {}
    for j, cls in sorted(mbad.items()):
        c, o = mcases[j], o_m[j]
        if 1 in cls:
            ck.broken.append("correspondence:C19.member")
        if 2 in cls:
            ck.violation("member=%s:%s" % (c["member"], c["val"][0]), {"case": c, "impl_out": o["out"], "clause": "%s_refuted" % c["member"].replace("-", "_")})
        elif 1 in cls:
            ck.violation("tie:member=%s" % c["member"], {"case": c, "impl_out": o["out"], "clause": "model vs implementation (tie)"})

    # ---- coverage (measured)
    distinct = set()
    nontriv = 0
    dist, lens, ninst = {}, {}, {}
    for c in cases:
        key = json.dumps([c["tbl"], c["ops"]], sort_keys=True, default=str)
        if key in distinct:
            continue
        distinct.add(key)
        news = [o for o in c["ops"] if o[0] == "new"]
        argsets = set(tuple(o[3]) for o in news)
        writes = [o for o in c["ops"] if o[0] == "write"]
        if len(argsets) >= 2 and writes:
            nontriv += 1
        for o in c["ops"]:
            dist[op_key(o)] = dist.get(op_key(o), 0) + 1
        b = min(len(c["ops"]) // 20 * 20, 200)
        lens[str(b)] = lens.get(str(b), 0) + 1
        ninst[str(len(news))] = ninst.get(str(len(news)), 0) + 1
    ck.samples = [{"ops": cases[7]["ops"][:6]}, {"ops": cases[-1]["ops"][:8]}] if len(cases) > 8 else []
    ck.cov["op_kind_distribution"] = dist
    ck.cov["history_length_buckets"] = lens
    ck.cov["instantiations_per_history"] = ninst
    ck.cov["generators"] = {g: sum(1 for c in cases if c.get("gen") == g) for g in sorted(set(c.get("gen") for c in cases))}
    ck.cov["member_probes"] = len(mcases)
    ck.finish(level="proof", evaluations=len(cases) + len(mcases), distinct_nontrivial=nontriv,
              rule="histories: every sequence of 1..4 instantiations of Box<T> over {int,string,array,A}, after each `new` "
                   "optionally an immediate store (matching / non-matching value; at length 4 in the quick tier only none/matching), "
                   "then every live instance probed with all 7 value kinds through rotating store paths plus a read; "
                   "seeded histories over 1-3 generic classes with 1-2 parameters, 2-6 instantiations (incl. too few / too many "
                   "arguments) and 4-12 stores/reads; non-trivial = distinct history with at least two different instantiations "
                   "and at least one store; member probes: T-typed method parameter and promoted constructor parameter x 6 argument types x 7 value kinds",
              traces=len(terms) + len(mterms))
