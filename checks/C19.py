"""C19 — a generic instantiation enforces its own type arguments, whatever came before.
Proof: coq/C19 (model of NewClassGenerated.resolveClass / ClassGeneric.Clone+GetProperty /
the three typed-store paths; reference semantics without any shared cell; theorems over ALL
histories).  Tie: histories (instantiations — also through factory functions, so that one `new` node
runs several times, with a promoted constructor parameter, and without type arguments — interleaved with
typed member stores through three paths, calls of methods with typed parameters, and reads) are printed
as scripts and run on the real interpreter in-process (one fresh VM per history); the Coq model and the
Coq spec are evaluated on the same histories by vm_compute and compared with what the script printed.
Concurrently: groups of 3-4 histories are spawned as coroutines on ONE VM (std/spawn.go, shared class
declarations) in a -race build; every history must observe what the model says it observes alone."""
import itertools
import json
import subprocess
import vcheck
from vcheck import coq_string, coq_list, coq_z

HEADER = "From V.C19 Require Import Model Spec Run.\nOpen Scope string_scope.\n"

ARGS = ["int", "string", "array", "A"]          # the property's {int, string, array, a user class}
ARGS_X = ARGS + ["B", "C"]
# value kinds: int, string, array, object of A / B (extends A) / C, null
VALS = [("i", 5), ("s", "sx"), ("a", 4), ("o", "A"), ("o", "B"), ("o", "C"), ("n", None)]
PATHS = ["direct", "method", "dyn"]

USERCLASSES = """class A {}
class B extends A {}
class C {}
"""
FIXTURE = USERCLASSES + """function tag($x) {
  if (is_null($x)) { return "null"; }
  if (is_int($x)) { return "i:" . $x; }
  if (is_string($x)) { return "s:" . $x; }
  if (is_array($x)) { return "a:" . $x[0]; }
  if (is_object($x)) { return "o:" . get_class($x); }
  return "?";
}
function c19_id($x) { return $x; }
"""

# class tables: name -> (params, [(prop, declared type)]) ; declared type: "T"-style parameter name,
# a concrete type, or None (untyped)
# (name, type parameters, [(prop, declared type)], promoted constructor parameter or None).  Every class gets, per
# property p of declared type t, a method put_p($x) { $this->p = $x } and a method chk_p(t $x) (a parameter declared
# with the same type); a class with a promoted parameter q declares q through `__construct(public t $q)` only.
BOX = ("Box", ["T"], [("v", "T"), ("n", "int"), ("u", None)], None)
PAIR = ("Pair", ["K", "V"], [("k", "K"), ("w", "V"), ("k2", "K"), ("s", "string")], None)
CELL = ("Cell", ["E"], [("e", "E"), ("a", "A")], None)
PBOX = ("PBox", ["T"], [("v", "T"), ("n", "int")], "v")
PPAIR = ("PPair", ["K", "V"], [("k", "K"), ("w", "V")], "w")
# members that are NOT public: written only through put_<p>($x) (an untyped parameter, `$this->p = $x` inside the class)
# and read through get_<p>(); the declared type must be enforced all the same
SLOT = ("Slot", ["T"], [("cur", "T"), ("lim", "int"), ("v", "T")], None)
SPAIR = ("SPair", ["K", "V"], [("a", "K"), ("b", "V"), ("w", "V")], None)
# generic classes that have a (non-generic) PARENT class
BBOX = ("BBox", ["T"], [("v", "T"), ("n", "int"), ("u", None)], None)
BPAIR = ("BPair", ["K", "V"], [("k", "K"), ("w", "V")], None)
EXT = {"BBox": "Base0", "BPair": "Base0"}
VIS = {("Slot", "cur"): "private", ("Slot", "lim"): "protected", ("SPair", "a"): "protected", ("SPair", "b"): "private"}


def norm_cls(c):
    c = tuple(c)
    return c if len(c) == 4 else c + (None,)


def matching_value(arg):
    return {"int": ("i", 7), "string": ("s", "m"), "array": ("a", 2), "A": ("o", "B"), "B": ("o", "B"), "C": ("o", "C")}[arg]


def other_value(arg):
    return {"int": ("s", "q"), "string": ("i", 3), "array": ("i", 8), "A": ("o", "C"), "B": ("o", "A"), "C": ("a", 1)}[arg]


# ------------------------------------------------------------------ printers
def php_val(v):
    k, x = v
    if k == "i":
        return str(x)
    if k == "s":
        return '"%s"' % x
    if k == "a":
        return "[%d]" % x
    if k == "o":
        return "new %s()" % x
    return "null"


def class_decls(tbl):
    out = []
    if any(c[0] in EXT for c in tbl):
        out.append("class Base0 { public $b0 = 1; public function hello() { return 1; } }")
    for name, params, props, ctor in tbl:
        out.append("class %s<%s>%s {" % (name, ", ".join(params), (" extends " + EXT[name]) if name in EXT else ""))
        for p, t in props:
            if p == ctor:
                out.append("  public function __construct(public %s$%s) {}" % ((t + " ") if t else "", p))
            else:
                out.append("  %s %s$%s;" % (VIS.get((name, p), "public"), (t + " ") if t else "", p))
        if ctor is None:
            # an untyped constructor argument, so that another instantiation can be created INSIDE the argument list
            out.append("  public $inner;\n  public function __construct($inner = null) { $this->inner = $inner; }")
        for p, t in props:
            out.append("  public function put_%s($x) { $this->%s = $x; return 1; }" % (p, p))
            out.append("  public function get_%s() { return $this->%s; }" % (p, p))
            out.append("  public function cat_%s($x) { $this->%s .= $x; return 1; }" % (p, p))
            out.append("  public function poke_%s($o, $x) { $o->%s = $x; return 1; }" % (p, p))
            out.append("  public function chk_%s(%s$x) { return 1; }" % (p, (t + " ") if t else ""))
            out.append("  public function opt_%s(%s$x = null) { return 1; }" % (p, (t + " ") if t else ""))
        out.append("}")
    return out


def factories(histories):
    """one function per distinct instantiation expression: the same `new` node then runs once per use"""
    fs, out = {}, []
    for ops in histories:
        for o in ops:
            if o[0] in ("new", "newc", "newraw"):
                k = (o[0], o[2], tuple(o[3]) if o[0] != "newraw" else ())
                if k not in fs:
                    fs[k] = len(fs)
                    targs = ("<%s>" % ", ".join(k[2])) if o[0] != "newraw" else ""
                    if o[0] == "newc":
                        out.append("function mk_%d($v) { return new %s%s($v); }" % (fs[k], k[1], targs))
                    else:
                        out.append("function mk_%d() { return new %s%s(); }" % (fs[k], k[1], targs))
    return fs, out


def op_lines(ops, emit, fs):
    """emit(expr) = statement that records the marker expr"""
    out = []
    cls_of = {}
    for o in ops:
        if o[0] in ("new", "newc", "newraw"):
            cls_of[o[1]] = o[2]
        elif o[0] == "nest":
            for v, c_, _ in o[2]:
                cls_of[v] = c_
        elif o[0] == "clone":
            cls_of[o[1]] = cls_of.get(o[2])
    for o in ops:
        if o[0] in ("new", "newc", "newraw"):
            var, cls = o[1], o[2]
            k = (o[0], cls, tuple(o[3]) if o[0] != "newraw" else ())
            arg = php_val(o[4]) if o[0] == "newc" else ""
            if fs is not None:
                ex = "mk_%d(%s)" % (fs[k], arg)
            else:
                ex = "new %s%s(%s)" % (cls, ("<%s>" % ", ".join(o[3])) if o[0] != "newraw" else "", arg)
            # "Y": the error is the one about too few type arguments (an observable of its own), "X": any other
            out.append('try { $o%d = %s; %s } catch (Throwable $e) { %s }' % (
                var, ex, emit('"N"'), emit('(strpos($e->getMessage(), "\u7c7b\u578b\u5b9e\u53c2") !== false ? "Y" : "X")')))
        elif o[0] == "nest":
            # one statement: the outer instantiation's constructor argument contains the next one (depth 1-3), directly,
            # through a function call, or as an array element; `short` = the Box<int>(...) shorthand without `new`
            _, form, items = o
            kw = "" if form == "short" else "new "
            ex = "%s%s<%s>()" % (kw, items[-1][1], ", ".join(items[-1][2]))
            for var, cls, args in reversed(items[:-1]):
                inner = {"direct": ex, "short": ex, "call": "c19_id(%s)" % ex, "array": "[%s]" % ex}[form]
                ex = "%s%s<%s>(%s)" % (kw, cls, ", ".join(args), inner)
            st = "$o%d = %s;" % (items[0][0], ex)
            for (v0, _, _), (v1, _, _) in zip(items, items[1:]):
                st += " $o%d = $o%d->inner%s;" % (v1, v0, "[0]" if form == "array" else "")
            n = len(items)
            out.append('try { %s %s } catch (Throwable $e) { %s }' % (st, " ".join(emit('"N"') for _ in range(n)), " ".join(emit('"X"') for _ in range(n))))
        elif o[0] == "write":
            path, var, p, v = o[1], o[2], o[3], o[4]
            if (cls_of.get(var), p) in VIS and path != "poke":
                path = "method"          # a non-public member: only the class's own method can write it
            if path == "poke":
                # written as `$other->p = $x` by a method running on ANOTHER instance (o[5]) of the same class
                st = "$o%d->poke_%s($o%d, %s);" % (o[5], p, var, php_val(v))
            elif path == "direct":
                st = "$o%d->%s = %s;" % (var, p, php_val(v))
            elif path == "method":
                st = "$o%d->put_%s(%s);" % (var, p, php_val(v))
            else:
                st = '$nm = "%s"; $o%d->{$nm} = %s;' % (p, var, php_val(v))
            out.append('try { %s %s } catch (Throwable $e) { %s }' % (st, emit('"A"'), emit('"R"')))
        elif o[0] == "clone":
            # $oN = clone $oS; then what every declared member of the clone holds ("A" first when it is not null)
            _, var, src = o
            out.append('try { $o%d = clone $o%d; %s } catch (Throwable $e) { %s }' % (var, src, emit('"N"'), emit('"X"')))
            for pn in clone_members(cls_of[var]):
                rd = "$o%d->get_%s()" % (var, pn) if (cls_of[var], pn) in VIS else "$o%d->%s" % (var, pn)
                out.append('try { $cv = %s; if (!is_null($cv)) { %s } %s } catch (Throwable $e) { %s }' % (rd, emit('"A"'), emit("tag($cv)"), emit('"T"')))
        elif o[0] == "concat":
            # `.=` on a declared member: first what it holds now (a read), then the compound assignment
            _, path, var, p, v = o
            nonpub = (cls_of.get(var), p) in VIS
            rd = "$o%d->get_%s()" % (var, p) if nonpub else "$o%d->%s" % (var, p)
            out.append('try { %s } catch (Throwable $e) { %s }' % (emit("tag(%s)" % rd), emit('"T"')))
            st = "$o%d->cat_%s(%s);" % (var, p, php_val(v)) if (path == "method" or nonpub) else "$o%d->%s .= %s;" % (var, p, php_val(v))
            out.append('try { %s %s } catch (Throwable $e) { %s }' % (st, emit('"A"'), emit('"R"')))
        elif o[0] == "callopt":
            _, var, p, v = o
            out.append('try { $o%d->opt_%s(%s); %s } catch (Throwable $e) { %s }' % (var, p, php_val(v), emit('"A"'), emit('"R"')))
        elif o[0] == "callnamed":
            # the argument given BY NAME
            _, var, p, v = o
            out.append('try { $o%d->chk_%s(x: %s); %s } catch (Throwable $e) { %s }' % (var, p, php_val(v), emit('"A"'), emit('"R"')))
        elif o[0] == "call":
            _, var, p, v = o
            out.append('try { $o%d->chk_%s(%s); %s } catch (Throwable $e) { %s }' % (var, p, php_val(v), emit('"A"'), emit('"R"')))
        else:
            _, var, p = o
            rd = "$o%d->get_%s()" % (var, p) if (cls_of.get(var), p) in VIS else "$o%d->%s" % (var, p)
            out.append('try { %s } catch (Throwable $e) { %s }' % (emit("tag(%s)" % rd), emit('"T"')))
    return out


def script(tbl, ops, factory=False, ns=False, late=False):
    """ns: the whole script lives in `namespace App;` (the generic classes, A/B/C and the code);
    late (with factory): the classes A, B, C that serve as type ARGUMENTS are declared textually AFTER the functions that
    contain the `new G<A>()` expressions (they exist by the time those functions run)"""
    fs, fl = (factories([ops]) if factory else (None, []))
    if late and factory:
        out = [FIXTURE[len(USERCLASSES):]] + class_decls(tbl) + fl + [USERCLASSES]
    else:
        out = [FIXTURE] + class_decls(tbl) + fl
    out += op_lines(ops, lambda e: 'echo %s, "\n";' % e, fs)
    src = "\n".join(out) + "\n"
    if ns:
        src = "namespace App;\n" + src.replace("catch (Throwable ", "catch (\\Throwable ")
    return src


def script_conc(tbl, hists, factory=True):
    """every history is a coroutine on the same VM (same class declarations, same `new` nodes when factory):
    it waits for the start signal, runs its operations collecting the markers in a string, and hands the string to
    the main coroutine, which prints them history by history"""
    out = [FIXTURE] + class_decls(tbl)
    fs = None
    if factory:
        fs, fl = factories(hists)
        out += fl
    n = len(hists)
    out.append("$start = new Channel(%d);\n$done = new Channel(%d);" % (n, n))
    for k, ops in enumerate(hists):
        out.append("spawn(function() use ($start, $done) {\n  $start->receive();\n  $r = \"\";")
        out += ["  " + l for l in op_lines(ops, lambda e: '$r .= %s . "\n";' % e, fs)]
        out.append('  $done->send("H%d\n" . $r);\n});' % k)
    out.append("$i = 0; while ($i < %d) { $start->send(1); $i++; }" % n)
    out.append('$i = 0; while ($i < %d) { echo $done->receive(), "E\n"; $i++; }' % n)
    return "\n".join(out) + "\n"


def coq_cty(a):
    return {"int": "CInt", "string": "CString", "array": "CArray"}.get(a) or '(CClass "%s")' % a


def coq_val(v):
    k, x = v
    if k == "i":
        return "(VInt %s)" % coq_z(x)
    if k == "s":
        return "(VStr %s)" % coq_string(x)
    if k == "a":
        return "(VArr %s)" % coq_z(x)
    if k == "o":
        return "(VObj %s)" % coq_string(x)
    return "VNull"


def coq_tbl(tbl):
    items = []
    for name, params, props, ctor in tbl:
        ps, ms, ct = [], [], "None"
        for p, t in props:
            if t is None:
                d = "None"
            elif t in params:
                d = '(Some (DGen "%s"))' % t
            else:
                d = "(Some (DConc %s))" % coq_cty(t)
            ps.append('("%s", %s)' % (p, d))
            ms.append('("chk_%s", %s)' % (p, d))
            ms.append('("opt_%s", %s)' % (p, d))          # the same parameter with a `= null` default
            if p == ctor:
                ct = '(Some ("%s", %s))' % (p, d)
        items.append('("%s", {| g_params := %s; g_props := %s; g_meths := %s; g_ctor := %s |})' % (
            name, coq_list('"%s"' % x for x in params), coq_list(ps), coq_list(ms), ct))
    return coq_list(items)


def obs_lines(out):
    return [l for l in out.split("\n") if l != ""]


def coq_ops(ops, lines=None):
    """lines = the markers the script printed (needed for `.=`: the value stored is the string made of what the member
    held — the read just before it, itself compared with the model — and the right-hand side)"""
    res = []
    k = 0
    inst = {}
    for o in ops:
        if o[0] in ("new", "newc"):
            inst[o[1]] = (o[2], o[3])
        elif o[0] == "newraw":
            inst[o[1]] = (o[2], None)
        elif o[0] == "nest":
            for v_, c_, a_ in o[2]:
                inst[v_] = (c_, a_)
        if o[0] == "clone":
            # a clone = an instantiation with the SAME arguments, holding what the original held: the values the script
            # printed for the clone's members are stored into it (each store is checked by the model as any other)
            cls_, args_ = inst.get(o[2], (None, None))
            inst[o[1]] = (cls_, args_)
            res.append(('ONewRaw "%s"' % cls_) if args_ is None else ('ONew "%s" %s' % (cls_, coq_list(coq_cty(a) for a in args_))))
            k += 1
            for pn in clone_members(cls_):
                ln = lines[k] if lines is not None and k < len(lines) else "null"
                if ln == "A":
                    vl = lines[k + 1] if k + 1 < len(lines) else "null"
                    kind, body = vl[:1], vl[2:]
                    val = ("i", int(body)) if kind == "i" and body.lstrip("-").isdigit() else ("a", int(body)) if kind == "a" and body.lstrip("-").isdigit() else \
                          ("o", body.split("\\")[-1]) if kind == "o" else ("s", body)
                    res.append('OWrite PMethod %d%%nat "%s" %s' % (o[1], pn, coq_val(val)))
                    k += 1
                res.append('ORead %d%%nat "%s"' % (o[1], pn))
                k += 1
            continue
        k0 = k
        k += len(o[2]) if o[0] == "nest" else 2 if o[0] == "concat" else 1
        if o[0] == "concat":
            old = lines[k0] if lines is not None and k0 < len(lines) else "null"
            olds = "" if old == "null" else old[2:] if old[:2] in ("i:", "s:") else "?"
            new = olds + (str(o[4][1]) if o[4][0] in ("i", "s") else "?")
            res.append('ORead %d%%nat "%s"' % (o[2], o[3]))
            res.append('OWrite %s %d%%nat "%s" (VStr %s)' % ("PMethod" if o[1] == "method" else "PDirect", o[2], o[3], coq_string(new)))
            continue
        if o[0] == "new":
            res.append('ONew "%s" %s' % (o[2], coq_list(coq_cty(a) for a in o[3])))
        elif o[0] == "write":
            pa = {"direct": "PDirect", "method": "PMethod", "dyn": "PDyn", "poke": "PMethod"}[o[1]]
            res.append('OWrite %s %d%%nat "%s" %s' % (pa, o[2], o[3], coq_val(o[4])))
        elif o[0] == "call":
            res.append('OCall %d%%nat "chk_%s" %s' % (o[1], o[2], coq_val(o[3])))
        elif o[0] == "callopt":
            res.append('OCall %d%%nat "opt_%s" %s' % (o[1], o[2], coq_val(o[3])))
        elif o[0] == "callnamed":
            res.append('OCall %d%%nat "chk_%s" %s' % (o[1], o[2], coq_val(o[3])))
        elif o[0] == "newc":
            res.append('ONewC "%s" %s %s' % (o[2], coq_list(coq_cty(a) for a in o[3]), coq_val(o[4])))
        elif o[0] == "newraw":
            res.append('ONewRaw "%s"' % o[2])
        elif o[0] == "nest":
            # created innermost first; each is an ordinary instantiation with its OWN type arguments
            for var, cls, args in sorted(o[2], key=lambda it: it[0]):
                res.append('ONew "%s" %s' % (cls, coq_list(coq_cty(a) for a in args)))
        else:
            res.append('ORead %d%%nat "%s"' % (o[1], o[2]))
    return coq_list(res)


def parse_obs(out):
    """script stdout -> list of Coq obs terms, or None when a line is not a marker"""
    res = []
    for line in out.split("\n"):
        if line == "":
            continue
        if line == "N":
            res.append("Created")
        elif line == "X":
            res.append("NewFailed")
        elif line == "Y":
            res.append("NewArity")
        elif line == "A":
            res.append("Accepted")
        elif line == "R":
            res.append("Rejected")
        elif line == "null":
            res.append("Got VNull")
        elif line.startswith("i:") and line[2:].lstrip("-").isdigit():
            res.append("Got (VInt %s)" % coq_z(int(line[2:])))
        elif line.startswith("s:"):
            res.append("Got (VStr %s)" % coq_string(line[2:]))
        elif line.startswith("a:") and line[2:].lstrip("-").isdigit():
            res.append("Got (VArr %s)" % coq_z(int(line[2:])))
        elif line.startswith("o:"):
            res.append("Got (VObj %s)" % coq_string(line[2:].split("\\")[-1]))      # App\A -> A (namespaced scripts)
        else:
            return None
    return res


# ------------------------------------------------------------------ generators
def props_typed_by_param(cls):
    return [p for p, t in cls[2] if t in cls[1]]


def probe_all(tbl_by_name, live, rot, calls=True, extras=None):
    extras = calls if extras is None else extras
    """stores of every value kind into every parameter-typed member of every live instance
    (paths rotate), each followed by a read"""
    ops = []
    k = rot
    for var, cls, args in live:
        c = tbl_by_name[cls]
        for p in props_typed_by_param(c):
            for v in VALS:
                ops.append(("write", PATHS[k % 3], var, p, v))
                k += 1
            ops.append(("read", var, p))
            if extras:
                # `.=` with a string and an int on the member as it stands (a string results: only a string member takes it)
                if args:
                    ops.append(("concat", "direct" if k % 2 else "method", var, p, ("s", "c")))
                    ops.append(("concat", "method" if k % 2 else "direct", var, p, ("i", 1)))
                    ops.append(("read", var, p))
                # written from a method running on ANOTHER live instance of the same class
                others = [w for w, wc, wa in live if wc == cls and w != var]
                if others:
                    wsel = others[k % len(others)]
                    for v in (VALS[k % 7], VALS[(k + 3) % 7], matching_value(args[0]) if args and args[0] in ARGS_X else VALS[1]):
                        ops.append(("write", "poke", var, p, v, wsel))
                    ops.append(("read", var, p))
            if extras:
                # the same typed parameter declared with a `= null` default
                for v in (VALS[k % 6], VALS[(k + 2) % 6], VALS[(k + 4) % 6]):
                    ops.append(("callopt", var, p, v))
                # ... and the plain typed parameter given by NAME
                for v in (VALS[(k + 1) % 6], VALS[(k + 3) % 6], VALS[(k + 5) % 6]):
                    ops.append(("callnamed", var, p, v))
            for v in (VALS if calls else []):
                if v[0] != "n":           # null into a typed parameter is the recorded finding: probed separately
                    ops.append(("call", var, p, v))
    return ops


def enumerated(tier):
    """all instantiation sequences of Box<T> up to length 3 (quick) with, after each `new`, one of
    {nothing, a store of a value of the argument's type, a store of a value of another type} into
    the new instance's T-typed member; length 4 with {nothing, matching store}; then every live
    instance is probed with every value kind.  Thorough: three choices at length 4 as well."""
    tbl = [BOX]
    byn = {c[0]: c for c in tbl}
    cases = []
    def build(events):
        ops, live = [], []
        for j, (arg, w) in enumerate(events):
            ops.append(("new", j, "Box", [arg]))
            live.append((j, "Box", [arg]))
            if w == 1:
                ops.append(("write", PATHS[j % 3], j, "v", matching_value(arg)))
            elif w == 2:
                ops.append(("write", PATHS[(j + 1) % 3], j, "v", other_value(arg)))
        # quick tier: the 4096 histories of length 4 are probed with stores only (calls: lengths 1-3, enumc, seeded)
        ops += probe_all(byn, live, len(events), calls=(tier != "quick" or len(events) < 4), extras=(len(events) <= 2 or (tier != "quick" and len(events) == 3)))
        return {"tbl": tbl, "ops": ops, "gen": "enum%d" % len(events)}
    for n in (1, 2, 3):
        for ev in itertools.product([(a, w) for a in ARGS for w in (0, 1, 2)], repeat=n):
            cases.append(build(ev))
    ws = (0, 1, 2) if tier != "quick" else (0, 1)
    for k, ev in enumerate(itertools.product([(a, w) for a in ARGS for w in ws], repeat=4)):
        if tier == "quick" and k % 2 == 1:
            continue        # quick tier: every second of the 4096 length-4 sequences (all of them in the thorough tier)
        cases.append(build(ev))
    return cases


def enumerated_c(tier, rng):
    """sequences of 1..3 creation events over Box<T> / PBox<T> (promoted constructor parameter): for each argument
    type {new Box<a> followed by a call chk_v(matching) | the same with a non-matching value | new PBox<a>(matching) |
    new PBox<a>(non-matching): fails} and a raw `new Box()`; then every live instance is probed (stores of all 7 value
    kinds, a read, calls with the 6 non-null kinds).  Every second history creates through factory functions.
    quick: all of length 1-2, 700 sampled of length 3; thorough: all."""
    tbl = [BOX, PBOX]
    byn = {c[0]: c for c in tbl}
    evs = [(k, a) for a in ARGS for k in ("box-ok", "box-bad", "pbox-ok", "pbox-bad")] + [("raw", None)]
    seqs = [ev for n in (1, 2) for ev in itertools.product(evs, repeat=n)]
    l3 = list(itertools.product(evs, repeat=3))
    seqs += l3 if tier != "quick" else rng.sample(l3, 700)
    cases = []
    for ci, ev in enumerate(seqs):
        ops, live = [], []
        for k, a in ev:
            var = len(live)
            if k == "raw":
                ops.append(("newraw", var, "Box", []))
                live.append((var, "Box", []))
            elif k.startswith("box"):
                ops.append(("new", var, "Box", [a]))
                live.append((var, "Box", [a]))
                ops.append(("call", var, "v", matching_value(a) if k == "box-ok" else other_value(a)))
            elif k == "pbox-ok":
                ops.append(("newc", var, "PBox", [a], matching_value(a)))
                live.append((var, "PBox", [a]))
            else:
                ops.append(("newc", 90, "PBox", [a], other_value(a)))
        ops += probe_all(byn, live, len(ev))
        cases.append({"tbl": tbl, "ops": ops, "gen": "enumc%d" % len(ev), "factory": ci % 2 == 1, "ns": ci % 4 >= 2, "late": ci % 4 == 1})
    return cases


NEST_FORMS = ["direct", "call", "array", "short"]


def enumerated_nest(tier, rng):
    """an instantiation whose constructor ARGUMENTS contain another generic instantiation with other type arguments:
    Box<a>(Box<b>) for all a != b x 4 forms (direct / through a function call / as an array element / shorthand without
    `new`); depth 2 and 3 chains and Pair<K,V>(Pair<K',V'>) / mixed Box-Pair chains sampled; every instance, outer first,
    is then probed with all value kinds (stores, read, calls)."""
    tbl = [BOX, PAIR]
    byn = {c[0]: c for c in tbl}
    chains = []
    for a in ARGS:
        for b in ARGS:
            if a != b:
                chains.append([("Box", [a]), ("Box", [b])])
    def rnd_inst():
        return ("Box", [rng.choice(ARGS)]) if rng.random() < 0.5 else ("Pair", [rng.choice(ARGS), rng.choice(ARGS_X)])
    for _ in range(60 if tier == "quick" else 200):
        chains.append([rnd_inst() for _ in range(rng.randint(2, 4))])
    chains.append([("Pair", ["int", "string"]), ("Pair", ["array", "A"])])
    chains.append([("Box", ["A"]), ("Box", ["int"])])
    cases = []
    for ci, ch in enumerate(chains):
        for form in NEST_FORMS:
            if form == "short" and any(len(a) != 1 for _, a in ch):
                continue        # the shorthand Name<X>(...) exists for exactly one type argument (ident_parser.go)
            n = len(ch)
            # the model creates the innermost first: it gets the lowest index
            items = [(n - 1 - k, cls, args) for k, (cls, args) in enumerate(ch)]
            ops = [("nest", form, items)]
            live = sorted((v, cls, args) for v, cls, args in items)
            live.sort(key=lambda t: -t[0])      # probe the OUTER object first
            ops += probe_all(byn, live, ci)
            cases.append({"tbl": tbl, "ops": ops, "gen": "nest%d" % (n - 1)})
    return cases


def enumerated_slot():
    """Slot<T> (private T $cur, protected int $lim, public T $v) and SPair<K,V>: every ordered pair of instantiations over
    the four argument types, then every live instance probed (stores go through put_<p>($x), reads through get_<p>())"""
    cases = []
    tbl = [SLOT, SPAIR]
    byn = {c[0]: c for c in tbl}
    for a in ARGS:
        for b in ARGS:
            ops = [("new", 0, "Slot", [a]), ("new", 1, "Slot", [b]), ("new", 2, "SPair", [b, a])]
            live = [(0, "Slot", [a]), (1, "Slot", [b]), (2, "SPair", [b, a])]
            ops += probe_all(byn, live, len(cases))
            cases.append({"tbl": tbl, "ops": ops, "gen": "slot", "factory": len(cases) % 2 == 1})
    return cases


def enumerated_pairperm():
    """Pair<a,b> and Pair<b,a> — the same type arguments in the other order — in both creation orders, for every a != b;
    every member of both instances probed"""
    cases = []
    tbl = [PAIR]
    byn = {"Pair": PAIR}
    for a in ARGS:
        for b in ARGS:
            if a == b:
                continue
            ops = [("new", 0, "Pair", [a, b]), ("new", 1, "Pair", [b, a])]
            live = [(1, "Pair", [b, a]), (0, "Pair", [a, b])]
            ops += probe_all(byn, live, len(cases))
            cases.append({"tbl": tbl, "ops": ops, "gen": "pairperm", "factory": len(cases) % 2 == 1})
    return cases


def enumerated_parent():
    """BBox<T> / BPair<K,V> extend a plain class Base0: every ordered pair of instantiations over the four argument types
    plus one BPair, all members probed; every second history in a namespace, every second through factories"""
    cases = []
    tbl = [BBOX, BPAIR]
    byn = {c[0]: c for c in tbl}
    for a in ARGS:
        for b in ARGS:
            ops = [("new", 0, "BBox", [a]), ("new", 1, "BBox", [b]), ("new", 2, "BPair", [b, a])]
            live = [(0, "BBox", [a]), (1, "BBox", [b]), (2, "BPair", [b, a])]
            ops += probe_all(byn, live, len(cases))
            cases.append({"tbl": tbl, "ops": ops, "gen": "parent", "factory": len(cases) % 2 == 1, "ns": len(cases) % 4 >= 2, "late": len(cases) % 4 == 1})
    return cases


def seeded_ops(rng, tbl, nulls=False):
    byn = {c[0]: c for c in tbl}
    ops, live = [], []
    ninst = rng.randint(2, 6)
    nwrites = rng.randint(4, 12)
    plan = ["new"] * ninst + ["w"] * nwrites
    rng.shuffle(plan)
    if plan[0] != "new":
        plan.remove("new")
        plan.insert(0, "new")
    for step in plan:
        if step == "new":
            c = rng.choice(tbl)
            pool = ARGS if rng.random() < 0.7 else ARGS_X
            nargs = len(c[1])
            r = rng.random()
            if r < 0.04 and nargs > 1 and live:
                nargs -= 1            # too few type arguments: the instantiation fails
            elif r < 0.08:
                nargs += 1            # one too many: ignored
            args = [rng.choice(pool) for _ in range(nargs)]
            var = len(live)
            if c[3] is not None:
                # promoted constructor parameter: its declared type under these arguments decides
                t = dict(c[2])[c[3]]
                ta = args[c[1].index(t)] if t in c[1] and c[1].index(t) < len(args) else None
                r2 = rng.random()
                if ta is None:
                    v, okc = ("i", 1), False         # too few type arguments: fails whatever the value
                elif nulls and r2 < 0.15:
                    v, okc = ("n", None), True       # the code accepts null (recorded finding), the reference does not
                elif r2 < 0.6:
                    v, okc = matching_value(ta), True
                else:
                    v, okc = other_value(ta), False
                if nargs >= len(c[1]) and okc:
                    ops.append(("newc", var, c[0], args, v))
                    live.append((var, c[0], args))
                else:
                    ops.append(("newc", 90, c[0], args, v))
            elif r >= 0.24 and r < 0.32 and live:
                sv, sc, sa = rng.choice(live)
                if sa:                                   # clone of a live instance with type arguments
                    ops.append(("clone", var, sv))
                    live.append((var, sc, sa))
                else:
                    ops.append(("newraw", var, c[0], []))
                    live.append((var, c[0], []))
            elif r >= 0.08 and r < 0.14:
                ops.append(("newraw", var, c[0], []))    # no type arguments at all
                live.append((var, c[0], []))
            elif r >= 0.14 and r < 0.24 and nargs >= len(c[1]):
                # nested: this instantiation's constructor argument contains 1-2 further instantiations
                plain = [x for x in tbl if x[3] is None]
                chain = [(c[0], args)]
                for _ in range(rng.randint(1, 2)):
                    ic = rng.choice(plain)
                    chain.append((ic[0], [rng.choice(ARGS_X) for _ in ic[1]]))
                n = len(chain)
                items = [(var + n - 1 - k, cls, a) for k, (cls, a) in enumerate(chain)]
                ops.append(("nest", rng.choice(NEST_FORMS if all(len(a) == 1 for _, a in chain) else NEST_FORMS[:3]), items))
                live += sorted((v, cls, a) for v, cls, a in items)
            elif nargs >= len(c[1]):
                ops.append(("new", var, c[0], args))
                live.append((var, c[0], args))
            else:
                ops.append(("new", 90, c[0], args))   # fails; $o90 is never used
        else:
            if not live:
                continue
            var, cls, args = rng.choice(live)
            c = byn[cls]
            r = rng.random()
            if r < 0.08:
                p = "zz"              # undeclared member: dynamic property
            else:
                p = rng.choice(c[2])[0]
            r = rng.random()
            if r < 0.2:
                ops.append(("read", var, p))
            elif r < 0.45 and p != "zz":
                vs = VALS + [("i", -2), ("s", "k")]
                if not nulls:
                    vs = [v for v in vs if v[0] != "n"]
                ops.append(("call", var, p, rng.choice(vs)))
            else:
                # an undeclared member has no put_<p> method in the fixture: direct / dynamic-name only
                pa = rng.choice(PATHS if p != "zz" else ["direct", "dyn"])
                ops.append(("write", pa, var, p, rng.choice(VALS + [("i", -2), ("s", "k")])))
                if rng.random() < 0.5:
                    ops.append(("read", var, p))
    # final probe of a few live instances
    rng.shuffle(live)
    ops += probe_all(byn, sorted(live[:2]), rng.randint(0, 2))
    return ops


TABLES = [[BOX, PAIR], [PAIR], [BOX, CELL], [PAIR, CELL, BOX], [BOX, PBOX], [PBOX, PPAIR, PAIR], [PPAIR, BOX], [SLOT, BOX], [SPAIR, SLOT, PAIR],
          [BBOX, BOX], [BPAIR, BBOX, PBOX]]


ALLCLS = {c[0]: c for c in (BOX, PAIR, CELL, PBOX, PPAIR, SLOT, SPAIR, BBOX, BPAIR)}


def clone_members(cls):
    """what a clone takes over from the original, as far as the histories can see it: every declared member and the
    dynamic property `zz` (the one undeclared name the generators store into)"""
    return [pn for pn, _t in ALLCLS[cls][2]] + ["zz"]


def enumerated_clone():
    """`clone` of live generic instances: Box<a> (holding a value) and Box<b> are cloned; the clones, then the originals,
    are probed: a clone is an instance with the SAME type arguments"""
    cases = []
    tbl = [BOX, PAIR]
    byn = {c[0]: c for c in tbl}
    for a in ARGS:
        for b in ARGS:
            if a == b:
                continue
            ops = [("new", 0, "Box", [a]), ("new", 1, "Box", [b]), ("write", "direct", 0, "v", matching_value(a)), ("new", 2, "Pair", [a, b]),
                   ("clone", 3, 0), ("clone", 4, 1), ("clone", 5, 2)]
            live = [(3, "Box", [a]), (4, "Box", [b]), (5, "Pair", [a, b]), (0, "Box", [a]), (1, "Box", [b])]
            ops += probe_all(byn, live, len(cases))
            cases.append({"tbl": tbl, "ops": ops, "gen": "clone", "factory": len(cases) % 2 == 1, "ns": len(cases) % 4 == 2})
    return cases


def seeded(rng, n):
    cases = []
    for k in range(n):
        tbl = rng.choice(TABLES)
        nulls = rng.random() < 0.04
        late_ok = all(t in (None, "int", "string", "array") or t in c[1] for c in tbl for _, t in c[2])
        cases.append({"tbl": tbl, "ops": seeded_ops(rng, tbl, nulls), "gen": "seeded-null" if nulls else "seeded",
                      "factory": k % 2 == 1, "ns": k % 4 == 2 or k % 8 == 3, "late": k % 4 == 1 and late_ok})
    return cases


def conc_groups(rng, n):
    """3-4 seeded histories over one class table, to be run as coroutines of one VM"""
    groups = []
    for k in range(n):
        tbl = rng.choice(TABLES[3:])
        groups.append({"tbl": tbl, "hists": [seeded_ops(rng, tbl) for _ in range(rng.randint(3, 4))], "factory": k % 3 != 2})
    return groups


def member_cases():
    """the two other members that can carry the type parameter: T-typed method parameter and
    constructor-promoted property; every argument type x every value kind"""
    cases = []
    for a in ARGS_X:
        for v in VALS:
            cases.append({"member": "method-param", "arg": a, "val": v,
                          "src": FIXTURE + "class G<T> { public function m(T $x) { return 1; } }\n"
                                 "$g = new G<%s>();\ntry { $g->m(%s); echo \"A\\n\"; } catch (Throwable $e) { echo \"R\\n\"; }\n" % (a, php_val(v))})
            cases.append({"member": "ctor-promoted", "arg": a, "val": v,
                          "src": FIXTURE + "class G<T> { public function __construct(public T $v) {} }\n"
                                 "try { $g = new G<%s>(%s); echo \"A\\n\"; } catch (Throwable $e) { echo \"R\\n\"; }\n" % (a, php_val(v))})
    return cases


def run_impl(binary, srcs, workers=6):
    """the histories are independent (fresh VM each): split over several harness processes"""
    from concurrent.futures import ThreadPoolExecutor
    n = max(1, min(workers, len(srcs) // 200 + 1))
    step = (len(srcs) + n - 1) // n if srcs else 1
    chunks = [srcs[i:i + step] for i in range(0, len(srcs), step)]
    def one(chunk):
        inp = "\n".join(json.dumps({"src": s}) for s in chunk) + "\n"
        p = subprocess.run([binary], input=inp, stdout=subprocess.PIPE, stderr=subprocess.PIPE, text=True, timeout=900)
        return [json.loads(l) for l in p.stdout.splitlines() if l.strip()], p.returncode, p.stderr
    outs, rc, err = [], 0, ""
    with ThreadPoolExecutor(max_workers=n) as ex:
        for chunk, (o, r, e) in zip(chunks, ex.map(one, chunks)):
            if len(o) != len(chunk):
                return outs + o, r or 1, e
            outs += o
            rc, err = rc or r, err + e
    return outs, rc, err


def op_key(o):
    if o[0] in ("new", "newraw"):
        return o[0]
    if o[0] == "nest":
        return "nest:%s:%d" % (o[1], len(o[2]))
    if o[0] == "concat":
        return "concat:%s:%s" % (o[1], o[4][0])
    if o[0] == "clone":
        return "clone"
    if o[0] == "newc":
        return "newc:%s" % o[4][0]
    if o[0] == "write":
        return "store:%s:%s" % (o[1], o[4][0])
    if o[0] == "call":
        return "call:%s" % o[3][0]
    if o[0] == "callopt":
        return "call-default-null:%s" % o[3][0]
    if o[0] == "callnamed":
        return "call-named:%s" % o[3][0]
    return "read"


def op_at(ops, pos, lines=None):
    """the generated operation that produced observation number pos (a nest op produces one per instance, `.=` two,
    a clone one plus one or two per declared member)"""
    k = 0
    cls_of = {}
    for o in ops:
        if o[0] in ("new", "newc", "newraw"):
            cls_of[o[1]] = o[2]
        elif o[0] == "nest":
            for v_, c_, _ in o[2]:
                cls_of[v_] = c_
        if o[0] == "clone":
            cls_of[o[1]] = cls_of.get(o[2])
            k += 1
            for _ in clone_members(cls_of[o[1]]):
                k += 2 if (lines is not None and k < len(lines) and lines[k] == "A") else 1
        else:
            k += len(o[2]) if o[0] == "nest" else 2 if o[0] == "concat" else 1
        if pos is not None and pos < k:
            return o
    return None


def norm_op(o):
    """JSON round trip: value pairs back to tuples"""
    o = list(o)
    vi = {"write": 4, "newc": 4, "call": 3, "callopt": 3, "callnamed": 3, "concat": 4}.get(o[0])
    if vi is not None:
        o[vi] = tuple(o[vi])
    return tuple(o)


def split_conc(out, n):
    """stdout of a concurrent script -> per-history marker text (None when malformed)"""
    res = [None] * n
    for blk in out.split("E\n"):
        if not blk.strip():
            continue
        head, _, body = blk.partition("\n")
        if not (head.startswith("H") and head[1:].isdigit()) or int(head[1:]) >= n or res[int(head[1:])] is not None:
            return None
        res[int(head[1:])] = body
    return res if all(r is not None for r in res) else None


def main(ck):
    rng = ck.rng
    ck.trusted += [
        "isClassValueInstanceOf (class hierarchy) is a parameter `sub` of every definition and theorem; C08 is about it",
        "harness/cmd/c19 (Go: vrun.RunString / RunStringSpawn, fresh VM per history or per concurrent group; race reports parsed from the child's stderr) and checks/C19.py (generators, script and Coq term printers, marker parser)",
        "method dispatch, argument passing into put_<p>($x), echo/tag helper, string concatenation and Channel send/receive of the marker string (concurrent groups): assumed to deliver values unchanged",
        "concurrency: the theorems quantify over all histories, and every interleaving of operations is a history; interleavings INSIDE one operation are not modelled — for them the evidence is the spawn-based runs under the race detector only",
        "decl_unchanged is a theorem about the model's get_property; that the Go GetProperty / SetValue paths leave the shared declaration alone is what the tie tests (a mutation that writes it is caught by the tie, see DESIGN)",
        "not modelled: inheritance from / of generic classes, default values of typed members, static members and static methods with T-typed parameters, compound assignments other than `.=`, the [] store path on objects (no type check for any class: C07), a class with a promoted constructor parameter created without its argument",
    ]
    ck.prove()
    binary, out = ck.go_build("c19")
    if binary is None:
        ck.broken.append("harness-build")
        ck.finish(evaluations=0, distinct_nontrivial=0, rule="harness did not build")

    groups = []
    if ck.replay:
        rp = json.load(open(ck.replay))
        c = rp.get("case") or {}
        cases = [c] if "ops" in c else []
        mcases = [c] if "member" in c else []
        groups = [c] if "hists" in c else []
        for c in cases:
            c["tbl"] = [norm_cls(x) for x in c["tbl"]]
            c["ops"] = [norm_op(o) for o in c["ops"]]
        for c in groups:
            c["tbl"] = [norm_cls(x) for x in c["tbl"]]
            c["hists"] = [[norm_op(o) for o in h] for h in c["hists"]]
        for c in mcases:
            c["val"] = tuple(c["val"])
    else:
        cases = enumerated(ck.tier) + enumerated_c(ck.tier, rng) + enumerated_nest(ck.tier, rng) + enumerated_slot() + enumerated_parent() + enumerated_pairperm() + enumerated_clone() + seeded(rng, 900 if ck.tier == "quick" else 2500)
        mcases = member_cases()
        groups = conc_groups(rng, 30 if ck.tier == "quick" else 120)

    srcs = [script(c["tbl"], c["ops"], c.get("factory", False), c.get("ns", False), c.get("late", False)) for c in cases] + [c["src"] for c in mcases]
    outs, rc, err = run_impl(binary, srcs)
    if len(outs) != len(srcs):
        ck.log("harness returned %d results for %d cases rc=%d\n%s" % (len(outs), len(srcs), rc, err[-2000:]))
        ck.broken.append("harness-run")
        ck.finish(evaluations=len(outs), distinct_nontrivial=0, rule="harness crashed")
    o_h, o_m = outs[:len(cases)], outs[len(cases):]

    # ---- concurrently: every group three times (different schedules) on the -race build, in a child process
    REPS = 3
    races, conc_units = {}, 0
    if groups:
        racebin, out2 = ck.go_build("c19", race=True)
        if racebin is None:
            ck.broken.append("harness-build-race")
            ck.finish(evaluations=0, distinct_nontrivial=0, rule="-race harness did not build")
        gsrcs = [script_conc(g["tbl"], g["hists"], g.get("factory", True)) for g in groups]
        inp = "".join(json.dumps({"src": s_, "spawn": True}) + "\n" for s_ in gsrcs for _ in range(REPS))
        pr = subprocess.run([racebin, "conc"], input=inp, stdout=subprocess.PIPE, stderr=subprocess.PIPE, text=True, timeout=1500)
        gl = [json.loads(l) for l in pr.stdout.splitlines() if l.strip()]
        tail = gl[-1] if gl and "races" in gl[-1] else None
        gouts = [x for x in gl if "outcome" in x]
        if tail is None or len(gouts) != len(gsrcs) * REPS:
            ck.log("concurrent run: %d results for %d scripts rc=%d\n%s" % (len(gouts), len(gsrcs) * REPS, pr.returncode, pr.stderr[-2000:]))
            ck.broken.append("harness-run:conc")
            if tail and tail.get("fatal"):
                ck.violation("conc:fatal", {"impl_out": tail, "clause": "the interpreter died while histories ran concurrently"})
        else:
            races = tail.get("races") or {}
            for gi, g in enumerate(groups):
                for r in range(REPS):
                    o = gouts[gi * REPS + r]
                    parts = split_conc(o["out"], len(g["hists"])) if o["outcome"] == "ok" else None
                    if parts is None:
                        ck.violation("impl-error:conc:%s" % o["outcome"], {"case": g, "impl_out": o, "script": gsrcs[gi],
                                                                         "clause": "concurrent script did not run to completion"})
                        continue
                    for hi, body in enumerate(parts):
                        cases.append({"tbl": g["tbl"], "ops": g["hists"][hi], "gen": "conc", "group": g, "hist": hi})
                        o_h.append({"out": body, "outcome": "ok"})
                        srcs.append(gsrcs[gi])
                        conc_units += 1
    for pair, n in sorted(races.items()):
        ck.violation("race:" + pair.replace(" ", ""), {"race": pair, "reports": n,
                                                        "clause": "data race between histories run as coroutines of one VM (-race)"})

    terms, idx = [], []
    for i, (c, o) in enumerate(zip(cases, o_h)):
        seen = parse_obs(o["out"]) if o["outcome"] == "ok" else None
        if seen is None:
            ck.violation("impl-error:%s" % o["outcome"], {"case": c, "impl_out": o, "script": srcs[i],
                                                          "clause": "script did not run to completion / unknown marker"})
            continue
        terms.append("(%s, %s, %s)" % (coq_tbl(c["tbl"]), coq_ops(c["ops"], obs_lines(o["out"])), coq_list(seen)))
        idx.append(i)
    bad = ck.eval_cases("cases", HEADER, terms, "check_case", shard=500)
    NULLKEY = {"call:n": "member=method-param:n", "newc:n": "member=ctor-promoted:n"}
    for j, cls in sorted(bad.items(), key=lambda kv: len(cases[idx[kv[0]]]["ops"])):
        i = idx[j]
        c, o = cases[i], o_h[i]
        pos_m, pos_s = (cls[2] if cls[0] == 1 else None), (cls[3] if cls[1] == 2 else None)
        cls = [x for x in cls[:2] if x]
        pos = pos_s if pos_s is not None else pos_m
        the_op = op_at(c["ops"], pos, obs_lines(o["out"]))
        what = op_key(the_op) if the_op is not None else "length"
        conc = c.get("gen") == "conc"
        rc_ = c["group"] if conc else c
        rep = {"case": rc_, "impl_out": o["out"].split("\n"), "script": srcs[i], "first_difference_at_op": pos,
               "op": the_op}
        if conc:
            rep["history"] = c["hist"]
        pre = "conc:" if conc else "history:"
        if 2 in cls:
            rep["clause"] = "own_args_only / call_own_args_only / history_refines_spec: the implementation differs from the reference semantics"
            ck.violation(NULLKEY.get(what) or (pre + what), rep)
        if 1 in cls:
            ck.broken.append("correspondence:C19.history")
            if 2 not in cls:
                rep["clause"] = "model vs implementation (tie)"
                ck.violation("tie:%s%s" % ("conc:" if conc else "", what), rep)

    mterms = []
    for c, o in zip(mcases, o_m):
        acc = o["out"].strip()
        if o["outcome"] != "ok" or acc not in ("A", "R"):
            ck.violation("impl-error:member", {"case": c, "impl_out": o})
            acc = "A"
        mterms.append("(%s, %s, %s, %s)" % ("MMethodParam" if c["member"] == "method-param" else "MCtorPromoted",
                                            coq_cty(c["arg"]), coq_val(c["val"]), "true" if acc == "A" else "false"))
    mbad = ck.eval_cases("mcases", HEADER, mterms, "check_mcase", shard=500) if mterms else {}
    for j, cls in sorted(mbad.items()):
        c, o = mcases[j], o_m[j]
        if 1 in cls:
            ck.broken.append("correspondence:C19.member")
        if 2 in cls:
            ck.violation("member=%s:%s" % (c["member"], c["val"][0]), {"case": c, "impl_out": o["out"], "clause": "%s_refuted" % c["member"].replace("-", "_")})
        elif 1 in cls:
            ck.violation("tie:member=%s" % c["member"], {"case": c, "impl_out": o["out"], "clause": "model vs implementation (tie)"})

    # ---- coverage (measured)
    distinct = set()
    nontriv = 0
    dist, lens, ninst = {}, {}, {}
    for c in cases:
        if c.get("gen") == "conc":
            continue
        key = json.dumps([c["tbl"], c["ops"]], sort_keys=True, default=str)
        if key in distinct:
            continue
        distinct.add(key)
        news = [o for o in c["ops"] if o[0] in ("new", "newc", "newraw")]
        argsets = set(tuple(o[3]) for o in news) | set(tuple(it[2]) for o in c["ops"] if o[0] == "nest" for it in o[2])
        news = news + [it for o in c["ops"] if o[0] == "nest" for it in o[2]]
        writes = [o for o in c["ops"] if o[0] == "write"]
        if len(argsets) >= 2 and writes:
            nontriv += 1
        for o in c["ops"]:
            dist[op_key(o)] = dist.get(op_key(o), 0) + 1
        b = min(len(c["ops"]) // 20 * 20, 200)
        lens[str(b)] = lens.get(str(b), 0) + 1
        ninst[str(len(news))] = ninst.get(str(len(news)), 0) + 1
    ck.samples = [{"ops": cases[7]["ops"][:6]}, {"ops": cases[-1]["ops"][:8]}] if len(cases) > 8 else []
    ck.cov["op_kind_distribution"] = dist
    ck.cov["history_length_buckets"] = lens
    ck.cov["instantiations_per_history"] = ninst
    ck.cov["generators"] = {g: sum(1 for c in cases if c.get("gen") == g) for g in sorted(set(c.get("gen") for c in cases))}
    ck.cov["member_probes"] = len(mcases)
    ck.cov["histories_through_factory_functions"] = sum(1 for c in cases if c.get("factory"))
    ck.cov["histories_in_a_namespace"] = sum(1 for c in cases if c.get("ns"))
    ck.cov["histories_with_argument_classes_declared_after_the_new_sites"] = sum(1 for c in cases if c.get("late") and c.get("factory"))
    ck.cov["histories_with_generic_classes_that_have_a_parent"] = sum(1 for c in cases if any(x[0] in EXT for x in c["tbl"]))
    ck.cov["concurrent"] = {"groups": len(groups), "runs_per_group": REPS, "histories_compared": conc_units,
                            "histories_per_group": sorted(set(len(g["hists"]) for g in groups)), "race_reports": races}
    ck.finish(level="proof", evaluations=len(cases) + len(mcases), distinct_nontrivial=nontriv,
              rule="histories: every sequence of 1..4 instantiations of Box<T> over {int,string,array,A}, after each `new` "
                   "optionally an immediate store (matching / non-matching value; at length 4 in the quick tier only none/matching and every second sequence), "
                   "then every live instance probed with all 7 value kinds through rotating store paths plus a read; "
                   "seeded histories over 1-3 generic classes with 1-2 parameters, 2-6 instantiations (incl. too few / too many "
                   "arguments, without type arguments, with a promoted constructor parameter given a matching / non-matching value) and 4-12 "
                   "stores/reads/calls of chk_p(<declared type> $x); every probe also calls chk_p with the 6 non-null value kinds; "
                   "enumc: every sequence of 1-2 (quick: +700 sampled of 3, thorough: all of 3) creation events over Box<T>/PBox<T> "
                   "{new+matching call, new+non-matching call, ctor matching, ctor non-matching} x 4 argument types + raw new; every second "
                   "history creates through factory functions (one `new` node executed several times); a quarter of the enumc / parent / seeded histories run inside `namespace App;`, "
                   "a quarter of the factory histories declare the argument classes A, B, C AFTER the functions holding the `new G<A>()` expressions; BBox<T> / BPair<K,V> extend a plain class; nest*: an instantiation whose constructor arguments contain "
                   "1-3 further instantiations with other type arguments (directly / through a call / as an array element / Name<X>() shorthand), every instance then probed, outer first; 4% of the seeded histories give null "
                   "to a typed parameter (recorded findings); concurrently: groups of 3-4 seeded histories spawned as coroutines of one VM "
                   "behind a start barrier, 3 runs per group under -race, every history compared with the model of that history alone; "
                   "non-trivial = distinct history with at least two different instantiations "
                   "and at least one store; member probes: T-typed method parameter and promoted constructor parameter x 6 argument types x 7 value kinds",
              traces=len(terms) + len(mterms))
