"""C14 part 3: PHP serialize()/unserialize() text format (std/php/serialize.go, unserialize.go)."""
import json
import os
import struct
import sys

sys.setrecursionlimit(20000)

sys.path.insert(0, os.path.dirname(os.path.abspath(__file__)))
from C14_common import cbytes, eval_balanced, exh_inputs, exh_eval

NAME = "ser"
HEADER = ("From Coq Require Import List NArith ZArith Uint63.\nFrom V.C14 Require Import Hex Exh SerModel SerRun.\n"
          "Import ListNotations.\nOpen Scope N_scope.\n")

INTS = [0, 1, -1, 2, 9, 10, -10, 255, 2 ** 31 - 1, -2 ** 31, 2 ** 53, 2 ** 53 + 1, -2 ** 53 - 1, 2 ** 63 - 1, -2 ** 63]
FLOATS = [0.0, -0.0, 1.5, 0.1, 1e-7, 1e21, 2.0 ** 53, float("inf"), float("nan")]
STRS = [b"", b"a", b"\"", b";", b"\";", b"a\";i:1;", b"}", b"\x00", b"\xff\xfe", "é漢😀".encode(), b"s:1:\"x\";", b" ", b"\n",
        b"0", b"5", b"-1", b"x y", b"__origami_a:[1]"]
CLAUSES = {1: "model<>impl", 2: "model unserialize<>impl", 3: "unserialize(serialize v) <> v",
           4: "serialize returns false for the value", 9: "outside the model"}


def fbits(f):
    return struct.unpack("<Q", struct.pack("<d", f))[0]


# ---------------------------------------------------------------- value trees
def gen_value(rng, depth, floats=False):
    kinds = ["null", "bool", "int", "int", "str", "str"]
    if floats:
        kinds.append("float")
    if depth > 0:
        kinds += ["list", "list", "map", "map"]
    t = rng.choice(kinds)
    if t == "null":
        return {"t": "null"}
    if t == "bool":
        return {"t": "bool", "v": rng.random() < 0.5}
    if t == "int":
        return {"t": "int", "v": str(rng.choice(INTS) if rng.random() < 0.7 else rng.randint(-10 ** 6, 10 ** 6))}
    if t == "float":
        return {"t": "float", "v": str(fbits(rng.choice(FLOATS)))}
    if t == "str":
        s = rng.choice(STRS) if rng.random() < 0.6 else bytes(rng.randrange(256) for _ in range(rng.randint(0, 12)))
        return {"t": "str", "v": s.hex()}
    n = rng.choice([0, 0, 1, 2, 3, 4])
    if t == "list":
        return {"t": "list", "v": [gen_value(rng, depth - 1, floats) for _ in range(n)]}
    keys = []
    while len(keys) < n:
        k = rng.choice(STRS + [b"k%d" % len(keys)])
        if k not in keys:
            keys.append(k)
    return {"t": "map", "v": [[k.hex(), gen_value(rng, depth - 1, floats)] for k in keys]}


def has_kind(v, kind):
    if v["t"] == kind:
        return True
    if v["t"] == "list":
        return any(has_kind(x, kind) for x in v["v"])
    if v["t"] in ("map", "arr"):
        return any(has_kind(x[1], kind) for x in v["v"])
    return False


def py_ser(v):
    t = v["t"]
    if t == "null":
        return b"N;"
    if t == "bool":
        return b"b:1;" if v["v"] else b"b:0;"
    if t == "int":
        return b"i:" + v["v"].encode() + b";"
    if t == "str":
        s = bytes.fromhex(v["v"])
        return b"s:%d:\"" % len(s) + s + b"\";"
    if t == "list":
        return b"a:%d:{" % len(v["v"]) + b"".join(b"i:%d;" % i + py_ser(x) for i, x in enumerate(v["v"])) + b"}"
    if t == "map":
        out = b"a:%d:{" % len(v["v"])
        for k, x in v["v"]:
            kb = bytes.fromhex(k)
            out += b"s:%d:\"" % len(kb) + kb + b"\";" + py_ser(x)
        return out + b"}"
    if t == "float":
        f = struct.unpack("<d", struct.pack("<Q", int(v["v"])))[0]
        return b"d:" + (b"NAN" if f != f else (b"INF" if f == float("inf") else (b"-INF" if f == float("-inf") else repr(f).encode()))) + b";"
    return b"N;"


def mutate(rng, b):
    b = bytearray(b)
    k = rng.choice(["trunc", "flip", "insert", "len", "ws", "dup", "del", "quote"])
    if k == "trunc" and b:
        del b[rng.randrange(len(b)):]
    elif k == "flip" and b:
        b[rng.randrange(len(b))] ^= 1 << rng.randrange(8)
    elif k == "insert":
        b.insert(rng.randrange(len(b) + 1), rng.choice(b";:\"{}0123456789-+Nbisad \n"))
    elif k == "len":
        digs = [i for i, c in enumerate(b) if 48 <= c <= 57]
        if digs:
            i = rng.choice(digs)
            b[i] = rng.choice(b"0123456789")
            if rng.random() < 0.2:
                b[i:i] = b"99999999999999999999"
    elif k == "ws":
        ws = rng.choice([b" ", b"\n", b"\t\r\n", b"\xc2\xa0", b"\xe2\x80\xa8", b"\xe3\x80\x80", b"\xc2\x85", b"\x0b\x0c"])
        if rng.random() < 0.5:
            b[0:0] = ws
        else:
            b += ws
    elif k == "dup" and b:
        i = rng.randrange(len(b))
        j = rng.randrange(i, len(b) + 1)
        b[j:j] = b[i:j]
    elif k == "del" and b:
        del b[rng.randrange(len(b))]
    elif k == "quote":
        b.insert(rng.randrange(len(b) + 1), 34)
    return bytes(b), k


# ---------------------------------------------------------------- Coq printers
def cz(z):
    z = int(z)
    if -2 ** 31 < z < 2 ** 31:
        return "(%d)%%Z" % z
    m = abs(z)
    return "(z64 %s 0x%x 0x%x)" % ("true" if z < 0 else "false", m >> 32, m & 0xffffffff)


class Unrepresentable(Exception):
    pass


FTEXT = {}      # float bits (decimal string) -> canonical text (bytes), filled from the engine


def cvalue(v):
    try:
        return cvalue_(v)
    except Unrepresentable:
        return None


def cvalue_(v):
    t = v["t"]
    if t == "null":
        return "VNull"
    if t == "bool":
        return "(VBool %s)" % ("true" if v["v"] else "false")
    if t == "int":
        return "(VInt %s)" % cz(v["v"])
    if t == "float":
        txt = bytes.fromhex(v["ft"]) if "ft" in v else FTEXT.get(v["v"])
        if txt is None:
            raise Unrepresentable("float without text")
        return "(VFloat %s)" % cbytes(txt)
    if t == "str":
        return "(VStr %s)" % cbytes(bytes.fromhex(v["v"]))
    if t == "list":
        return "(VList [%s])" % ";".join(cvalue_(x) for x in v["v"])
    if t == "map":
        return "(VMap [%s])" % ";".join("(%s,%s)" % (cbytes(bytes.fromhex(k)), cvalue_(x)) for k, x in v["v"])
    if t == "arr":
        return "(VArr [%s])" % ";".join("(%s,%s)" % (cbytes(bytes.fromhex(k or "")), cvalue_(x)) for k, x in v["v"])
    raise Unrepresentable(t)       # "nil", "other"


def vcode(v):
    t = v["t"]
    if t == "null":
        return b"\x00"
    if t == "bool":
        return b"\x02" if v["v"] else b"\x01"
    if t == "int":
        z = int(v["v"])
        return bytes([3, 1 if z < 0 else 0]) + abs(z).to_bytes(8, "little")
    if t == "float":
        txt = bytes.fromhex(v["ft"])
        return b"\x04" + len(txt).to_bytes(2, "little") + txt
    if t == "str":
        s = bytes.fromhex(v["v"])
        return b"\x05" + len(s).to_bytes(2, "little") + s
    if t == "list":
        return b"\x06" + len(v["v"]).to_bytes(2, "little") + b"".join(vcode(x) for x in v["v"])
    if t == "map":
        out = b"\x07" + len(v["v"]).to_bytes(2, "little")
        for k, x in v["v"]:
            kb = bytes.fromhex(k)
            out += len(kb).to_bytes(2, "little") + kb + vcode(x)
        return out
    return b"\xfe"


# script-level round trips: the values are built by the interpreter itself (array literals with keys,
# $a[] appends, sparse int keys, class instances, json_decode into a class, the depth argument);
# expected outputs were derived from PHP's semantics (an int-looking string key is the same key)
SCRIPTS = [
    ("keyed-literal",
     "<?php\n$a = [5 => 1, 'k' => 2];\n$s = serialize($a);\necho $s, '|', (serialize(unserialize($s)) === $s ? 'same' : 'diff'), '|', "
     "json_encode($a), '|', json_encode(json_decode(json_encode($a), true)), '|', json_encode(json_decode(json_encode($a)));\n",
     'a:2:{s:1:"5";i:1;s:1:"k";i:2;}|same|{"5":1,"k":2}|{"5":1,"k":2}|{"5":1,"k":2}'),
    ("append",
     "<?php\n$c = [];\n$c[] = 'x';\n$c[] = 1.5;\n$c[] = null;\n$c[] = true;\n$s = serialize($c);\necho $s, '|', "
     "(serialize(unserialize($s)) === $s ? 'same' : 'diff'), '|', json_encode($c), '|', json_encode(json_decode(json_encode($c), true));\n",
     'a:4:{i:0;s:1:"x";i:1;d:1.5;i:2;N;i:3;b:1;}|same|["x",1.5,null,true]|["x",1.5,null,true]'),
    ("sparse-int-key",
     "<?php\n$d = [1, 2];\n$d[10] = 3;\n$s = serialize($d);\necho $s, '|', serialize(unserialize($s)), '|', json_encode($d), '|', "
     "json_encode(json_decode(json_encode($d), true));\n",
     'a:3:{i:0;i:1;i:1;i:2;i:10;i:3;}|a:3:{s:1:"0";i:1;s:1:"1";i:2;s:2:"10";i:3;}|{"0":1,"1":2,"10":3}|{"0":1,"1":2,"10":3}'),
    ("decode-into-class",
     "<?php\nclass C14Q { public $a = 0; public $b = ''; public $c = []; }\n$o = json_decode('{\"a\":7,\"b\":\"x\",\"c\":[1,2]}', 'C14Q');\n"
     "echo gettype($o), '|', json_encode($o), '|', serialize($o);\n",
     'class|{"a":7,"b":"x","c":[1,2]}|O:4:"C14Q":3:{s:1:"a";i:7;s:1:"b";s:1:"x";s:1:"c";a:2:{i:0;i:1;i:1;i:2;}}'),
    ("nested-keyed",
     "<?php\n$n = ['a' => ['b' => [1, 2], 'c' => 1.0], 'd' => \"q\\\"x\"];\n$s = serialize($n);\necho $s, '|', "
     "(serialize(unserialize($s)) === $s ? 'same' : 'diff'), '|', json_encode($n), '|', json_encode(json_decode(json_encode($n), true)), '|', "
     "json_encode(json_decode(json_encode($n)));\n",
     'a:2:{s:1:"a";a:2:{s:1:"b";a:2:{i:0;i:1;i:1;i:2;}s:1:"c";d:1;}s:1:"d";s:3:"q"x";}|same|{"a":{"b":[1,2],"c":1.0},"d":"q\\"x"}|'
     '{"a":{"b":[1,2],"c":1.0},"d":"q\\"x"}|{"a":{"b":[1,2],"c":1.0},"d":"q\\"x"}'),
    ("depth-argument",
     "<?php\necho json_encode(json_decode('[[1]]', true, 1)), '|', json_encode(json_decode('[[1]]', true, 2)), '|', "
     "json_encode(json_decode('{\"a\":{\"b\":1}}', false, 1));\n",
     'null|[[1]]|null'),
    ("edges",
     "<?php\necho var_export(unserialize(' N;'), true), '|', var_export(json_encode(\"\\xff\"), true), '|', json_encode(9007199254740993), '|', "
     "json_encode(json_decode('9007199254740993', true)), '|', json_encode(unserialize('d:0.5;'));\n",
     'false|false|9007199254740993|9007199254740993|0.5'),
]


def php_view(v):
    """the PHP value an engine value tree stands for: arrays as ordered (key, value) lists"""
    t = v["t"]
    if t == "list":
        return ["array", [[str(i), php_view(x)] for i, x in enumerate(v["v"])]]
    if t == "arr":
        return ["array", [[bytes.fromhex(k).decode("latin1") if k is not None else str(i), php_view(x)]
                          for i, (k, x) in enumerate(v["v"])]]
    if t == "map":
        return ["array", [[bytes.fromhex(k).decode("latin1"), php_view(x)] for k, x in v["v"]]]
    if t == "float":
        return ["float", v["v"]]
    return [t, v.get("v")]


def float_bits(v, out):
    if v["t"] == "float":
        out.add(v["v"])
    elif v["t"] == "list":
        for x in v["v"]:
            float_bits(x, out)
    elif v["t"] in ("map", "arr"):
        for _, x in v["v"]:
            float_bits(x, out)


def run(ck, binary, run_impl, replay):
    rng = ck.rng
    quick = ck.tier == "quick"
    scases, ucases, exh = [], [], []
    if replay is not None:
        c = replay["case"]
        if c["k"] == "ser":
            scases = [dict(c, _origin="replay")]
        elif c["k"] == "unser":
            ucases = [dict(c, _origin="replay")]
    else:
        for i in range(900 if quick else 20000):
            v = gen_value(rng, rng.choice([0, 1, 2, 3, 4]), floats=(i % 3 == 0))
            scases.append({"k": "ser", "v": v, "_origin": "float" if has_kind(v, "float") else "tree"})
        for z in INTS:
            scases.append({"k": "ser", "v": {"t": "int", "v": str(z)}, "_origin": "tree"})
        for s in STRS:
            scases.append({"k": "ser", "v": {"t": "str", "v": s.hex()}, "_origin": "tree"})
            scases.append({"k": "ser", "v": {"t": "list", "v": [{"t": "str", "v": s.hex()}, {"t": "str", "v": s.hex()}]}, "_origin": "tree"})
        # ArrayValue slots carrying keys (sparse int keys / string keys stored in ZVal.Name)
        scases.append({"k": "ser", "v": {"t": "arr", "v": [["35", {"t": "int", "v": "1"}], [None, {"t": "int", "v": "2"}]]}, "_origin": "named"})
        scases.append({"k": "ser", "v": {"t": "arr", "v": [["6b", {"t": "int", "v": "1"}]]}, "_origin": "named"})
        scases.append({"k": "ser", "v": {"t": "arr", "v": [["2d33", {"t": "str", "v": "61"}], ["3037", {"t": "null"}], [None, {"t": "list", "v": []}]]}, "_origin": "named"})
        for f in FLOATS:
            scases.append({"k": "ser", "v": {"t": "float", "v": str(fbits(f))}, "_origin": "float"})
        # ArrayValue slots with names: canonical ints, non-canonical int spellings, strings, unnamed, duplicates
        names = [None, "30", "31", "35", "2d33", "3037", "2b35", "2d30", "6b", "", "39323233333732303336383534373735383037",
                 "39323233333732303336383534373735383038", "31", "20"]
        for i in range(120 if quick else 3000):
            n = rng.choice([1, 2, 3, 4])
            scases.append({"k": "ser", "v": {"t": "arr", "v": [[rng.choice(names), gen_value(rng, rng.choice([0, 1]))] for _ in range(n)]},
                           "_origin": "named"})
        for i in range(700 if quick else 15000):
            v = gen_value(rng, rng.choice([0, 1, 2, 3, 4]), floats=(i % 3 == 0))
            t = py_ser(v)
            if len(t) > 4096:
                continue
            if rng.random() < 0.25:
                ucases.append({"k": "unser", "hex": t.hex(), "_origin": "valid"})
            m, kind = mutate(rng, t)
            if rng.random() < 0.3:
                m, k2 = mutate(rng, m)
                kind += "+" + k2
            ucases.append({"k": "unser", "hex": m[:4096].hex(), "_origin": "mut:" + kind})
        for t in (b"a:99999999999:{}", b"a:9223372036854775807:{}", b"a:9223372036854775808:{}", b"a:1:{}", b"a:0:{}",
                  b"a:1:{N;N;}", b"a:1:{b:1;N;}", b"a:2:{i:0;N;i:0;N;}", b"a:2:{s:1:\"a\";i:1;s:1:\"a\";i:2;}",
                  b"a:2:{i:1;N;i:0;N;}", b"a:1:{i:0;a:1:{i:0;a:1:{i:0;N;}}}", b"s:99999999999999999999:\"\";",
                  b"s:9223372036854775807:\"a\";", b"s:3:\"a\";", b"s:1:\"abc\";", b"s:5:\"abc\";", b"s:0:\"\";", b"s:-1:\"\";",
                  b"i:+5;", b"i:-0;", b"i:007;", b"i:9223372036854775808;", b"i:-9223372036854775808;", b"i:-9223372036854775809;",
                  b"i:;", b"i:-;", b"i:5", b"b:2;", b"b:1", b"N", b"N;N;", b" N;", b"N;\n", b"\xc2\xa0N;", b"d:1.5;", b"O:1:\"A\":0:{}",
                  b"s:4:\"a\"b\";", b"s:1:\"a\";junk\"", b"s:\"\"", b"s:20:\"__origami_a:[1,2]\";", b"s:1:\"__origami_a:[1,2]\";",
                  b"a:1:{a:0:{}N;}", b"a:1:{i:0;N;", b"d:1.5;", b"d:1.50;", b"d:-0;", b"d:1E+25;", b"d:1e400;", b"d:.5;", b"d:5.;",
                  b"d:;", b"d:.;", b"d:1e;", b"d:+1.5e-3;", b"d:INF;", b"d:-INF;", b"d:NAN;", b"d:inf;", b"d:0x10;", b"d:1_0;", b"d:1.5",
                  b"d:1.5;x", b"a:2:{i:0;d:0.1;i:1;d:1e3;}", b"d: 1;", b"d:1 ;", b"d:--1;", b"d:1.2.3;", b"d:1e+;", b"d:Infinity;"):
            ucases.append({"k": "unser", "hex": t.hex(), "_origin": "hand"})
        # deep nesting: 400 levels inside 4 KiB
        deep = b"N;"
        for _ in range(400):
            deep = b"a:1:{i:0;" + deep + b"}"
        ucases.append({"k": "unser", "hex": deep[:4096].hex(), "_origin": "hand"})
        ucases.append({"k": "unser", "hex": deep.hex(), "_origin": "hand"})
        for b in exh_inputs():
            exh.append({"k": "unser", "hex": b.hex()})

    def strip(c):
        return {k: v for k, v in c.items() if not k.startswith("_")}

    ck.log("ser: %d serialize cases, %d unserialize cases, %d exhaustive short inputs" % (len(scases), len(ucases), len(exh)))
    import re
    fb = set()
    for c in scases:
        float_bits(c["v"], fb)
    fb = sorted(fb)
    segs = sorted(set(m for c in ucases for m in re.findall(rb"d:([^;]*);", bytes.fromhex(c["hex"]))))
    scripts = [{"k": "script", "extra": {"src": src}} for _, src, _ in SCRIPTS] if replay is None or replay["case"].get("k") == "script" else []
    aux = scripts + [{"k": "ftext", "v": fb}, {"k": "fcanon", "v": [x.hex() for x in segs]}, {"k": "ser.object"}]
    outs = run_impl(ck, binary, [strip(c) for c in scases + ucases] + exh + aux)
    if len(outs) != len(scases) + len(ucases) + len(exh) + len(aux):
        ck.broken.append("harness-run:ser")
        return {"evaluations": len(outs), "nontrivial": 0, "traces": 0, "rule": "ser: harness crashed"}
    o_ft, o_fc, o_obj = outs[-3], outs[-2], outs[-1]
    o_scripts = outs[len(outs) - 3 - len(scripts):len(outs) - 3]
    outs = outs[:len(outs) - 3 - len(scripts)]
    for (name, src, want), o in zip(SCRIPTS, o_scripts):
        if o.get("outcome") != "ok" or o.get("out") != want:
            ck.violation("script:" + name, {"part": NAME, "case": {"k": "script", "extra": {"src": src}}, "impl_out": o, "expected": want,
                                            "clause": "script-level serialize / json round trip differs from the expected output"})
    ck.cov["ser_script_level_cases"] = len(scripts)
    FTEXT.clear()
    for b, t in zip(fb, o_ft.get("texts", [])):
        FTEXT[b] = bytes.fromhex(t)
    canon = {x: bytes.fromhex(t) for x, t in zip(segs, o_fc.get("canon", [])) if t}
    if not (o_obj.get("out", "").startswith("O:4:\"C14P\":2:{") and o_obj["out"].endswith("|object")):
        ck.violation("ser:roundtrip:object", {"part": NAME, "case": {"k": "ser.object"}, "impl_out": o_obj,
                                              "clause": "unserialize(serialize(new C)) must be an object of class C"})
    o_s = outs[:len(scases)]
    o_u = outs[len(scases):len(scases) + len(ucases)]
    o_e = outs[len(scases) + len(ucases):]
    ck.log("ser: implementation ran")

    def crashed(o):
        return o.get("panic") or o.get("hang") or o.get("died") or o.get("err") or o.get("harness_error") or o.get("back_err")

    unmodelled = 0
    # ---- serialize cases
    terms, idx = [], []
    for i, (c, o) in enumerate(zip(scases, o_s)):
        if crashed(o):
            ck.violation("ser:crash", {"part": NAME, "case": strip(c), "impl_out": o, "clause": "total: never crashes / hangs / throws"})
            continue
        cv = cvalue(c["v"])
        if cv is None:
            # named ArrayValue slots: outside the model; the round trip is judged here
            back = o.get("back")
            if back is None or php_view(back) != php_view(c["v"]):
                ck.violation("ser:roundtrip:keyed-array-slots", {"part": NAME, "case": strip(c), "impl_out": o, "clause": CLAUSES[3]})
            continue
        out = "None" if "out" not in o else "(Some %s)" % cbytes(bytes.fromhex(o["out"]))
        back = "None"
        if o.get("back") is not None:
            bv = cvalue(o["back"])
            back = "None" if bv is None else "(Some %s)" % bv
        terms.append("{| s_v := %s; s_out := %s; s_back := %s |}" % (cv, out, back))
        idx.append(i)
    bad = eval_balanced(ck, "ser", HEADER, terms, "check_ser")
    for j, cls in sorted(bad.items(), key=lambda kv: len(json.dumps(scases[idx[kv[0]]]["v"]))):
        c, o = scases[idx[j]], o_s[idx[j]]
        if cls == [9]:
            unmodelled += 1
            continue
        cls = [x for x in cls if x != 9]
        if cls == [4]:
            kind = "float" if has_kind(c["v"], "float") else "other"
            key = "ser:enc:unsupported:" + kind
        else:
            key = "ser:clauses=%s:%s" % ("".join(map(str, cls)), c["_origin"])
        ck.violation(key, {"part": NAME, "case": strip(c), "impl_out": o, "clause": [CLAUSES[x] for x in cls]})

    # ---- unserialize cases
    uterms, uidx = [], []
    for i, (c, o) in enumerate(zip(ucases, o_u)):
        if crashed(o):
            ck.violation("unser:crash", {"part": NAME, "case": strip(c), "impl_out": o, "clause": "decoder total: never crashes / hangs"})
            continue
        ov = cvalue(o["val"])
        if ov is None:
            unmodelled += 1
            continue
        raw = bytes.fromhex(c["hex"])
        tab = ["(%s,%s)" % (cbytes(x), cbytes(canon[x])) for x in sorted(set(re.findall(rb"d:([^;]*);", raw))) if x in canon and canon[x] != x]
        uterms.append("{| u_in := %s; u_ftab := [%s]; u_obs := %s |}" % (cbytes(raw), ";".join(tab), ov))
        uidx.append(i)
    ubad = eval_balanced(ck, "unser", HEADER, uterms, "check_unser")
    for j, cls in sorted(ubad.items(), key=lambda kv: len(ucases[uidx[kv[0]]]["hex"])):
        c, o = ucases[uidx[j]], o_u[uidx[j]]
        if cls == [9]:
            unmodelled += 1
            continue
        key = "unser:clauses=1:%s" % c["_origin"].split(":")[0]
        ck.violation(key, {"part": NAME, "case": strip(c), "impl_out": o, "clause": [CLAUSES[x] for x in cls]})
    ck.log("ser: coq evaluated")

    # ---- exhaustive 1- and 2-byte inputs
    if exh:
        codes = []
        for c, o in zip(exh, o_e):
            if crashed(o):
                ck.violation("unser:crash", {"part": NAME, "case": c, "impl_out": o, "clause": "decoder total: never crashes / hangs"})
                codes.append(b"\xfd")
            else:
                codes.append(vcode(o["val"]))
        fails = exh_eval(ck, "unser_exh", HEADER, ["unser_exh"], [codes])
        for i in fails[0][:5]:
            ck.violation("unser:clauses=1:exh", {"part": NAME, "case": exh[i], "impl_out": o_e[i], "clause": CLAUSES[1]})
        ck.log("ser: exhaustive short inputs evaluated")

    kinds = {}
    for c in scases:
        kinds[c["_origin"]] = kinds.get(c["_origin"], 0) + 1
    uk = {}
    for c, o in zip(ucases, o_u):
        k = c["_origin"].split(":")[0] + (":accepted" if o.get("val", {}).get("t") not in (None, "bool") or
                                          (o.get("val", {}).get("t") == "bool" and o["val"]["v"]) else ":false")
        uk[k] = uk.get(k, 0) + 1
    ck.cov["ser_case_distribution"] = kinds
    ck.cov["unser_case_distribution"] = uk
    ck.cov["ser_outside_model_skipped"] = unmodelled
    if scases:
        ck.samples.append({"ser_case": strip(scases[len(scases) // 3])})
    nontriv = len(set(json.dumps(c["v"], sort_keys=True) for c in scases if c["v"]["t"] in ("list", "map", "arr") and c["v"]["v"])) \
        + len(set(c["hex"] for c in ucases if len(c["hex"]) >= 8))
    return {"evaluations": len(scases) + len(ucases) + len(exh), "nontrivial": nontriv,
            "traces": len(terms) + len(uterms) + len(exh),
            "rule": "ser: seeded value trees to depth 4 (boundary ints, strings over all bytes incl. quotes/semicolons/UTF-8, lists, "
                    "string-keyed maps; every 10th with floats) through serialize then unserialize; unserialize on valid texts, 1-2 "
                    "mutants each (truncate, bit flip, insert, digit/length change, white space, duplicate, delete, quote), a hand-written "
                    "hostile list (huge counts/lengths, 400-level nesting), all 1- and 2-byte inputs; non-trivial = distinct non-empty "
                    "container value / distinct input of >= 4 bytes"}
