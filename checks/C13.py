"""C13 — HTTP response commits once; pre-commit status/headers reach the client.
Proof: coq/C13 (model of response.go + middleware_stack.go, spec, theorems).
Tie: op sequences run on the real bufferedWriter (verif export), on the script-level
Response class through Handler.ServeHTTP, and on applyMiddlewares; the Coq model and the Coq
spec are evaluated on the same sequences by vm_compute and diffed."""
import itertools
import json
import subprocess
import vcheck
from vcheck import coq_string, coq_list, coq_z

HEADER = "From V.C13 Require Import Model Spec Run.\nOpen Scope string_scope.\n"

KEYS = ["X-A", "X-B", "Content-Type", "Location", "Set-Cookie", "x-a", "content-type", "LOCATION", "x-B", "X_Trace_Id", "x.y~Z-w"]
VALS = ["1", "2", "text/plain"]
CODES = [200, 201, 204, 302, 404, 500]
BODIES = ["", "a", "bc"]
URLS = ["/t", "/login"]


def op_pool():
    pool = []
    for c in (404, 201):
        pool.append(["status", c])
    pool.append(["header", "X-A", "1"])
    pool.append(["header", "X-A", "2"])
    pool.append(["header", "Content-Type", "text/plain"])
    pool.append(["cookie", "sid", "7"])
    pool.append(["write", "a"])
    pool.append(["write", ""])
    pool.append(["html", "h"])
    pool.append(["json", "[\"j\"]"])
    pool.append(["redirect", "/t", 302])
    pool.append(["nocontent", 204])
    pool.append(["writeheader", 500])
    pool.append(["htmlwith", "h", 418])
    pool.append(["formatted", 422, "m"])
    return pool


def script_pool():
    """script-level only: default arguments, two-argument cookie, out-of-range codes"""
    return op_pool() + [["header", "x-a", "3"], ["redirect0", "/t"], ["nocontent0"], ["success0"], ["error0"],
                        ["cookie2", "sid", "7"], ["cookieopt", "sid", "7"], ["cookieopt2", "t", "x9"], ["badstatus", "status", 0], ["badstatus", "writeHeader", 1000],
                        ["badstatus", "noContent", 99],
                        ["file", "html", ""], ["file", "json", "d.json"], ["file", "zzz", 'q"x.bin'], ["filemissing", "nofile"], ["filemissing", "dir"]]


def rand_op(rng, script=False):
    kinds = ["status", "status", "header", "header", "cookie", "write", "write", "html", "json",
             "redirect", "nocontent", "writeheader", "htmlwith", "formatted"]
    if script:
        kinds += ["redirect0", "nocontent0", "success0", "error0", "cookie2", "cookieopt", "cookieopt2", "badstatus", "file", "filemissing"]
    k = rng.choice(kinds)
    if k == "file":
        return [k, rng.choice(["html", "json", "zzz"]), rng.choice(["", "", "d.txt", 'q"x.bin'])]
    if k == "filemissing":
        return [k, rng.choice(["nofile", "dir"])]
    if k == "redirect0":
        return [k, rng.choice(URLS)]
    if k in ("nocontent0", "success0", "error0"):
        return [k]
    if k in ("cookie2", "cookieopt", "cookieopt2"):
        return [k, rng.choice(["sid", "t"]), rng.choice(["7", "x9"])]
    if k == "badstatus":
        return [k, rng.choice(["status", "writeHeader", "noContent"]), rng.choice([0, 99, 1000, -1, 10000])]
    if k == "status":
        return [k, rng.choice(CODES)]
    if k == "header":
        return [k, rng.choice(KEYS), rng.choice(VALS)]
    if k == "cookie":
        return [k, rng.choice(["sid", "t"]), rng.choice(["7", "x9"])]
    if k in ("write", "html"):
        return [k, rng.choice(BODIES)]
    if k == "htmlwith":
        return [k, rng.choice(BODIES), rng.choice(CODES)]
    if k == "formatted":
        return [k, rng.choice([200, 201, 404, 422, 500]), rng.choice(["m", "not found"])]
    if k == "json":
        return [k, json.dumps(rng.choice([[], ["a"], ["b", "c"]]), separators=(",", ":"))]
    if k == "redirect":
        return [k, rng.choice(URLS), rng.choice([301, 302, 307])]
    return [k, rng.choice(CODES)]


def coq_op(o):
    k = o[0]
    if k == "status":
        return "OStatus %s" % coq_z(o[1])
    if k == "header":
        return "OHeader %s %s" % (coq_string(o[1]), coq_string(o[2]))
    if k == "cookie":
        return "OCookie %s" % coq_string(o[1] + "=" + o[2])
    if k == "write":
        return "OWrite %s" % coq_string(o[1])
    if k == "html":
        return "OHTML %s" % coq_string(o[1])
    if k == "json":
        return "OJSON %s" % coq_string(o[1])
    if k == "redirect":
        return "ORedirect %s %s" % (coq_string(o[1]), coq_z(o[2]))
    if k == "nocontent":
        return "ONoContent %s" % coq_z(o[1])
    if k == "writeheader":
        return "OWriteHeader %s" % coq_z(o[1])
    if k == "htmlwith":
        return "OHTMLWith %s %s" % (coq_string(o[1]), coq_z(o[2]))
    if k == "formatted":
        return "OFormatted %s %s" % (coq_z(o[1]), coq_string(formatted_body(o[1], o[2])))
    if k == "redirect0":
        return "ORedirect %s 302" % coq_string(o[1])
    if k == "nocontent0":
        return "ONoContent 204"
    if k == "success0":
        return "OFormatted 200 %s" % coq_string(formatted_body(200, "success"))
    if k == "error0":
        return "OFormatted 500 %s" % coq_string(formatted_body(500, "error"))
    if k == "cookie2":
        return "OCookie %s" % coq_string(o[1] + "=" + o[2])
    if k == "cookieopt":    # net/http Cookie.String(): name=value; Path; Domain; Expires; Max-Age; HttpOnly; Secure; SameSite
        return "OCookie %s" % coq_string(o[1] + "=" + o[2] + "; Path=/x; Max-Age=60; HttpOnly")
    if k == "cookieopt2":
        return "OCookie %s" % coq_string(o[1] + "=" + o[2] + "; Path=/x; Secure")
    if k in ("badstatus", "formatfail", "filemissing"):
        return "ORefused"
    raise ValueError(k)


def formatted_body(code, msg):
    # defaultFormattedPayload: object {code, message, data, timestamp} in insertion order;
    # the harness normalises the timestamp to 0
    return '{"code":%d,"message":%s,"data":null,"timestamp":0}' % (code, json.dumps(msg))


COMMITTING = ("write", "html", "json", "redirect", "nocontent", "writeheader", "htmlwith", "formatted",
              "redirect0", "nocontent0", "success0", "error0")


def coq_obs(obs):
    hdr = coq_list("(%s, %s)" % (coq_string(k), coq_list(coq_string(v) for v in vs))
                   for k, vs in sorted((obs.get("hdr") or {}).items()))
    return "{| o_wh := %d; o_code := %s; o_hdr := %s; o_body := %s |}" % (
        obs["wh"], coq_z(obs["code"]), hdr, coq_string(obs["body"]))


FILES = {"html": ("text/html; charset=utf-8", "<p>f</p>"), "json": ("application/json", "{\"f\":1}"),
         "zzz": ("application/octet-stream", "zz")}


def coq_ops(ops):
    if not any(x[0] == "file" for x in ops):
        return coq_list(coq_op(x) for x in ops)
    segs = []
    for x in ops:
        if x[0] == "file":   # Model.send_file: two headers, then the content as one write
            ct, body = FILES[x[1]]
            name = (x[2] or "f." + x[1]).replace('"', "_")
            segs.append("send_file %s %s %s" % (coq_string(ct), coq_string('attachment; filename="%s"' % name), coq_string(body)))
        else:
            segs.append("[%s]" % coq_op(x))
    return "(List.concat %s)" % coq_list(segs)


def coq_scase(c, obs):
    mws = coq_list("(%s, (%s, %s))" % (coq_z(m["prio"]), coq_ops(m["pre"]), coq_ops(m["post"])) for m in c["mws"])
    err = "(Some %s)" % coq_ops(c["onerror"]) if c.get("throw") else "(@None (list op))"
    return "(%s, %s, %s, %s)" % (mws, coq_ops(c["ops"]), err, coq_obs(obs))


def server_cases(ck, rng):
    """one request through a real Server: 0-2 middlewares with calls before and after $next, a handler,
    and (only without middlewares) an uncaught throw handled by onError"""
    cases = []
    small = [["status", 201], ["status", 404], ["header", "X-A", "1"], ["header", "x-b", "2"], ["cookie", "t", "7"],
             ["write", "a"], ["json", "[\"j\"]"], ["redirect", "/t", 302], ["nocontent", 204], ["writeheader", 500],
             ["formatted", 422, "m"], ["htmlwith", "h", 418]]
    # the audit's witnesses first
    cases.append({"kind": "server", "mws": [], "ops": [["status", 201]], "throw": True, "onerror": [["status", 500], ["write", "E"]]})
    cases.append({"kind": "server", "mws": [], "ops": [["write", "a"]], "throw": True, "onerror": [["status", 500], ["write", "E"]]})
    cases.append({"kind": "server", "mws": [{"prio": 0, "pre": [["header", "X-Pre", "1"]],
                                            "post": [["header", "X-After", "1"], ["status", 202], ["write", "M"]]}],
                  "ops": [["status", 201]], "throw": False, "onerror": None})
    # every (handler op, onError op) pair with a throw; every (pre, handler, post) triple with one middleware
    for a in small:
        for b in small:
            cases.append({"kind": "server", "mws": [], "ops": [a], "throw": True, "onerror": [b]})
    # an uncaught throw in the handler behind one middleware: the after-$next calls are skipped, onError runs
    for a in small[:8]:
        for b in small[:8]:
            cases.append({"kind": "server", "mws": [{"prio": 0, "pre": [a], "post": [["write", "NEVER"]]}], "ops": [b],
                          "throw": True, "onerror": [["status", 500], ["write", "E"]]})
    for a in small[:8]:
        for b in small[:8]:
            for c in small[:8]:
                if ck.tier == "thorough" or rng.random() < 0.25:
                    cases.append({"kind": "server", "mws": [{"prio": 0, "pre": [a], "post": [c]}], "ops": [b],
                                  "throw": False, "onerror": None})
    # onFormat closure that throws for the message "boom": a failed success()/error()/format() call
    # must not leave its status behind (and a working closure must produce the same envelope)
    FAILS = [["formatfail", 'error("boom", 503)'], ["formatfail", 'success(null, "boom", 201)'],
             ["formatfail", 'format(503, "boom", null)']]
    for f in FAILS:
        for a in small:
            cases.append({"kind": "server", "mws": [], "ops": [f, a], "throw": False, "onerror": None, "onformat": True})
            cases.append({"kind": "server", "mws": [], "ops": [["status", 202], f, a], "throw": False, "onerror": None, "onformat": True})
            cases.append({"kind": "server", "mws": [{"prio": 0, "pre": [a], "post": [f, ["write", "z"]]}], "ops": [], "throw": False,
                          "onerror": None, "onformat": True})
    n = 150 if ck.tier == "quick" else 2500
    for _ in range(n):
        nm = rng.randint(0, 2)
        mws = [{"prio": rng.choice([-1, 0, 0, 5]), "pre": [rand_op(rng, True) for _ in range(rng.randint(0, 2))],
                "post": [rand_op(rng, True) for _ in range(rng.randint(0, 2))]} for _ in range(nm)]
        thr = rng.random() < 0.5
        hops = [rand_op(rng, True) for _ in range(rng.randint(0, 4))]
        onf = rng.random() < 0.4
        if onf and rng.random() < 0.7:
            hops.insert(rng.randint(0, len(hops)), rng.choice(FAILS))
        cases.append({"kind": "server", "mws": mws, "ops": hops, "onformat": onf,
                      "throw": thr, "onerror": [rand_op(rng, True) for _ in range(rng.randint(0, 3))] if thr or rng.random() < 0.3 else None})
    # two overlapping requests to the SAME route: the first parks at its first write to the connection,
    # the second is served from start to end meanwhile, then the first resumes. Each response must be
    # what its own calls produce (the model of one request), whatever the other request did.
    ov = []
    for a in small[:8]:
        for c in small[:8]:
            ov.append({"kind": "server", "mws": [{"prio": 0, "pre": [a], "post": [c, ["write", "M"]]}], "ops": [["write", "F"]],
                       "throw": False, "onerror": None, "overlap": True})
    for c in small:
        ov.append({"kind": "server", "mws": [{"prio": 0, "pre": [], "post": [c]}, {"prio": 1, "pre": [["write", "p"]], "post": [["header", "X-After", "1"]]}],
                   "ops": [["status", 201], ["write", "F"]], "throw": False, "onerror": None, "overlap": True})
    for _ in range(40 if ck.tier == "quick" else 600):
        nm = rng.randint(1, 3)
        mws = [{"prio": rng.choice([-1, 0, 0, 5]), "pre": [rand_op(rng, True) for _ in range(rng.randint(0, 2))],
                "post": [rand_op(rng, True) for _ in range(rng.randint(1, 2))]} for _ in range(nm)]
        thr = rng.random() < 0.2
        ov.append({"kind": "server", "mws": mws, "ops": [rand_op(rng, True) for _ in range(rng.randint(0, 2))] + [["write", "F"]],
                   "throw": thr, "onerror": [["status", 500], ["write", "E"]] if thr else None, "overlap": True})
    return cases + ov


def coq_bool(b):
    return "true" if b else "false"


def coq_tcase(c, obs):
    mws = coq_list("(%s, (%s, %s, %s, %s))" % (coq_z(m["prio"]), coq_ops(m["pre"]), coq_bool(m.get("tpre")),
                                                 coq_ops(m["post"]), coq_bool(m.get("tpost"))) for m in c["mws"])
    return "(%s, %s, %s, %s, %s)" % (mws, coq_ops(c["ops"]), coq_bool(c.get("throw")), coq_ops(c["onerror"] or []), coq_obs(obs))


def throw_cases(ck, rng):
    """one request where a MIDDLEWARE (closure or class instance) ends in an uncaught throw before or after
    $next, possibly together with a throwing handler; onError is always registered"""
    out = []
    small = [["status", 201], ["header", "X-A", "1"], ["cookie", "t", "7"], ["write", "a"], ["json", "[\"j\"]"],
             ["redirect", "/t", 302], ["nocontent", 204], ["htmlwith", "h", 418]]
    onerr = [["status", 500], ["write", "E"]]
    # one middleware: every (pre, post) pair, throw before / after $next, closure and class
    for a in small:
        for b in small:
            for where in ("tpre", "tpost"):
                if ck.tier == "thorough" or rng.random() < 0.5:
                    out.append({"kind": "server", "tmode": True, "mws": [{"prio": 0, "pre": [a], "post": [b], where: True, "class": rng.random() < 0.5}],
                                "ops": [["status", 202], ["write", "F"]], "throw": False, "onerror": onerr})
    # two and three layers: which layer throws, where; handler may throw too
    for n in (2, 3):
        for who in range(n):
            for where in ("tpre", "tpost"):
                for hthrow in (False, True):
                    for cls in (False, True):
                        mws = [{"prio": rng.choice([0, 0, 1]), "pre": [["write", "p%d" % i]], "post": [["write", "q%d" % i], ["header", "X-L%d" % i, "1"]],
                                "class": cls if i == who else not cls} for i in range(n)]
                        mws[who][where] = True
                        out.append({"kind": "server", "tmode": True, "mws": mws, "ops": [rng.choice(small), ["write", "F"]], "throw": hthrow, "onerror": onerr})
    for _ in range(80 if ck.tier == "quick" else 1500):
        n = rng.randint(1, 4)
        mws = [{"prio": rng.choice([-1, 0, 0, 5]), "pre": [rand_op(rng, True) for _ in range(rng.randint(0, 2))],
                "post": [rand_op(rng, True) for _ in range(rng.randint(0, 2))], "class": rng.random() < 0.4,
                "tpre": rng.random() < 0.15, "tpost": rng.random() < 0.25} for _ in range(n)]
        out.append({"kind": "server", "tmode": True, "mws": mws, "ops": [rand_op(rng, True) for _ in range(rng.randint(0, 3))],
                    "throw": rng.random() < 0.3, "onerror": [rand_op(rng, True) for _ in range(rng.randint(0, 3))]})
    return out


def coq_case(ops, obs):
    hdr = coq_list("(%s, %s)" % (coq_string(k), coq_list(coq_string(v) for v in vs))
                   for k, vs in sorted((obs.get("hdr") or {}).items()))
    o = "{| o_wh := %d; o_code := %s; o_hdr := %s; o_body := %s |}" % (
        obs["wh"], coq_z(obs["code"]), hdr, coq_string(obs["body"]))
    return "(%s, %s)" % (coq_ops(ops), o)


def run_impl(binary, cases):
    inp = "\n".join(json.dumps(c) for c in cases) + "\n"
    p = subprocess.run([binary], input=inp, stdout=subprocess.PIPE, stderr=subprocess.PIPE, text=True, timeout=900)
    outs = [json.loads(l) for l in p.stdout.splitlines() if l.strip()]
    return outs, p.returncode, p.stderr


def main(ck):
    rng = ck.rng
    ck.trusted += [
        "model of the underlying net/http ResponseWriter contract (first WriteHeader snapshots headers, Write commits 200) as implemented by httptest.ResponseRecorder — assumed",
        "sort.SliceStable assumed stable (modelled as stable insertion sort)",
        "harness/cmd/c13 (Go) and checks/C13.py (generators, Coq term printer)",
        "std/net/http/verif_export.go (build tag verif): thin forwarding wrappers",
        "SendFile, Flush, Hijack, view are not modelled; 1xx codes and the no-body rule of 204/304 of a real net/http server are outside the assumed writer contract (ResponseRecorder)",
    ]
    ok = ck.prove()
    binary, out = ck.go_build("c13")
    if binary is None:
        ck.broken.append("harness-build")
        ck.finish(evaluations=0, distinct_nontrivial=0, rule="harness did not build")

    # ---- cases
    pool = op_pool()
    cases = []
    if ck.replay:
        rp = json.load(open(ck.replay))
        cases = [rp["case"]] if "case" in rp else []
    else:
        maxlen = 3 if ck.tier == "quick" else 4
        for n in range(0, maxlen + 1):
            for seq in itertools.product(pool, repeat=n):
                cases.append({"kind": "ops", "mode": "go", "ops": list(seq)})
        nrand = 1500 if ck.tier == "quick" else 20000
        for _ in range(nrand):
            n = rng.randint(1, 12)
            cases.append({"kind": "ops", "mode": "go", "ops": [rand_op(rng) for _ in range(n)]})
        nscript = 250 if ck.tier == "quick" else 2500
        for _ in range(nscript):
            n = rng.randint(1, 8)
            cases.append({"kind": "ops", "mode": "script", "ops": [rand_op(rng, True) for _ in range(n)]})
        # every single op and every ordered pair through the script-level methods (incl. default
        # arguments, two-argument cookie, out-of-range codes)
        spool = script_pool()
        for n in (1, 2):
            for seq in itertools.product(spool, repeat=n):
                cases.append({"kind": "ops", "mode": "script", "ops": list(seq)})
    mcases = []
    if not ck.replay:
        prios = [-1, 0, 0, 1, 5]
        for n in range(0, 6):
            for seq in itertools.product(sorted(set(prios)), repeat=n):
                # multiset restriction: at most as many of each value as in {-1,0,0,1,5}
                if all(seq.count(v) <= prios.count(v) for v in set(seq)):
                    mcases.append({"kind": "mw", "prios": list(seq)})
        for _ in range(200 if ck.tier == "quick" else 3000):
            mcases.append({"kind": "mw", "prios": [rng.randint(-3, 3) for _ in range(rng.randint(0, 9))]})
        # boundary priorities (a comparator written as a subtraction overflows on these)
        EXT = [-2**63, -2**63 + 1, -2**62, -1, 0, 1, 2**62, 2**63 - 2, 2**63 - 1]
        for n in (2, 3):
            for seq in itertools.product(EXT, repeat=n):
                if n == 2 or rng.random() < 0.25:
                    mcases.append({"kind": "mw", "prios": list(seq)})
        for _ in range(150 if ck.tier == "quick" else 3000):
            mcases.append({"kind": "mw", "prios": [rng.choice(EXT + [5, -5, 7]) for _ in range(rng.randint(2, 8))]})
        # the same through $server->middleware(fn, prio) + a route, served by the real ServeMux
        for c in list(mcases)[: (120 if ck.tier == "quick" else 371)]:
            mcases.append({"kind": "mwscript", "prios": c["prios"]})
        for _ in range(60 if ck.tier == "quick" else 1000):
            mcases.append({"kind": "mwscript", "prios": [rng.randint(-2, 2) for _ in range(rng.randint(1, 7))]})
        for _ in range(40 if ck.tier == "quick" else 600):
            mcases.append({"kind": "mwscript", "prios": [rng.choice([-(2**63 - 1), -1, 0, 1, 2**63 - 1, 2**62]) for _ in range(rng.randint(2, 6))]})

    scases = [] if ck.replay else server_cases(ck, rng) + throw_cases(ck, rng)
    replay_r = []
    if ck.replay and cases:
        kind = cases[0].get("kind")
        if kind == "server":
            scases, cases = cases, []
        elif kind == "mwreg":
            replay_r, cases = cases, []
        elif kind in ("mw", "mwscript"):
            mcases, cases = cases, []
    # registration order: closure and class-instance middlewares interleaved with routes; each route is
    # wrapped by exactly the middlewares registered before it (checked per route with check_mcase)
    rcases = replay_r
    if not ck.replay:
        shapes = [["mw", "closure"], ["mw", "class"], ["route"]]
        for n in (2, 3, 4):
            for seq in itertools.product(shapes, repeat=n):
                if sum(1 for x in seq if x[0] == "route") >= 1 and sum(1 for x in seq if x[0] == "mw") >= 1:
                    if n < 4 or rng.random() < 0.5:
                        rcases.append({"kind": "mwreg", "items": [list(x) + ([rng.choice([-1, 0, 0, 5])] if x[0] == "mw" else []) for x in seq]})
        for _ in range(60 if ck.tier == "quick" else 800):
            n = rng.randint(3, 8)
            rcases.append({"kind": "mwreg", "items": [(lambda x: list(x) + ([rng.choice([-1, 0, 0, 1, 5])] if x[0] == "mw" else []))(rng.choice(shapes)) for _ in range(n)]})
        # route groups: ["group", parent] creates the next Server; middlewares and routes name their Server.
        # Systematic: the root holds n0 middlewares (every slice capacity pattern up to 9) when two groups are
        # created from it; then each of {group A, group B, root} registers one more in every order, then
        # every Server gets a route.
        for n0 in range(0, 10):
            for order in itertools.permutations([1, 2, 0]):
                items = [["mw", "closure", 0, 0] for _ in range(n0)] + [["group", 0], ["group", 0]]
                items += [["mw", "closure" if t != 2 else "class", 0, t] for t in order[: (3 if n0 % 2 else 2)]]
                items += [["route", 1], ["route", 2], ["route", 0]]
                rcases.append({"kind": "mwreg", "items": items})
        for _ in range(80 if ck.tier == "quick" else 1500):
            ns, items = 1, []
            for _ in range(rng.randint(4, 14)):
                x = rng.random()
                if x < 0.2 and ns < 5:
                    items.append(["group", rng.randrange(ns)])
                    ns += 1
                elif x < 0.7:
                    items.append(["mw", rng.choice(["closure", "class"]), rng.choice([-1, 0, 0, 0, 5]), rng.randrange(ns)])
                else:
                    items.append(["route", rng.randrange(ns)])
            items += [["route", t] for t in range(ns)]
            rcases.append({"kind": "mwreg", "items": items})
    outs, rc, err = run_impl(binary, cases + mcases + scases + rcases)
    o_reg = outs[len(cases) + len(mcases) + len(scases):]
    outs = outs[:len(cases) + len(mcases) + len(scases)]
    if len(o_reg) != len(rcases):
        ck.broken.append("harness-run:mwreg")
    o_srv = outs[len(cases) + len(mcases):]
    outs = outs[:len(cases) + len(mcases)]
    if len(outs) + len(o_srv) != len(cases) + len(mcases) + len(scases):
        ck.log("harness returned %d results for %d cases rc=%d\n%s" % (len(outs), len(cases) + len(mcases), rc, err[-2000:]))
        ck.broken.append("harness-run")
        ck.finish(evaluations=len(outs), distinct_nontrivial=0, rule="harness crashed")
    o_ops, o_mw = outs[:len(cases)], outs[len(cases):]

    # harness errors (script throws etc.) are tie failures with a concrete input
    terms = []
    idxmap = []
    for i, (c, o) in enumerate(zip(cases, o_ops)):
        if o.get("err"):
            ck.violation("impl-error:" + c["mode"], {"case": c, "impl_out": o, "clause": "implementation raised"})
            continue
        terms.append(coq_case(c["ops"], o))
        idxmap.append(i)
    bad = ck.eval_cases("cases", HEADER, terms, "check_case", shard=1500)
    clause_names = {1: "model-vs-impl(client view)", 2: "wire_is_spec(impl)", 3: "whCalls model-vs-impl",
                    4: "commit_at_most_once(impl)"}
    for j, cls in sorted(bad.items()):
        c, o = cases[idxmap[j]], o_ops[idxmap[j]]
        first_commit = next((x[0] for x in c["ops"] if x[0] in COMMITTING), "none")
        key = "ops:%s:clauses=%s:commit=%s" % (c["mode"], "".join(map(str, cls)), first_commit)
        if 2 in cls or 4 in cls:
            ck.violation(key, {"case": c, "impl_out": o, "clause": [clause_names[x] for x in cls]})
        else:
            ck.broken.append("correspondence:C13.ops")
            ck.violation(key, {"case": c, "impl_out": o, "clause": [clause_names[x] for x in cls]})
    rterms, ridx = [], []
    for i, (c, o) in enumerate(zip(rcases, o_reg)):
        if o.get("err"):
            ck.violation("impl-error:mwreg", {"case": c, "impl_out": o, "clause": "implementation raised"})
            continue
        rops, trs = [], []
        bodies = o.get("bodies") or []
        r = 0
        for it in c["items"]:
            if it[0] == "mw":
                rops.append("RMw %d %s" % (it[3] if len(it) > 3 else 0, coq_z(it[2])))
            elif it[0] == "group":
                rops.append("RGroup %d" % it[1])
            else:
                rops.append("RRoute %d" % (it[1] if len(it) > 1 else 0))
                body = bodies[r] if r < len(bodies) else ""
                tr = []
                for part in body.split(";"):
                    if part == "F":
                        tr.append((2, 0))
                    elif part[:1] == "E" and part[1:].isdigit():
                        tr.append((0, int(part[1:])))
                    elif part[:1] == "X" and part[1:].isdigit():
                        tr.append((1, int(part[1:])))
                    elif part:
                        tr.append((9, 9))
                trs.append(coq_list("(%d%%nat, %d%%nat)" % ab for ab in tr))
                r += 1
        rterms.append("(%s, %s)" % (coq_list(rops), coq_list(trs)))
        ridx.append(i)
    rbad = ck.eval_cases("rcases", HEADER, rterms, "check_gcase", shard=1500) if rterms else {}
    for j, cls in sorted(rbad.items()):
        i = ridx[j]
        grouped = any(it[0] == "group" for it in rcases[i]["items"])
        ck.violation("mw:registration-order" + (":groups" if grouped else ""),
                     {"case": rcases[i], "routes": [x - 1 for x in cls], "impl_out": o_reg[i],
                      "clause": "a route is wrapped by exactly the middlewares its Server holds when it is registered "
                                "(its own and what its parents held when it was created), in stable priority order"})
    sterms, sidx = [], []
    tterms, tidx = [], []
    for i, (c, o) in enumerate(zip(scases, o_srv)):
        if o.get("err"):
            ck.violation("impl-error:server", {"case": c, "impl_out": o, "clause": "implementation raised"})
            continue
        if c.get("tmode"):
            tterms.append(coq_tcase(c, o))
            tidx.append(i)
            continue
        sterms.append(coq_scase(c, o))
        sidx.append(i)
        if c.get("overlap"):
            if o.get("second") is None:
                ck.violation("impl-error:server", {"case": c, "impl_out": o, "clause": "overlap: no second observation"})
            else:
                sterms.append(coq_scase(c, o["second"]))
                sidx.append(i)
    sbad = ck.eval_cases("scases", HEADER, sterms, "check_scase", shard=600) if sterms else {}
    for j, cls in sorted(sbad.items()):
        c, o = scases[sidx[j]], o_srv[sidx[j]]
        shape = "onerror" if c.get("throw") else "mw%d" % len(c["mws"])
        if c.get("overlap"):
            shape = "overlap:" + shape
        key = "server:%s:clauses=%s" % (shape, "".join(map(str, cls)))
        if not (2 in cls or 4 in cls):
            ck.broken.append("correspondence:C13.server")
        ck.violation(key, {"case": c, "impl_out": o, "clause": [clause_names[x] for x in cls]})
    tbad = ck.eval_cases("tcases", HEADER, tterms, "check_tcase", shard=600) if tterms else {}
    for j, cls in sorted(tbad.items()):
        c, o = scases[tidx[j]], o_srv[tidx[j]]
        thrower = next(("%s%s" % ("class" if m.get("class") else "closure", ":pre" if m.get("tpre") else ":post")
                        for m in c["mws"] if m.get("tpre") or m.get("tpost")), "handler-only")
        key = "server:mw-throw:%s:clauses=%s" % (thrower, "".join(map(str, cls)))
        if not (2 in cls or 4 in cls):
            ck.broken.append("correspondence:C13.server-throw")
        ck.violation(key, {"case": c, "impl_out": o, "clause": [clause_names[x] for x in cls]})
    mterms = []
    for c, o in zip(mcases, o_mw):
        if o.get("err"):
            ck.violation("impl-error:" + c["kind"], {"case": c, "impl_out": o, "clause": "implementation raised"})
        if c["kind"] == "mwscript" and o.get("wh", 0) > 1:
            ck.violation("mw:commit-twice", {"case": c, "impl_out": o, "clause": "commit_at_most_once across middleware layers"})
        es = coq_list("(%s, %d%%nat)" % (coq_z(p), i) for i, p in enumerate(c["prios"]))
        tr = coq_list("(%d%%nat, %d%%nat)" % (a, b) for a, b in (o.get("trace") or []))
        mterms.append("(%s, %s)" % (es, tr))
    mbad = ck.eval_cases("mcases", HEADER, mterms, "check_mcase", shard=1500) if mterms else {}
    for j, cls in sorted(mbad.items()):
        ck.violation("mw:order", {"case": mcases[j], "impl_out": o_mw[j], "clause": "mw_trace / mw_order_*"})

    # ---- coverage numbers (measured)
    distinct = set()
    nontriv = 0
    dist = {}
    for c in cases:
        key = json.dumps(c, sort_keys=True)
        if key in distinct:
            continue
        distinct.add(key)
        kinds = [x[0] for x in c["ops"]]
        commits = [k for k in kinds if k in COMMITTING]
        # non-trivial: something is set before a commit, or something happens after a commit
        if commits and len(kinds) >= 2:
            nontriv += 1
        for k in kinds:
            dist[k] = dist.get(k, 0) + 1
    mdistinct = len(set(json.dumps(c) for c in mcases if len(set(c["prios"])) < len(c["prios"]) or len(c["prios"]) > 1))
    ck.samples = ([cases[len(cases) // 3], cases[-1]] if cases else []) + (mcases[-1:] if mcases else [])
    ck.cov["op_kind_distribution"] = dist
    ck.cov["length_distribution"] = {str(n): sum(1 for c in cases if len(c["ops"]) == n) for n in range(0, 13)}
    ck.cov["modes"] = {m: sum(1 for c in cases if c["mode"] == m) for m in ("go", "script")}
    ck.cov["middleware_cases"] = len(mcases)
    ck.cov["server_cases"] = {"total": len(scases), "onerror": sum(1 for c in scases if c.get("throw")),
                              "with_middleware": sum(1 for c in scases if c["mws"])}
    ck.cov["exhaustive_ops_len"] = 3 if ck.tier == "quick" else 4
    ck.samples += scases[3:4]
    ck.cov["throwing_middleware_cases"] = len(tterms)
    ck.cov["registration_order_cases"] = len(rcases)
    ck.cov["registration_with_groups"] = sum(1 for c in rcases if any(it[0] == "group" for it in c["items"]))
    ck.cov["overlapping_request_cases"] = {"total": sum(1 for c in scases if c.get("overlap")),
                                           "actually_overlapped": sum(1 for c, o in zip(scases, o_srv) if c.get("overlap") and o.get("lapped"))}
    ck.finish(level="proof", evaluations=len(cases) + len(mcases) + len(scases) + len(rcases),
              distinct_nontrivial=nontriv + mdistinct,
              rule="op sequences: all sequences up to the stated length over a 15-op pool (go-level), every single op and ordered pair at script level, seeded random sequences of length 1..12; middleware stacks: all sub-multisets orderings of {-1,0,0,1,5} plus seeded random; non-trivial = distinct sequence with a committing op and at least one other op (ops) / more than one entry (middleware)",
              traces=len(terms) + len(mterms) + len(sterms) + len(rterms) + len(tterms))
