"""C09 — Channel delivers each value exactly once, in sender order, under any schedule.
Proof: coq/C09 (LTS of std/channel/channel.go over a model of a Go chan and an RWMutex; no_crash,
FIFO / exactly-once / per-sender order / after-close for all thread programs and schedules).
Tie: a controlled scheduler (harness/cmd/c09) drives REAL goroutines calling the real Channel through
chosen interleavings, stopping them at op boundaries and at the verif yield points inside Send/Close
(std/channel/verif_yield_on.go); blocking is read off the Go runtime's goroutine states (no timeouts).
Each trace is replayed in the Coq model macro-step by macro-step and the property is evaluated on the
implementation's own events.  Larger configurations: free-running stress under the race detector."""
import itertools
import json
import re
import subprocess
import threading
import vcheck
import vworker
from vcheck import coq_list

HEADER = "From V.C09 Require Import Spec Model Run.\nFrom Coq Require Import ZArith.\n"
OPS = {"send": "OSend", "recv": "ORecv", "close": "OClose", "is": "OIsClosed", "len": "OLen", "cap": "OCap"}


def coq_obs(ev):
    kind = ev[1]
    if kind == "Y":
        return "OY %s" % ("true" if ev[2] == "send" else "false")
    if kind == "P":
        return "OP"
    what = ev[2]
    if what == "sent":
        return "OR (RSent %s)" % ("true" if ev[3] else "false")
    if what == "recv":
        return "OR (RRecv (Some (%d, %d)))" % (ev[3], ev[4])
    if what == "recvnull":
        return "OR (RRecv None)"
    if what == "closed":
        return "OR RClosed"
    if what == "is":
        return "OR (RIs %s)" % ("true" if ev[3] else "false")
    if what == "num":
        return "OR (RNum %d)" % ev[3]
    raise ValueError(ev)


def coq_progs(threads):
    return coq_list(coq_list(OPS[o] for o in t) for t in threads)


def coq_trace(case, tr):
    rounds = []
    for r in tr["rounds"]:
        evs = coq_list("(%d, %s)" % (e[0], coq_obs(e)) for e in r["events"])
        rounds.append("{| r_rel := %d; r_events := %s; r_blocked := %s |}" % (r["rel"], evs, coq_list(str(b) for b in r["blocked"])))
    anyb = bool(tr["rounds"] and tr["rounds"][-1]["blocked"])
    return "{| t_cap := %d; t_progs := %s; t_rounds := %s; t_len := (%d)%%Z; t_anyblocked := %s |}" % (
        case["cap"], coq_progs(case["threads"]), coq_list(rounds), tr.get("len", -1), "true" if anyb else "false")


def coq_stress(case, run):
    return "{| s_progs := %s; s_res := %s |}" % (coq_progs(case["threads"]), coq_list(coq_list(coq_obs(e) for e in t) for t in run))


def run_lines(cmd, lines, timeout=400):
    """one JSON line in, one out; a dead or hanging worker is attributed to its line (vworker)"""
    res = vworker.run_worker(cmd, [json.loads(l) for l in lines], per_case_timeout=timeout)
    return res, 0, ""


def death_violation(ck, mode, case, info):
    ck.violation("worker-death:%s:%s" % (mode, info.get("signature")), {"mode": mode, "case": case, "impl_out": info,
                 "clause": "the engine process died or hung while running this case (no_crash / deadlock)"})


def main(ck):
    rng = ck.rng
    ck.trusted += [
        "Go chan semantics (buffer + queue of parked senders; send/close on a closed channel panic; close wakes parked senders into a panic) and sync.RWMutex as a reader/writer lock — assumed, stated in coq/C09/Model.v",
        "the controlled scheduler harness/cmd/c09 (reads goroutine states from runtime.Stack; one goroutine released at a time) and the verif yield hook std/channel/verif_yield_on.go",
        "the Go memory model and the race detector are not modelled: -race stress is validation/search, not proof",
        "script-level wrappers (channel_methods.go: receive() maps (nil,false) to null) and spawn are not in the model; Construct on a live channel is not modelled (Construct is treated as the constructor: it runs before the channel is shared)",
        "the go/ast lock walker harness/cmd/c10/walker.go (syntactic, fails closed) for the data-race obligation well_locked channel_table",
    ]
    ck.prove()
    binary, _ = ck.go_build("c09")
    racebin, _ = ck.go_build("c09", race=True)
    if binary is None or racebin is None:
        ck.broken.append("harness-build")
        ck.finish(evaluations=0, distinct_nontrivial=0, rule="harness did not build")

    # ---------------------------------------------------------------- data-race clause: regenerated lock table
    # The walker of C10 (harness/cmd/c10, go/ast) reads std/channel/channel.go: per method of *Channel the ordered
    # RWMutex operations and accesses to the struct's fields; `Construct` is the constructor (PHP __construct: it runs
    # before the object is shared), so a field only it writes (`channel`) is immutable afterwards.  The obligation
    # `well_locked channel_table = true` and its instance of the generic race-freedom theorem are re-checked by coqc.
    import os
    wbin, _ = ck.go_build("c10")
    if wbin is None:
        ck.broken.append("harness-build:walker")
    else:
        rc, table = vcheck.sh([wbin, "walk", vcheck.REPO, "std/channel", "Channel", "channel.go", "Construct"])
        if rc != 0 or "Definition vm_fields" not in table:
            ck.log("walker failed:\n" + table[-1500:])
            ck.broken.append("translator:lock-walker(channel.go)")
        else:
            body = table[table.index("Definition vm_fields"):].replace("vm_fields", "channel_fields").replace("vm_map_fields", "channel_map_fields").replace("vm_table", "channel_table")
            pre = "(* GENERATED — lock table of std/channel/channel.go *)\nFrom Coq Require Import List String.\nImport ListNotations.\nFrom V.Common Require Import LockDiscipline.\nOpen Scope string_scope.\n\n"
            obl = os.path.join(ck.bdir, "ChannelLockObligations.v")
            mcl = re.search(r'\((\d+)%nat, "closed"', body)
            closed_ix = mcl.group(1) if mcl else "0"
            open(obl, "w").write(pre + body + "\nSet Printing Width 100000.\n"
                                 "Definition ill := Eval vm_compute in ill_locked channel_table.\nPrint ill.\n"
                                 "Lemma channel_table_well_locked : well_locked channel_table = true.\nProof. vm_compute. reflexivity. Qed.\n"
                                 "Theorem channel_race_free : forall progs sched, Forall (from_table channel_table) progs -> ~ race (LockDiscipline.run (init_state progs) sched).\n"
                                 "Proof. exact (well_locked_race_free_l channel_table channel_table_well_locked). Qed.\n"
                                 "(* check-then-act: the atomic test of `closed` that guards Close's Store+close() sits in the SAME exclusive\n"
                                 "   section as the store (a pre-check outside the lock followed by an unconditional close() under it fails) *)\n"
                                 "Definition cta_ill := Eval vm_compute in cta_bad channel_table.\nPrint cta_ill.\n"
                                 "Lemma channel_check_then_act : check_then_act_ok channel_table = true.\nProof. vm_compute. reflexivity. Qed.\n"
                                 "(* the shape the LTS assumes: Send tests `closed` and sends under the read lock, Close tests, stores and closes\n"
                                 "   under the write lock, IsClosed is one atomic load, Receive/Len/Cap take no lock (`channel` is set by the constructor) *)\n"
                                 "Lemma channel_send_close_shape :\n"
                                 "  In (\"Send\", ARLock :: AARead CL :: ARUnlock :: nil) channel_table /\\ In (\"Close\", ALock :: AARead CL :: AAWrite CL :: AUnlock :: nil) channel_table /\\\n"
                                 "  In (\"IsClosed\", AARead CL :: nil) channel_table /\\ In (\"Receive\", nil) channel_table /\\ In (\"Len\", nil) channel_table /\\ In (\"Cap\", nil) channel_table.\n"
                                 "Proof. vm_compute. repeat split; repeat (try (left; reflexivity); right). Qed.\n".replace("CL", closed_ix) +
                                 "Print Assumptions channel_race_free.\n")
            rc, o = ck.coqc(obl, cwd=ck.bdir, timeout=300)
            ck.obligations += 4
            ck.checker_cmds.append("coqc .build/C09/ChannelLockObligations.v (regenerated from std/channel/channel.go by `c10 walk`)")
            m = re.search(r"(?<![_a-z])ill\s*=\s*\[(.*?)\]\s*:\s*list string", o, re.S)
            ill = re.findall(r'"([^"]+)"', m.group(1)) if m else []
            ck.cov["channel_ill_locked_methods"] = ill
            m = re.search(r"cta_ill\s*=\s*\[(.*?)\]\s*:\s*list string", o, re.S)
            cta_ill = re.findall(r'"([^"]+)"', m.group(1)) if m else []
            ck.cov["channel_check_then_act_outside_one_section"] = cta_ill
            if rc == 0:
                ck.discharged += 4
                ck.theorems += ["channel_table_well_locked", "channel_race_free", "channel_check_then_act", "channel_send_close_shape"]
            else:
                ck.log("regenerated channel lock obligations FAILED; ill-locked: %s; test of `closed` and dependent store not in one exclusive section: %s\n%s" % (ill, cta_ill, o[-1200:]))
                ck.broken.append("obligation:channel_table (ill-locked: %s; check-then-act outside one exclusive section: %s)" % (",".join(ill), ",".join(cta_ill)))
                ck.coq_log_tail = o[-1500:]

    # ---------------------------------------------------------------- controlled schedules
    cases = []
    if ck.replay:
        rp = json.load(open(ck.replay))
        if rp.get("mode") == "sched":
            cases = [rp["case"]]
    else:
        budget = 250 if ck.tier == "quick" else 20000
        shapes = [
            [["send"], ["close"]],
            [["send"], ["recv"], ["close"]],
            [["send", "send"], ["recv", "recv"], ["close"]],
            [["send"], ["send"], ["recv", "recv"], ["close"]],
            [["send", "send"], ["recv"], ["recv"], ["close"]],
            [["send", "is"], ["recv", "recv"], ["close", "close"]],
            [["send", "send", "send"], ["recv", "recv", "recv"], ["is", "close"]],
            [["send"], ["send"], ["recv"], ["recv"], ["close"]],
            # the consumer polls isClosed() before every receive (audit finding 1: this deadlocked when IsClosed took the lock)
            [["send"], ["close"], ["is", "recv"]],
            [["send", "send"], ["close"], ["is", "recv", "is", "recv"]],
            [["send", "len"], ["cap", "recv"], ["len", "close"]],
            # two concurrent closers (seeded C09-3: a closed-test outside the exclusive section lets both reach close()),
            # alone, queued behind a parked sender (cap 0: until the receiver comes; cap>=1: behind send.checked), and with
            # a third closer / a query in between
            [["close"], ["close"]],
            [["send"], ["close"], ["close"]],
            [["send"], ["close"], ["close"], ["recv"]],
            [["send", "send"], ["close"], ["is", "close"], ["recv", "recv"]],
            [["send"], ["close"], ["close"], ["close"], ["recv"]],
        ]
        for cap in ((0, 1, 2) if ck.tier == "quick" else (0, 1, 2, 3, 4)):
            for sh in shapes:
                cases.append({"cap": cap, "threads": sh, "explore": budget})
        # seeded random schedules on the bigger configurations (2 producers x 2 consumers x 1 closer, <= 3 ops each)
        nrand = 500 if ck.tier == "quick" else 8000
        for _ in range(nrand):
            np_, nc = rng.choice([1, 2, 2, 3]), rng.choice([1, 2, 2, 3])
            ths = [["send"] * rng.randint(1, 3) for _ in range(np_)] + \
                  [[rng.choice(["recv", "recv", "recv", "is", "len", "cap"]) for _ in range(rng.randint(1, 3))] for _ in range(nc)] + \
                  [rng.choice([["close"], ["close"], ["is", "close"], ["close", "close"]])]
            if rng.random() < 0.35:          # a second closer thread
                ths.append(rng.choice([["close"], ["is", "close"], ["close", "is"]]))
            n = len(ths)
            choices = [rng.randrange(n) for _ in range(60)]
            # bias: let the closer act right after somebody reached a yield point
            if rng.random() < 0.5:
                for i in range(2, 60, rng.choice([3, 4, 5])):
                    choices[i] = rng.choice([x for x in range(n) if "close" in ths[x]])
            cases.append({"cap": rng.choice([0, 0, 1, 2, 4]), "threads": ths, "choices": choices})
    terms, tmap = [], []
    nsched, complete, incomplete = 0, 0, 0
    skipped = [0]
    if cases:
        # several engine processes in parallel (each case is independent)
        chunks = [cases[i::8] for i in range(8)]
        outs = [None] * len(chunks)

        def work(k):
            # batches with an error budget: once a worker chunk has produced 6 failing cases (hangs cost seconds each)
            # the remaining cases of the chunk are not run -- the findings are already there
            res, errs = [], 0
            for b in range(0, len(chunks[k]), 10):
                part = chunks[k][b:b + 10]
                if errs >= 6:
                    res += [{"traces": [], "skipped": True}] * len(part)
                    skipped[0] += len(part)
                    continue
                r = vworker.run_worker([binary, "sched"], part, per_case_timeout=60, restart_exit_codes=(3,))
                errs += sum(1 for o in r if "worker_death" in o or any(t.get("err") for t in o.get("traces", [])))
                res += r
            outs[k] = res
        ths = [threading.Thread(target=work, args=(k,)) for k in range(len(chunks))]
        for t in ths:
            t.start()
        for t in ths:
            t.join()
        for ch, os_ in zip(chunks, outs):
            for c, o in zip(ch, os_ or [{"worker_death": {"signature": "driver-thread-failed"}}] * len(ch)):
                if "worker_death" in o:
                    death_violation(ck, "sched", c, o["worker_death"])
                    continue
                if o.get("skipped"):
                    continue
                if c.get("explore"):
                    if o.get("complete"):
                        complete += 1
                    else:
                        incomplete += 1
                for tr in o.get("traces", []):
                    nsched += 1
                    if tr.get("err"):
                        ck.violation("sched:engine-error", {"mode": "sched", "case": dict(c, explore=0, choices=tr.get("chosen", [])), "impl_out": tr,
                                                            "clause": "controlled scheduler error: " + tr["err"]})
                        continue
                    terms.append(coq_trace(c, tr))
                    tmap.append((c, tr))
    bad = ck.eval_cases("traces", HEADER, terms, "check_trace", shard=max(100, len(terms) // 32 + 1)) if terms else {}
    cl = {1: "tie: model vs implementation (macro-step replay)", 2: "no_crash(impl): panic", 3: "recv_at_most_once / recv_subset_sent(impl)",
          4: "per_sender_order(impl)", 5: "exactly_once_when_drained(impl)", 6: "after_close(impl)",
          7: "deadlock_shape / queries_never_block(impl): a query call blocked, or a deadlock holding back a receiver"}
    for j, cls in sorted(bad.items(), key=lambda kv: len(tmap[kv[0]][1]["rounds"])):
        c, tr = tmap[j]
        if cls == [1]:
            ck.broken.append("correspondence:C09.sched")
        key = "sched:clauses=%s:cap=%d" % ("".join(map(str, cls)), c["cap"])
        ck.violation(key, {"mode": "sched", "case": {"cap": c["cap"], "threads": c["threads"], "choices": tr.get("chosen", [])},
                           "impl_out": tr["rounds"], "clause": [cl[x] for x in cls]})

    # ---------------------------------------------------------------- free-running stress under the race detector
    stress = []
    if ck.replay:
        rp = json.load(open(ck.replay))
        if rp.get("mode") == "stress":
            stress = [rp["case"]]
    else:
        shapes = [(3, 3, 1), (2, 2, 2), (3, 3, 4), (1, 3, 16), (3, 1, 2), (2, 3, 1)]
        if ck.tier != "quick":
            shapes = [(p, c, g) for p in (1, 2, 3) for c in (1, 2, 3) for g in (1, 2, 4, 16)]
        for (np_, nc, g) in shapes:
            for cap in ((0, 1, 4) if ck.tier == "quick" else (0, 1, 2, 3, 4)):
                k = rng.randint(2, 4)
                total = np_ * k
                per = -(-total // nc) + 1
                ths = [["send"] * k for _ in range(np_)] + [["recv"] * per for _ in range(nc)] + [rng.choice([["close"], ["is", "close"]])]
                if (np_ + nc + g + cap) % 2 == 0:          # every other configuration: two (or three) closers racing
                    ths += [["close"]] * rng.choice([1, 1, 2])
                stress.append({"cap": cap, "threads": ths, "gomaxprocs": g, "repeat": 60 if ck.tier == "quick" else 400})
        for g in (2, 4):
            stress.append({"cap": 1, "threads": [["close"], ["close"], ["close"], ["is", "close"], ["recv"]], "gomaxprocs": g, "repeat": 300 if ck.tier == "quick" else 3000})
    souts, rc, err = run_lines([racebin, "stress"], [json.dumps(c) for c in stress]) if stress else ([], 0, "")
    sterms, smap = [], []
    nfail = 0
    for c, o in zip(stress, souts):
        if "worker_death" in o:
            death_violation(ck, "stress", c, o["worker_death"])
            continue
        if o.get("exit", 0) != 0 or o.get("race") or o.get("fatal"):
            nfail += 1
            fns = sorted(set(re.findall(r"channel\.\(\*Channel\)\.(\w+)", " ".join(o.get("report", [])))))
            kind = "data-race" if o.get("race") else ("fatal" if o.get("fatal") else "exit-%s" % o.get("exit"))
            ck.violation("stress:%s:%s" % (kind, "+".join(fns[:3])), {"mode": "stress", "case": c, "impl_out": {k: o.get(k) for k in ("exit", "race", "fatal", "report")},
                                                                      "clause": "no crash / no data race under free-running goroutines"})
        if o.get("hung"):
            nfail += 1
            ck.violation("stress:hang", {"mode": "stress", "case": c, "impl_out": {"hung_runs": o.get("hung"), "of": c.get("repeat")},
                                         "clause": "a free-running stress program (closer + draining consumers) did not finish within 5 s"})
        runs = [r for r in (o.get("runs") or []) if r]
        for r in runs:          # every repetition is evaluated
            sterms.append(coq_stress(c, r))
            smap.append((c, r))
    sbad = ck.eval_cases("stress", HEADER, sterms, "check_stress", shard=max(50, len(sterms) // 16 + 1)) if sterms else {}
    for j, cls in sorted(sbad.items()):
        c, r = smap[j]
        ck.violation("stress:clauses=%s:cap=%d" % ("".join(map(str, cls)), c["cap"]), {"mode": "stress", "case": dict(c, repeat=200), "impl_out": r,
                                                                                        "clause": [cl.get(x, str(x)) for x in cls]})

    # ---------------------------------------------------------------- script level (spawn + Channel class): validation only
    SCRIPT = """$ch = new Channel(1);
$done = new Channel(0);
$ids = new Channel(3);
$ids->send(1); $ids->send(2); $ids->send(3);
$p = 0;
while ($p < 3) {
    spawn(function() use ($ch, $done, $ids) {
        $id = $ids->receive();
        $k = 0;
        while ($k < 3) { $ch->send($id * 10 + $k); $k = $k + 1; }
        $done->send(1);
    });
    $p = $p + 1;
}
spawn(function() use ($ch, $done) {
    $done->receive(); $done->receive(); $done->receive();
    $ch->close();
});
$out = "";
while (true) {
    if ($ch->isClosed() && $ch->len() == 0) { }
    $v = $ch->receive();
    if ($v === null) { break; }
    $out = $out . $v . ",";
}
echo $out, "|", $ch->isClosed() ? "closed" : "open", "|", $ch->send(5) ? "sent" : "refused", "|", $ch->cap();
"""
    nscript = 0
    if not ck.replay:
        so, rc, err = run_lines([racebin, "script"], [json.dumps({"src": SCRIPT, "repeat": 150 if ck.tier == "quick" else 1500})], timeout=900)
        if so and "worker_death" in so[0]:
            death_violation(ck, "script", {"src": SCRIPT}, so[0]["worker_death"])
        elif not so or "runs" not in so[0]:
            ck.broken.append("harness-run:script")
            ck.log("script engine failed rc=%s\n%s" % (rc, err[-1500:]))
        else:
            for r in so[0]["runs"]:
                nscript += 1
                ok = r["outcome"] == "ok"
                parts = r["out"].strip().split("|")
                if ok and len(parts) == 4:
                    vals = [int(x) for x in parts[0].split(",") if x]
                    # every value exactly once, each producer's values in the order sent, then closed / refused / cap 1
                    ok = sorted(vals) == sorted(i * 10 + k for i in (1, 2, 3) for k in range(3)) and \
                        all([v for v in vals if v // 10 == i] == [i * 10 + k for k in range(3)] for i in (1, 2, 3)) and \
                        parts[1:] == ["closed", "refused", "1"]
                else:
                    ok = False
                if not ok:
                    ck.violation("script:spawn-channel", {"mode": "script", "case": {"src": SCRIPT}, "impl_out": r,
                                                          "clause": "script level (spawn + Channel class): 3 producers x 3 distinct values, closer, consumer polling isClosed()/len(): every value exactly once, per-producer order, then closed|refused|cap"})
                    break
    # spawned producers AND a spawned collector that depend on each other in rounds (main only waits for the report);
    # the number of spawned coroutines is well above 2*GOMAXPROCS and GOMAXPROCS varies (process-level: the engine is
    # started with the GOMAXPROCS environment variable): "spawn runs the closure on a goroutine of its own" must hold
    # however many closures are parked on channel operations (seeded change C09-5: a semaphore of 2*GOMAXPROCS slots)
    def collector_script(P, R):
        return """$ch = new Channel(0);
$report = new Channel(1);
$next = [];
for ($p = 0; $p < %(P)d; $p++) { $next[] = new Channel(0); }
for ($p = 0; $p < %(P)d; $p++) {
    $go = $next[$p];
    spawn(function() use ($ch, $go, $p) {
        for ($r = 0; $r < %(R)d; $r++) { $ch->send($p * 100 + $r); $go->receive(); }
    });
}
spawn(function() use ($ch, $next, $report) {
    $seen = [];
    for ($r = 0; $r < %(R)d; $r++) {
        for ($k = 0; $k < %(P)d; $k++) { $seen[] = $ch->receive(); }
        for ($k = 0; $k < %(P)d; $k++) { $next[$k]->send(true); }
    }
    $ch->close();
    $report->send($seen);
});
$seen = $report->receive();
echo implode(",", $seen), "|", $ch->isClosed() ? "closed" : "open", "|", $ch->receive() === null ? "null" : "value", "|", $ch->send(1) ? "sent" : "refused";
""" % {"P": P, "R": R}
    nspawn = 0
    if not ck.replay or json.load(open(ck.replay)).get("mode") == "spawn":
        if ck.replay:
            cfgs = [tuple(json.load(open(ck.replay))["case"][k] for k in ("gomaxprocs", "producers", "rounds"))]
        else:
            cfgs = [(1, 3, 3), (1, 7, 2), (2, 6, 2), (2, 11, 2), (4, 12, 2), (16, 40, 2)]
            if ck.tier != "quick":
                cfgs += [(g, P, 3) for g in (1, 2, 4, 8, 16) for P in (2 * g + 1, 3 * g + 2, 5 * g)]
        rep = 8 if ck.tier == "quick" else 60
        results = [None] * len(cfgs)

        def spawn_work(k):
            g, P, R = cfgs[k]
            env = dict(os.environ, GOMAXPROCS=str(g))
            results[k] = vworker.run_worker([racebin, "script"], [{"src": collector_script(P, R), "repeat": rep}], per_case_timeout=120, env=env, restart_exit_codes=(3,))[0]
        sth = [threading.Thread(target=spawn_work, args=(k,)) for k in range(len(cfgs))]
        for t in sth:
            t.start()
        for t in sth:
            t.join()
        for (g, P, R), o in zip(cfgs, results):
            case = {"gomaxprocs": g, "producers": P, "rounds": R, "src": collector_script(P, R)}
            if o is None or "worker_death" in o:
                death_violation(ck, "spawn", case, (o or {}).get("worker_death", {"signature": "driver-thread-failed"}))
                continue
            for r in o.get("runs", []):
                nspawn += 1
                parts = r["out"].strip().split("|")
                ok = r["outcome"] == "ok" and len(parts) == 4
                if ok:
                    vals = [int(x) for x in parts[0].split(",") if x]
                    ok = sorted(vals) == sorted(p_ * 100 + r_ for p_ in range(P) for r_ in range(R)) and \
                        all([v % 100 for v in vals if v // 100 == p_] == list(range(R)) for p_ in range(P)) and \
                        parts[1:] == ["closed", "null", "refused"]
                if not ok:
                    kind = "hang" if r["outcome"] == "hang" else "wrong"
                    ck.violation("script:spawned-collector:%s:gomaxprocs=%d" % (kind, g), {"mode": "spawn", "case": case, "impl_out": r,
                                 "clause": "script level: %d spawned producers on an unbuffered Channel + a spawned collector, in %d rounds, GOMAXPROCS=%d: the script finishes (watchdog 8 s), every value exactly once, per-producer order, then closed|null|refused" % (P, R, g)})
                    break
    ck.cov["script_spawned_collector_runs"] = nspawn

    # HOW the spawned producers / consumers are written (seeded changes C09-7, C09-9: closure values and closure
    # expressions shared between spawns): "any number of spawned producers and consumers" must hold whether each
    # spawn gets a closure created afresh (use ($p)), ONE closure value is spawned several times (worker pool; the body
    # counts a by-value captured variable down), the closure has no use clause and takes everything from $this
    # (started from a method on several objects), or it is an arrow-less callable stored in an array.
    def form_script(form, P, K, cap, cons):
        head = "$ch = new Channel(%d);\n$done = new Channel(0);\n$ids = new Channel(%d);\nfor ($p = 1; $p <= %d; $p++) { $ids->send($p); }\n" % (cap, P, P)
        if form == "fresh":
            prod = "for ($p = 1; $p <= %d; $p++) {\n    spawn(function() use ($ch, $done, $p) {\n        for ($i = 1; $i <= %d; $i++) { $ch->send($p * 100 + $i); }\n        $done->send($p);\n    });\n}\n" % (P, K)
        elif form == "pool":
            prod = ("$left = %d;\n$worker = function() use ($ch, $ids, $done, $left) {\n    $id = $ids->receive();\n    $i = 0;\n"
                    "    while ($left > 0) { $i = $i + 1; $ch->send($id * 100 + $i); $left--; }\n    $done->send($id);\n};\n" % K) + "spawn($worker);\n" * P
        elif form == "pool-acc":
            prod = ("$sent = 0;\n$worker = function() use ($ch, $ids, $done, $sent) {\n    $id = $ids->receive();\n"
                    "    while ($sent < %d) { $sent = $sent + 1; $ch->send($id * 100 + $sent); }\n    $done->send($id);\n};\n" % K) + "for ($p = 0; $p < %d; $p++) { spawn($worker); }\n" % P
        elif form == "stored":
            # closures CREATED in a loop (use-by-value $p), stored in an array, SPAWNED after the loop: by then $p has moved on
            prod = ("$workers = [];\nfor ($p = 1; $p <= %d; $p++) {\n    $workers[] = function() use ($ch, $done, $p) {\n        for ($i = 1; $i <= %d; $i++) { $ch->send($p * 100 + $i); }\n        $done->send($p);\n    };\n}\n"
                    "$p = 99;\nforeach ($workers as $w) { spawn($w); }\n") % (P, K)
        elif form == "stored-reassigned":
            # one variable reassigned between the creation of each closure value and the spawns
            prod = "$id = 0;\n" + "".join("$id = %d;\n$w%d = function() use ($ch, $done, $id) {\n    for ($i = 1; $i <= %d; $i++) { $ch->send($id * 100 + $i); }\n    $done->send($id);\n};\n" % (q, q, K) for q in range(1, P + 1)) + \
                   "$id = 77;\n" + "".join("spawn($w%d);\n" % q for q in range(P, 0, -1))
        elif form == "named":
            # spawn accepts closures only: the closure hands its captured values to a NAMED function
            head = "function c09produce($ch, $done, $p, $k) {\n    for ($i = 1; $i <= $k; $i++) { $ch->send($p * 100 + $i); }\n    $done->send($p);\n}\n" + head
            prod = "for ($p = 1; $p <= %d; $p++) {\n    $k = %d;\n    spawn(function() use ($ch, $done, $p, $k) { c09produce($ch, $done, $p, $k); });\n}\n" % (P, K)
        elif form == "object":
            # ... or calls a method of a captured object (one object per producer, created before, spawned after the loop)
            head = ("class Runner {\n    public $id; public $ch; public $done; public $k;\n    function __construct($id, $ch, $done, $k) { $this->id = $id; $this->ch = $ch; $this->done = $done; $this->k = $k; }\n"
                    "    function run() {\n        for ($i = 1; $i <= $this->k; $i++) { $this->ch->send($this->id * 100 + $i); }\n        $this->done->send($this->id);\n    }\n}\n") + head
            prod = ("$objs = [];\nfor ($p = 1; $p <= %d; $p++) { $objs[] = new Runner($p, $ch, $done, %d); }\n"
                    "foreach ($objs as $o) { spawn(function() use ($o) { $o->run(); }); }\n") % (P, K)
        elif form == "method":
            head = ("class Producer {\n    public $id; public $ch; public $done;\n    function __construct($id, $ch, $done) { $this->id = $id; $this->ch = $ch; $this->done = $done; }\n"
                    "    function start() {\n        spawn(function() {\n            for ($i = 1; $i <= %d; $i++) { $this->ch->send($this->id * 100 + $i); }\n            $this->done->send($this->id);\n        });\n    }\n}\n" % K) + head
            prod = "for ($p = 1; $p <= %d; $p++) { $o = new Producer($p, $ch, $done); $o->start(); }\n" % P
        elif form == "method-use":
            head = ("class Producer {\n    public $id; public $ch; public $done;\n    function __construct($id, $ch, $done) { $this->id = $id; $this->ch = $ch; $this->done = $done; }\n"
                    "    function start($k) {\n        spawn(function() use ($k) {\n            for ($i = 1; $i <= $k; $i++) { $this->ch->send($this->id * 100 + $i); }\n            $this->done->send($this->id);\n        });\n    }\n}\n") + head
            prod = "for ($p = 1; $p <= %d; $p++) { $o = new Producer($p, $ch, $done); $o->start(%d); }\n" % (P, K)
        else:
            raise ValueError(form)
        closer = "spawn(function() use ($ch, $done) {\n    for ($k = 0; $k < %d; $k++) { $done->receive(); }\n    $ch->close();\n});\n" % P
        if cons == "main":
            tail = "$got = [];\nwhile (true) { $v = $ch->receive(); if ($v === null) { break; } $got[] = $v; }\n"
        else:
            # a pool of consumers from ONE closure value with a by-value captured quota; the rest is drained by main
            tail = ("$out = new Channel(%d);\n$quota = 2;\n$taker = function() use ($ch, $out, $quota) {\n    while ($quota > 0) { $v = $ch->receive(); if ($v === null) { break; } $out->send($v); $quota--; }\n    $out->send(-1);\n};\n"
                    "spawn($taker); spawn($taker);\n$got = [];\n$fin = 0;\nwhile ($fin < 2) { $v = $out->receive(); if ($v == -1) { $fin = $fin + 1; } else { $got[] = $v; } }\n"
                    "while (true) { $v = $ch->receive(); if ($v === null) { break; } $got[] = $v; }\n") % (P * K + 2)
        return head + prod + closer + tail + 'echo implode(",", $got), "|", $ch->isClosed() ? "closed" : "open", "|", $ch->send(1) ? "sent" : "refused";\n'
    nforms = 0
    if not ck.replay or json.load(open(ck.replay)).get("mode") == "forms":
        if ck.replay:
            fcfgs = [json.load(open(ck.replay))["case"]]
        else:
            fcfgs = []
            for form in ("fresh", "pool", "pool-acc", "method", "method-use", "stored", "stored-reassigned", "named", "object"):
                for (P, K, cap, cons) in [(3, 4, 2, "main"), (3, 4, 0, "main"), (2, 3, 1, "takers"), (4, 2, 0, "main")]:
                    fcfgs.append({"form": form, "producers": P, "sends": K, "cap": cap, "consumers": cons, "gomaxprocs": rng.choice([1, 2, 4, 16])})
        frep = 6 if ck.tier == "quick" else 60
        fres = [None] * len(fcfgs)

        def form_work(k):
            c = fcfgs[k]
            env = dict(os.environ, GOMAXPROCS=str(c["gomaxprocs"]))
            src = form_script(c["form"], c["producers"], c["sends"], c["cap"], c["consumers"])
            fres[k] = vworker.run_worker([racebin, "script"], [{"src": src, "repeat": frep}], per_case_timeout=120, env=env, restart_exit_codes=(3,))[0]
        for b in range(0, len(fcfgs), 8):
            fth = [threading.Thread(target=form_work, args=(k,)) for k in range(b, min(b + 8, len(fcfgs)))]
            for t in fth:
                t.start()
            for t in fth:
                t.join()
        for c, o in zip(fcfgs, fres):
            case = dict(c, src=form_script(c["form"], c["producers"], c["sends"], c["cap"], c["consumers"]))
            if o is None or "worker_death" in o:
                death_violation(ck, "forms", case, (o or {}).get("worker_death", {"signature": "driver-thread-failed"}))
                continue
            P, K = c["producers"], c["sends"]
            for r in o.get("runs", []):
                nforms += 1
                parts = r["out"].strip().split("|")
                ok = r["outcome"] == "ok" and len(parts) == 3
                if ok:
                    try:
                        vals = [int(x) for x in parts[0].split(",") if x]
                    except ValueError:
                        vals = None
                    ok = vals is not None and sorted(vals) == sorted(p_ * 100 + i for p_ in range(1, P + 1) for i in range(1, K + 1)) and parts[1:] == ["closed", "refused"]
                    if ok and c["consumers"] == "main":
                        ok = all([v for v in vals if v // 100 == p_] == [p_ * 100 + i for i in range(1, K + 1)] for p_ in range(1, P + 1))
                if not ok:
                    kind = "hang" if r["outcome"] == "hang" else ("throw" if r["outcome"] != "ok" else "wrong")
                    ck.violation("script:forms:%s:%s:%s" % (c["form"], c["consumers"], kind), {"mode": "forms", "case": case, "impl_out": r,
                                 "clause": "script level, producers written as `%s`, consumers `%s`: %d producers x %d sends -> every value p*100+i exactly once%s, then closed|refused" % (c["form"], c["consumers"], P, K, ", per-producer order" if c["consumers"] == "main" else "")})
                    break
    ck.cov["script_producer_consumer_form_runs"] = nforms
    ck.cov["script_level_runs"] = nscript

    # ---------------------------------------------------------------- evidence
    nblocked = sum(1 for c, tr in tmap if any(r["blocked"] for r in tr["rounds"]))
    nspont = sum(1 for c, tr in tmap if any(len(r["events"]) > 1 for r in tr["rounds"]))
    distinct = len(set(json.dumps([c["cap"], c["threads"], tr.get("chosen")]) for c, tr in tmap))
    ck.cov["schedules_run"] = nsched
    ck.cov["distinct_schedules"] = distinct
    ck.cov["explored_configs_complete"] = complete
    ck.cov["explored_configs_budget_exhausted"] = incomplete
    ck.cov["sched_cases_not_run_after_6_failures_in_a_worker"] = skipped[0]
    ck.cov["schedules_with_blocking"] = nblocked
    ck.cov["schedules_with_spontaneous_wakeups"] = nspont
    ck.cov["rounds_distribution"] = {str(k): sum(1 for c, tr in tmap if len(tr["rounds"]) // 4 * 4 == k) for k in range(0, 40, 4)}
    ck.cov["stress_configs"] = len(stress)
    ck.cov["stress_runs_checked"] = len(sterms)
    ck.cov["stress_failures"] = nfail
    ck.samples = [dict(tmap[len(tmap) // 2][0], chosen=tmap[len(tmap) // 2][1].get("chosen")) if tmap else None]
    ck.finish(level="proof", evaluations=nsched + len(sterms), distinct_nontrivial=sum(1 for c, tr in tmap if len(tr["rounds"]) >= 4 and (any(r["blocked"] for r in tr["rounds"]) or any(len(r["events"]) > 1 for r in tr["rounds"]))),
              rule="controlled schedules: DFS over the scheduler's decision points (op boundaries + the two verif yield points) for 16 thread-program shapes (incl. two and three concurrent closers) x capacities 0,1,2 (thorough: 0..4), at most `budget` schedules per configuration (a configuration whose schedule space exceeds the budget is explored only partially: see explored_configs_budget_exhausted), plus seeded random schedules for 1-3 producers x 1-3 consumers x 1-2 closers with <= 3 ops each over capacities 0..4; stress: free-running goroutines under -race for up to 3 producers x 3 consumers x 1-3 closers, capacities 0..4, GOMAXPROCS 1..16; script level: main-goroutine consumer (150 runs) and spawned producers + spawned collector with GOMAXPROCS 1..16 and more than 2*GOMAXPROCS coroutines (hang watchdog); non-trivial = schedule of >= 4 rounds in which some goroutine blocked or was woken by another's step",
              traces=len(terms) + len(sterms))
