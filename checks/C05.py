"""C05 — first matching catch, finally exactly once, uncaught errors fail the process.
Proof: coq/C05 over the interpreter pair of coq/C02 (which contains try/catch/finally/throw) and C08's
model of the catch-type walks: catch test = declared-hierarchy membership, first accepting clause,
catch variable = the thrown object, finally exactly once (balanced event log) on every exit path,
finally's control overrides, ImplSem = RefSem on the exception fragment, exit-status state machine.
Tie: generated programs (every exit path x handler layout x catch action x finally action enumerated,
identity / rethrow probes, seeded random programs with random exception hierarchies) run in-process on the
real interpreter and on both Coq interpreters; real `origami file` subprocesses for the exit status."""
import importlib.util
import json
import os
import subprocess
import tempfile
import vcheck
from vcheck import coq_string, coq_z

_spec = importlib.util.spec_from_file_location("c02gen", os.path.join(os.path.dirname(os.path.abspath(__file__)), "C02.py"))
G = importlib.util.module_from_spec(_spec)
_spec.loader.exec_module(G)
lit, var, tag = G.lit, G.var, G.tag

HEADER = ("From Coq Require Import List String ZArith.\nFrom V.C02 Require Import Lang Model Spec Wf.\n"
          "From V.C05 Require Import Model Spec Run.\nImport ListNotations.\nOpen Scope string_scope.\n")


def echo(s):
    return ["echo", lit(s)]


def coq_strs(l):
    return "([" + "; ".join(coq_string(x) for x in l) + "] : list string)"


def coq_tables(pr):
    cs = "([" + "; ".join("(%s, %s, %s)" % (coq_string(c[0]), "Some " + coq_string(c[1]), coq_strs(c[2]))
                          for c in pr.get("classes", [])) + "] : list (string * option string * list string))"
    ifs = "([" + "; ".join("(%s, %s)" % (coq_string(i[0]), coq_strs(i[1])) for i in pr.get("ifaces", [])) + \
          "] : list (string * list string))"
    return cs, ifs


def coq_case(pr, out, code):
    cs, ifs = coq_tables(pr)
    return "((%s, %s, %s, %s, %d%%nat) : case)" % (cs, ifs, G.coq_prog(pr), coq_string(G.ascii_only(out)), code)


# ----------------------------------------------------------------------------- enumerated exit paths
CLASSES = [["E1", "Exception", []], ["E2", "E1", []], ["E3", "Exception", ["I1"]], ["E4", "Exception", []]]
IFACES = [["I1", []]]

ACTIONS = ["none", "return", "break", "continue", "throwE1", "throwE2", "throwE3", "throwE4", "panic", "callthrow"]
LAYOUTS = ["nocatch", "E1", "E2E1", "E1E2", "I1Exc", "E4orE1"]
CATCH_ACTIONS = ["none", "rethrow", "thrownew", "return", "break", "continue"]
FINALLY = ["absent", "plain", "return", "throw", "panic", "innerloop"]


def action_stmts(a):
    if a == "none":
        return []
    if a == "return":
        return [["return", lit(1)]]
    if a == "break":
        return [["break", 1]]
    if a == "continue":
        return [["continue", 1]]
    if a.startswith("throwE"):
        return [["throw", ["new", a[5:], lit("m" + a[6:])]]]
    if a == "panic":
        return [["expr", ["assign", "z", ["panic"]]]]
    if a == "callthrow":
        return [["expr", ["call", "thrower", [var("i")]]]]
    raise ValueError(a)


def catch_body(label, ca, user_class):
    b = [echo(label)]
    if user_class:
        b.append(["echo", ["bin", "Concat", ["class", var("e")], ["bin", "Concat", lit("/"), ["msg", var("e")]]]])
    if ca == "rethrow":
        b.append(["throw", var("e")])
    elif ca == "thrownew":
        b.append(["throw", ["new", "E4", lit("fromcatch")]])
    elif ca == "return":
        b.append(["return", lit(2)])
    elif ca == "break":
        b.append(["break", 1])
    elif ca == "continue":
        b.append(["continue", 1])
    return b


def path_program(action, layout, ca, fin):
    catches = []
    if layout == "E1":
        catches = [["E1", "e", catch_body("c1:", ca, True)]]
    elif layout == "E2E1":
        catches = [["E2", "e", catch_body("c2:", ca, True)], ["E1", "e", catch_body("c1:", "none", True)]]
    elif layout == "E1E2":
        catches = [["E1", "e", catch_body("c1:", ca, True)], ["E2", "e", catch_body("c2:", "none", True)]]
    elif layout == "E4orE1":
        catches = [["E4|E1", "e", catch_body("cu:", ca, True)]]
    elif layout == "I1Exc":
        catches = [["I1", "e", catch_body("ci:", ca, True)], ["Exception", None, catch_body("cx:", "none", False)]]
    fb = None
    if fin != "absent":
        fb = [echo("f")]
        if fin == "return":
            fb.append(["return", lit(3)])
        elif fin == "throw":
            fb.append(["throw", ["new", "E4", lit("fromfinally")]])
        elif fin == "panic":
            fb.append(["expr", ["assign", "z", ["panic"]]])          # a Go panic inside finally (of the innermost try)
        elif fin == "innerloop":
            # break / continue inside finally, aimed at a loop that is itself inside the finally block
            fb.append(["for", [["assign", "j", lit(0)]], ["bin", "Lt", var("j"), lit(3)], [["postinc", "j"]],
                       [["if", ["bin", "Eq", var("j"), lit(0)], [["continue", 1]], [], []], tag("j", var("j")),
                        ["if", ["bin", "Eq", var("j"), lit(1)], [["break", 1]], [], []]]])
    body = [echo("t")] + action_stmts(action) + [echo("u")]
    thrower = {"name": "thrower", "params": [["k", None]], "body": [echo("T"), ["throw", ["new", "E2", lit("deep")]], echo("never")]}
    run = {"name": "run", "params": [], "body": [
        ["for", [["assign", "i", lit(0)]], ["bin", "Lt", var("i"), lit(2)], [["postinc", "i"]],
         [echo("["), ["try", body, catches, fb], echo("]")]],
        echo("end"), ["return", lit(7)]]}
    main = [["try", [tag("r=", ["call", "run", []])],
             [["E4", "x", [echo("outer4:"), ["echo", ["msg", var("x")]]]],
              ["Exception", "x", [echo("outerX:"), ["if", ["same", var("x"), var("x")], [echo("self")], [], []]]]],
             [echo("F")]],
            echo("done")]
    return {"classes": CLASSES, "ifaces": IFACES, "funcs": [thrower, run], "main": main}


def identity_programs():
    out = []
    base = {"classes": CLASSES, "ifaces": IFACES, "funcs": []}
    same = lambda a, b, yes, no: ["if", ["same", var(a), var(b)], [echo(yes)], [], [echo(no)]]
    # the catch variable is the thrown object itself; another object of the same class and message is not
    out.append(dict(base, main=[
        ["expr", ["assign", "o", ["new", "E1", lit("same")]]], ["expr", ["assign", "p", ["new", "E1", lit("same")]]],
        ["try", [["throw", var("o")]], [["E1", "e", [same("e", "o", "e=o;", "e!=o;"), same("e", "p", "e=p;", "e!=p;"),
                                                     ["echo", ["class", var("e")]], ["echo", ["msg", var("e")]]]]], None],
        same("o", "p", "o=p", "o!=p")]))
    # the catch variable IS the thrown object: property read and write (seen through the other name), a user method,
    # instanceof (own class, ancestor, interface of an ancestor, unrelated), == with the object, Throwable API still there
    inst = lambda x, T: ["ifinst", x, T, [echo("is-%s;" % T)], [echo("not-%s;" % T)]]
    out.append(dict(base, main=[
        ["expr", ["assign", "o", ["new", "E2", lit("m")]]],
        ["try", [["throw", var("o")]],
         [["E1", "e", [tag("n=", ["prop", var("e")]), ["expr", ["setprop", var("e"), ["bin", "Add", ["prop", var("e")], lit(4)]]],
                       tag(";o.n=", ["prop", var("o")]), tag(";", ["hi", var("e")]), tag(";", ["hi", var("o")]), echo(";"),
                       inst("e", "E2"), inst("e", "E1"), inst("e", "Exception"), inst("e", "Throwable"), inst("e", "I1"), inst("e", "E4"),
                       ["if", ["bin", "Eq", var("e"), var("o")], [echo("eq;")], [], [echo("ne;")]],
                       ["expr", ["assign", "x", ["setprop", var("e"), lit(9)]]], tag("x=", var("x")), tag(";o.n=", ["prop", var("o")]),
                       tag(";msg=", ["msg", var("e")])]]], None],
        ["expr", ["assign", "q", ["new", "E3", lit("z")]]], inst("q", "I1"), inst("q", "E1"),
        ["expr", ["setprop", var("q"), lit(7)]], tag("q.n=", ["prop", var("q")]), tag(";o.n=", ["prop", var("o")])]))
    # property writes in a handler survive rethrow and are seen by the outer handler and after the try
    out.append(dict(base, main=[
        ["expr", ["assign", "o", ["new", "E3", lit("w")]]],
        ["try", [["try", [["throw", var("o")]], [["I1", "e", [["expr", ["setprop", var("e"), lit(2)]], ["throw", var("e")]]]], [echo("f1;")]]],
         [["E3", "e2", [tag("n=", ["prop", var("e2")]), ["expr", ["setprop", var("e2"), ["bin", "Mul", ["prop", var("e2")], lit(5)]]]]]], [echo(";f2;")]],
        tag("o.n=", ["prop", var("o")]), tag(";", ["hi", var("o")])]))
    # errors raised by the interpreter itself are internal errors: catch (Exception | Error | Throwable) takes them, a user
    # class does not; the finally blocks on the way run.  Undefined function, the three named-argument errors, a
    # required parameter not passed
    f3 = {"name": "f3", "params": [["a", [1]], ["b", [2]]], "body": [["return", ["bin", "Add", var("a"), var("b")]]]}
    req = {"name": "req", "params": [["x", None], ["y", [1]]], "body": [["return", var("x")]]}
    raisers = [["call", "nosuch", [lit(1)]], ["calln", "f3", [], [["zz", lit(1)]]], ["calln", "f3", [lit(1)], [["a", lit(2)]]],
               ["calln", "f3", [], [["b", lit(1)], ["b", lit(2)]]], ["calln", "req", [], [["y", lit(2)]]], ["call", "req", []]]
    for T in ("Exception", "Error", "Throwable", "E1"):
        body = []
        for i, rz in enumerate(raisers):
            body.append(["try", [echo("t%d;" % i), ["expr", ["assign", "r", rz]], echo("never")], [[T, "e", [echo("<%s>" % T)]]], [echo("f;")]])
        out.append({"classes": CLASSES, "ifaces": IFACES, "funcs": [f3, req],
                    "main": [["try", body, [["Throwable", None, [echo("outer;")]]], [echo("F")]]]})
    # two catch variables bound to the SAME thrown object are identical (===, !==, ==): the object is held in an ordinary variable and
    # thrown twice, rethrown from a nested try, thrown from a function and from a finally block; a second object of the same class
    # and message stays different
    cmp2 = lambda x, y: [["if", ["same", var(x), var(y)], [echo(" %s===%s" % (x, y))], [], [echo(" %s!==%s" % (x, y))]],
                         ["if", ["not", ["same", var(x), var(y)]], [echo(" N")], [], [echo(" Y")]],
                         ["if", ["bin", "Eq", var(x), var(y)], [echo(" eq")], [], [echo(" ne")]]]
    thrower = {"name": "again", "params": [["o", None]], "body": [["throw", var("o")]]}
    viafin = {"name": "viafin", "params": [["o", None]], "body": [["try", [echo("(t)")], [], [["throw", var("o")]]], ["return", lit(0)]]}
    routes = {"twice": lambda: ["throw", var("o")], "function": lambda: ["expr", ["call", "again", [var("o")]]],
              "finally": lambda: ["expr", ["call", "viafin", [var("o")]]],
              "nested-rethrow": lambda: ["try", [["throw", var("o")]], [["E1", "inner", [["throw", var("inner")]]]], [echo("{f}")]]}
    for r1 in routes:
        for r2 in routes:
            main = [["expr", ["assign", "o", ["new", "E2", lit("same")]]], ["expr", ["assign", "p", ["new", "E2", lit("same")]]],
                    ["try", [routes[r1]()], [["E1", "e", [["expr", ["assign", "first", var("e")]], echo("c1;")]]], None],
                    ["try", [routes[r2]()], [["Exception", "e", [["expr", ["assign", "second", var("e")]], echo("c2;")]]], None]]
            main += cmp2("first", "second") + cmp2("first", "o") + cmp2("second", "first") + cmp2("first", "p")
            main += [["try", [["throw", var("p")]], [["E2", "e3", cmp2("e3", "first") + cmp2("e3", "p")]], None]]
            main += [tag(" n=", ["prop", var("first")]), ["expr", ["setprop", var("second"), lit(8)]], tag(" n=", ["prop", var("first")]), tag(" n=", ["prop", var("o")])]
            out.append(dict(base, funcs=[thrower, viafin], main=main))
    # every exception object has ITS OWN message: several live objects of the same class, of a parent and a child class and of the
    # built-in Exception, read in every order, thrown oldest-first and newest-first (/repo a00cfd0: one message per class)
    mk = lambda x, cl, m: ["expr", ["assign", x, ["new", cl, lit(m)]]]
    objs = [("a", "E1", "ma"), ("b", "E1", "mb"), ("c", "E2", "mc"), ("d", "Exception", "md"), ("e2", "E4", "me")]
    shows = [tag(" %s=" % x, ["msg", var(x)]) for x, _, _ in objs]
    for order in (list(range(5)), [4, 3, 2, 1, 0], [2, 0, 4, 1, 3]):
        throws = []
        for i in order:
            x = objs[i][0]
            throws.append(["try", [["throw", var(x)]], [["Exception", "z", [tag(" <", ["msg", var("z")]), tag(":", ["class", var("z")]),
                                                                     ["if", ["same", var("z"), var(x)], [echo("=")], [], [echo("!")]]]]], None])
        out.append(dict(base, main=[mk(*o) for o in objs] + shows + throws + list(reversed(shows)) + [mk("a", "E1", "again")] + shows))
    # the value of `return $arr` inside try / catch is fixed before finally runs: finally pushes to, overwrites and reassigns the
    # variable; the caller sees the array as it was at the return (/repo 2b13335)
    ret = lambda body: {"name": "r", "params": [["k", None]], "body": body}
    fin = [["push", "arr", lit(3)], ["setidx", "arr", 0, lit(9)], echo("{f}")]
    showarr = lambda: [["expr", ["assign", "got", ["call", "r", [lit(1)]]]], ["foreach", var("got"), "i", "v", [tag(" ", var("i")), tag("=", var("v"))]]]
    mkarr = ["expr", ["assign", "arr", ["arr", [lit(1), lit(2)]]]]
    out.append(dict(base, funcs=[ret([mkarr, ["try", [["return", var("arr")]], [], fin], ["return", lit(0)]])], main=showarr()))
    out.append(dict(base, funcs=[ret([mkarr, ["try", [["throw", ["new", "E1", lit("x")]]], [["E1", "e", [["return", var("arr")]]]], fin], ["return", lit(0)]])], main=showarr()))
    out.append(dict(base, funcs=[ret([mkarr, ["try", [["try", [["return", var("arr")]], [], [["push", "arr", lit(7)], echo("{f1}")]]], [], fin], ["return", lit(0)]])], main=showarr()))
    out.append(dict(base, funcs=[ret([mkarr, ["try", [["return", var("arr")]], [], [["expr", ["assign", "arr", ["arr", [lit(5)]]]], echo("{f}")]], ["return", lit(0)]])], main=showarr()))
    # rethrow keeps class, message and identity through an outer finally
    out.append(dict(base, main=[
        ["expr", ["assign", "o", ["new", "E2", lit("re")]]],
        ["try", [["try", [["throw", var("o")]], [["E1", "e", [echo("inner;"), ["throw", var("e")]]]], [echo("f1;")]]],
         [["E2", "e2", [echo("outer:"), ["echo", ["class", var("e2")]], ["echo", ["msg", var("e2")]], same("e2", "o", ";same", ";different")]],
          ["Exception", "e2", [echo("lost-class")]]], [echo(";f2")]]]))
    # an internal error (Go panic turned into a throw) is catchable as Exception, rethrown it stays catchable,
    # and finally runs on the way
    out.append(dict(base, main=[
        ["try", [["try", [echo("a;"), ["expr", ["assign", "z", ["panic"]]], echo("not;")], [["E1", "e", [echo("wrong;")]]], [echo("f1;")]]],
         [["Exception", "e", [echo("caught;"), ["try", [["throw", var("e")]], [["Exception", "e3", [echo("again;")]]], [echo("f3;")]]]]],
         [echo("f2")]]]))
    # throw from a function two calls deep unwinds through both finally blocks, innermost first
    inner = {"name": "inner", "params": [], "body": [["try", [echo("i1;"), ["throw", ["new", "E3", lit("deep")]]], [], [echo("if;")]], echo("never")]}
    middle = {"name": "middle", "params": [], "body": [["try", [["expr", ["call", "inner", []]]], [["E1", "e", [echo("wrong;")]]], [echo("mf;")]], echo("never")]}
    out.append(dict(base, funcs=[inner, middle], main=[
        ["try", [["expr", ["call", "middle", []]]], [["I1", "e", [echo("by-interface:"), ["echo", ["msg", var("e")]]]]], [echo(";of")]]]))
    # catch (Throwable) takes user exceptions; catch without a variable
    out.append(dict(base, main=[
        ["try", [["throw", ["new", "E4", lit("t")]]], [["Throwable", "e", [echo("throwable:"), ["echo", ["class", var("e")]]]]], None],
        ["try", [["throw", ["new", "E2", lit("t")]]], [["E1", None, [echo(";novar")]]], [echo(";f")]]]))
    # a Go panic inside the finally of an outermost try: an uncaught internal error, not a crash
    out.append(dict(base, main=[echo("a;"), ["try", [echo("t;")], [], [echo("f;"), ["expr", ["assign", "z", ["panic"]]], echo("never")]], echo("never")]))
    out.append(dict(base, main=[["try", [["try", [["throw", ["new", "E1", lit("p")]]], [], [echo("f;"), ["expr", ["assign", "z", ["panic"]]]]]],
                                 [["E1", "e", [echo("wrong;")]], ["Exception", None, [echo("internal;")]]], [echo("F")]]]))
    # uncaught: finally runs, output so far is kept, the script fails
    out.append(dict(base, main=[echo("before;"), ["try", [["throw", ["new", "E1", lit("boom")]]], [["E4", "e", [echo("wrong")]]], [echo("fin;")]], echo("never")]))
    return out


def level_programs():
    """`break N` / `continue N` (N = 2, 3) leaving one or two nested try statements (with and without finally, with a
    catch that must not see the jump) inside two or three nested loops / a switch; every iteration and every finally
    echoes a marker, so a level consumed in the wrong place shows as repeated or missing iterations / finally runs"""
    out = []
    base = {"classes": CLASSES, "ifaces": IFACES, "funcs": []}

    def loop(kind, ctr, body, k=3):
        if kind == "for":
            return [["for", [["assign", ctr, lit(0)]], ["bin", "Lt", var(ctr), lit(k)], [["postinc", ctr]], body]]
        if kind == "while":
            return [["expr", ["assign", ctr, lit(0)]],
                    ["while", ["bin", "Lt", var(ctr), lit(k)], [["expr", ["postinc", ctr]]] + body]]
        if kind == "foreach":
            return [["foreach", ["arr", [lit(x) for x in range(k)]], None, ctr, body]]
        if kind == "dowhile":
            return [["expr", ["assign", ctr, lit(0)]],
                    ["dowhile", [["expr", ["postinc", ctr]]] + body, ["bin", "Lt", var(ctr), lit(k)]]]
        if kind == "switch":
            return [["switch", lit(1), [["case", lit(1), body + [["break", 1]]], ["default", [echo("D")]]]]]
        raise ValueError(kind)

    def wrap_try(body, ntry, fin, tagc):
        for t in range(ntry):
            catches = [["Exception", None, [echo("C%s%d" % (tagc, t))]]] if (t + len(tagc)) % 2 == 0 else []
            f = [echo("f%d" % t)] if fin or not catches else None
            body = [["try", [echo("t%d" % t)] + body + [echo("u%d" % t)], catches, f]]
        return body

    shapes = [("for", "for"), ("while", "for"), ("foreach", "while"), ("for", "switch"), ("dowhile", "foreach")]
    for outer, inner in shapes:
        for third in (None, "for"):
            for jmp in ("break", "continue"):
                for lv in (2, 3):
                    depth = 2 + (1 if third else 0)
                    if lv > depth:
                        continue
                    for ntry in (1, 2):
                        for fin in (True, False):
                            for where in ("inner", "middle"):
                                cond = ["bin", "Eq", var("b"), lit(1)]
                                jump = ["if", cond, [[jmp, lv]], [], []]
                                core = [tag("b", var("b")), jump, echo("x")]
                                if where == "inner":
                                    ib = loop(inner, "b", wrap_try(core, ntry, fin, "i"))
                                    mb = [tag("a", var("a"))] + ib + [echo("y")]
                                else:
                                    # the try statement(s) enclose the whole inner loop: the jump leaves loop and trys
                                    ib = loop(inner, "b", core)
                                    mb = [tag("a", var("a"))] + wrap_try(ib, ntry, fin, "m") + [echo("y")]
                                ob = loop(outer, "a", mb, 2)
                                if third:
                                    ob = loop(third, "c", [tag("c", var("c"))] + ob + [echo("z")], 2)
                                out.append(dict(base, main=ob + [echo("end")]))
    return out


def sequence_programs():
    """ONE try statement (in a loop body, and in a function called repeatedly) handles a SEQUENCE of throws of different
    classes: every ordered pair / triple of thrown classes against clause lists where a later, more general clause
    also accepts what an earlier, more specific clause accepts — the clause chosen must not depend on history"""
    import itertools
    out = []
    layouts = [["E2", "E1", "Exception"], ["E2", "E1"], ["I1", "E4", "Exception"], ["E4|E2", "E1", "Throwable"], ["E3", "I1"]]
    classes = ["E1", "E2", "E3", "E4"]
    seqs = list(itertools.permutations(classes, 2)) + [("E1", "E2", "E1"), ("E4", "E3", "E2", "E1"), ("E1", "E1", "E2", "E2", "E3")]
    for lay in layouts:
        catches = [[ty, "e", [echo("<%s:" % ty), ["echo", ["class", var("e")]], echo(">")]] for ty in lay]
        for seq in seqs:
            pick = ["switch", var("k"), [["case", lit(i), [["throw", ["new", c, lit("m")]]]] for i, c in enumerate(seq)] +
                    [["default", [echo("none")]]]]
            tr = ["try", [tag("k", var("k")), pick, echo("u")], catches, [echo("f;")]]
            inloop = [["try", [["for", [["assign", "k", lit(0)]], ["bin", "Le", var("k"), lit(len(seq))], [["postinc", "k"]], [tr]]],
                       [["Exception", None, [echo("OUT")]]], None], echo("end")]
            out.append({"classes": CLASSES, "ifaces": IFACES, "funcs": [], "main": inloop})
            fn = {"name": "once", "params": [["k", None]], "body": [tr, ["return", var("k")]]}
            calls = []
            for i in range(len(seq) + 1):
                calls.append(["try", [tag("r", ["call", "once", [lit(i)]])], [["Exception", None, [echo("OUT")]]], None])
            out.append({"classes": CLASSES, "ifaces": IFACES, "funcs": [fn], "main": calls + [echo("end")]})
    return out


def reentry_programs():
    """a `return` (from the try block, from a catch block) is pending while the finally block runs, and the finally
    block runs the SAME function again (directly / through a second function / inside a loop), so the same return
    statement completes once more before the pending one does: every call must still return ITS value; a return
    in the finally block overrides also after it recursed; a throw pending while finally recurses stays the same
    throw.  Each call's returned value is echoed."""
    out = []
    n = var("n")
    dec = ["bin", "Sub", n, lit(1)]
    val = lambda: ["bin", "Add", ["bin", "Mul", n, lit(10)], lit(7)]              # depends on the activation
    for via in ("f", "g"):
        g = {"name": "g", "params": [["n", None]], "body": [tag("[g", n), ["return", ["bin", "Add", ["call", "f", [n]], lit(1000)]]]}
        again = lambda: [["if", ["bin", "Gt", n, lit(0)], [["expr", ["assign", "r", ["call", via, [dec]]]], tag(" inner", var("r")), tag("@", n)], [], []]]
        loop_again = lambda: [["for", [["assign", "j", lit(0)]], ["bin", "Lt", var("j"), n], [["postinc", "j"]],
                               [["expr", ["assign", "r", ["call", via, [var("j")]]]], tag(" in", var("r")), tag("@", n)]]]
        variants = {
            "try-return": [["try", [tag("(t", n), ["return", val()]], [], again() + [tag(" f", n)]], ["return", lit(-1)]],
            "catch-return": [["try", [tag("(t", n), ["throw", ["new", "E1", lit("x")]]],
                              [["E1", "e", [tag("<c", n), ["return", val()]]]], again() + [tag(" f", n)]], ["return", lit(-1)]],
            "override": [["try", [["return", val()]], [], [["if", ["bin", "Gt", n, lit(0)],
                          [["expr", ["assign", "r", ["call", via, [dec]]]], ["return", ["bin", "Add", ["bin", "Mul", var("r"), lit(100)], n]]], [], []]]],
                         ["return", lit(-1)]],
            "loop": [["try", [["return", val()]], [], loop_again() + [tag(" f", n)]], ["return", lit(-1)]],
            "nested-try": [["try", [["try", [["return", val()]], [], again() + [tag(" f1:", n)]]], [], again() + [tag(" f2:", n)]], ["return", lit(-1)]],
            "return-expr-call": [["try", [["return", ["bin", "Add", val(), ["call", "id", [n]]]]], [], again() + [tag(" f", n)]], ["return", lit(-1)]],
            "throw-pending": [["try", [["if", ["bin", "Eq", n, lit(2)], [["throw", ["new", "E2", lit("top")]]], [], []], ["return", val()]], [],
                               again() + [tag(" f", n)]], ["return", lit(-1)]],
        }
        ident = {"name": "id", "params": [["x", None]], "body": [["return", var("x")]]}
        for name, body in variants.items():
            f = {"name": "f", "params": [["n", None]], "body": body}
            for depth in (1, 2, 3):
                main = [["try", [tag("R=", ["call", "f", [lit(depth)]]), tag(" again=", ["call", "f", [lit(0)]])],
                         [["E1", "e", [echo("<E1>"), ["echo", ["msg", var("e")]]]]], [echo(" F")]],
                        tag(" flat=", ["call", "f", [lit(0)]])]
                out.append({"classes": CLASSES, "ifaces": IFACES, "funcs": [f, ident] + ([g] if via == "g" else []), "main": main})
    return out


def interpolation_programs():
    """an exception raised INSIDE a string interpolation — "a {$..} b" and heredoc — must reach the enclosing try like any
    other: the raiser is the index of `{$a[..]}` (a throwing function, an undefined function, a Go panic, a refused named
    argument) or a closure call `{$f(..)}`; the string is echoed / assigned / returned from a function / passed as an
    argument; the try has a matching clause, a non-matching one, only a finally; controls without a throw.
    (/repo fcbab56: the interpolated expression was a nested Program, which hands a throw to the uncaught handler.)"""
    out = []
    thr = {"name": "thr", "params": [["k", None]], "body": [tag("<thr", var("k")), ["throw", ["new", "E2", lit("boom")]]]}
    okf = {"name": "okf", "params": [["k", None]], "body": [["return", var("k")]]}
    f3 = {"name": "f3", "params": [["a", [0]]], "body": [["return", var("a")]]}
    show = {"name": "show", "params": [["s", None]], "body": [["echo", var("s")], ["return", lit(1)]]}
    clos = [{"params": [["p", None]], "uses": [], "body": [tag("<clo", var("p")), ["throw", ["new", "E1", lit("fromclo")]]], "arrow": False},
            {"params": [["p", None]], "uses": [], "body": [["return", ["bin", "Add", var("p"), lit(1)]]], "arrow": True}]
    raisers = {"thrower": ["idx", "arr", ["call", "thr", [lit(0)]]], "undefined": ["idx", "arr", ["call", "nosuch", [lit(0)]]],
               "panic": ["idx", "arr", ["panic"]], "named": ["idx", "arr", ["calln", "f3", [], [["zz", lit(1)]]]],
               "closure": ["callv", var("bad"), [lit(1)]], "none-idx": ["idx", "arr", ["call", "okf", [lit(1)]]], "none-clo": ["callv", var("good"), [lit(1)]]}
    layouts = {"match": [["E1", "e", [echo("<E1>")]], ["Exception", "e", [echo("<Ex>")]]], "throwable": [["Throwable", None, [echo("<T>")]]],
               "nomatch": [["E4", "e", [echo("<E4>")]]], "none": []}
    pro = [["expr", ["assign", "arr", ["arr", [lit(10), lit(20)]]]], ["expr", ["assign", "bad", ["closure", 0]]], ["expr", ["assign", "good", ["closure", 1]]]]
    for rn, rz in raisers.items():
        for heredoc in (False, True):
            s_ = ["interp", ["a ", var("arr") if False else ["idx", "arr", lit(0)], " m ", rz, " z"], heredoc]
            uses = {"echo": [["echo", s_]], "assign": [["expr", ["assign", "s", s_]], ["echo", var("s")]],
                    "arg": [["expr", ["call", "show", [s_]]]], "return": [["echo", ["call", "mk", []]]]}
            for un, use in uses.items():
                if heredoc and un in ("arg",):
                    continue
                for ln, lay in layouts.items():
                    if (un != "echo" or heredoc) and ln in ("throwable", "nomatch") and rn not in ("thrower", "closure"):
                        continue
                    mk = {"name": "mk", "params": [], "body": pro + [["try", [["return", s_]], [], [echo("{mkfin}")]]]}
                    inner = ["try", [echo("(t)")] + use + [echo(";after")], lay, [echo("{f}")]]
                    main = pro + [["try", [inner, echo(";next")], [["Exception", None, [echo(";outer")]]], [echo(";F")]]]
                    out.append({"classes": CLASSES, "ifaces": IFACES, "funcs": [thr, okf, f3, show, mk], "closures": clos, "main": main})
    return out


def nesting_programs():
    """a try statement as the SOLE statement of another try's block, catch body or finally body — every combination of
    outer shape (catch / catch+finally / finally) and inner shape (finally / catch / catch+finally), thrown class matched by
    the inner clause, only by the outer clause, by neither; the inner finally plain, returning (inside a function) or
    throwing something else the outer clause matches or not.  The order of the markers tells whether the inner finally ran
    BEFORE the outer handler (two nested statements are not one statement with merged clauses)."""
    out = []
    shapes_outer = {"c": (True, False), "cf": (True, True), "f": (False, True)}
    shapes_inner = {"f": (False, True), "c": (True, False), "cf": (True, True)}
    fin_actions = {"plain": [echo("{if}")], "return": [echo("{if}"), ["return", lit(7)]], "throwE4": [echo("{if}"), ["throw", ["new", "E4", lit("fromfin")]]],
                   "throwE1": [echo("{if}"), ["throw", ["new", "E1", lit("fromfin1")]]]}
    for on, (oc, of) in shapes_outer.items():
        for inn, (ic, if_) in shapes_inner.items():
            for thrown in ("E2", "E3", None):                        # E2: inner catch (E2) / outer catch (E1); E3: neither of those, outer Exception? no: see clauses
                for fa, fbody in fin_actions.items():
                    if not if_ and fa != "plain":
                        continue
                    for where in ("try", "catch", "finally"):
                        if where == "catch" and not oc or where == "finally" and not of:
                            continue
                        if where != "try" and (fa not in ("plain", "throwE4") or thrown is None):
                            continue
                        ibody = [echo("(i)")] + ([["throw", ["new", thrown, lit("m")]]] if thrown else []) + [echo("never" if thrown else ";iend")]
                        inner = ["try", ibody, [["E2", "e", [echo("<iE2>")]]] if ic else [], fbody if if_ else None]
                        ocl = [["E1", "e", [echo("<oE1>"), ["echo", ["msg", var("e")]]]], ["E4", "e", [echo("<oE4>")]]] if oc else []
                        if where == "try":
                            outer = ["try", [inner], ocl, [echo("{of}")] if of else None]
                        elif where == "catch":
                            outer = ["try", [echo("(o)"), ["throw", ["new", "E1", lit("first")]]], [["E1", "x", [inner]]] + ocl[1:], [echo("{of}")] if of else None]
                        else:
                            outer = ["try", [echo("(o)")], ocl, [inner]]
                        f = {"name": "run", "params": [], "body": [outer, echo(";fell"), ["return", lit(1)]]}
                        main = [["try", [tag("R=", ["call", "run", []])], [["Exception", "z", [echo(";top:"), ["echo", ["class", var("z")]]]]], [echo(";F")]]]
                        out.append({"classes": CLASSES, "ifaces": IFACES, "funcs": [f], "main": main})
    return out


def root_name_programs():
    """catch clauses naming the built-in roots and their look-alikes — Error, TypeError|Error, Error|E4, Foo\\Exception,
    Foo\\Error, Foo\\Throwable, Foo\\Bar\\Throwable, ErrorException, TypeError, ArgumentCountError — placed BEFORE the clause that
    really matches (and alone in an inner try, the outer try catching the class), against thrown USER exception objects
    and against internal errors (undefined function): a user exception is an Exception, never an Error, and a namespaced
    class is not a root because of its last segment (/repo e2ad5fe, 83be0a6)."""
    out = []
    first = ["Error", "TypeError|Error", "Error|E4", "Foo\\Exception", "Foo\\Error", "Foo\\Throwable", "Foo\\Bar\\Throwable", "ErrorException",
             "TypeError", "ArgumentCountError", "Exception", "Throwable"]
    raisers = {"E1": ["throw", ["new", "E1", lit("m")]], "E2": ["throw", ["new", "E2", lit("m")]], "E3": ["throw", ["new", "E3", lit("m")]],
               "E4": ["throw", ["new", "E4", lit("m")]], "internal": ["expr", ["call", "nosuch", [lit(1)]]]}
    for rn, rz in raisers.items():
        for fc in first:
            for rest in (["E1", "Exception"], ["Throwable"], []):
                catches = [[ty, "e", [echo("<%s>" % ty.replace("\\", "/"))]] for ty in [fc] + rest]
                inner = ["try", [echo("t;"), rz, echo("never")], catches, [echo(";f")]]
                out.append({"classes": CLASSES, "ifaces": IFACES, "funcs": [],
                            "main": [["try", [inner, echo(";after")], [["Exception", None, [echo(";outer")]]], [echo(";F")]]]})
    return out


def hierarchy_programs():
    """interfaces declared at every level of the extends chain (own class, parent, grandparent) and reached through
    interface-extends chains; the catch clauses are ordered so that a wrong answer of the type test changes which
    clause runs"""
    out = []
    ifaces = [["IA", []], ["IB", ["IA"]], ["IC", []], ["ID", ["IC", "IA"]], ["IE", []]]
    classes = [["G0", "Exception", ["IB"]],        # grandparent declares IB (which extends IA)
               ["P0", "G0", ["IC"]],                # parent declares IC
               ["K0", "P0", ["IE"]],                # the class itself declares IE
               ["K1", "P0", []],                    # sibling without own interfaces
               ["Q0", "Exception", ["ID"]],         # unrelated chain: ID extends IC and IA
               ["Q1", "Q0", []],
               ["Z0", "Exception", []]]
    thrown = ["G0", "P0", "K0", "K1", "Q0", "Q1", "Z0"]
    orders = [["IE", "IC", "IB", "IA", "Exception"], ["IA", "IB", "IC", "IE"], ["IC", "IA"], ["ID", "IB", "G0"],
              ["K0", "IE", "P0", "IC", "G0", "IA"], ["Q0", "IC"], ["IB", "Q1", "Throwable"], ["IE|ID", "IA"], ["Z0", "IC|IB"]]
    for cls in thrown:
        for order in orders:
            catches = [[ty, "e", [echo("<%s>" % ty), ["echo", ["class", var("e")]]]] for ty in order]
            inner = ["try", [echo("t;"), ["throw", ["new", cls, lit("m")]], echo("never")], catches, [echo(";f")]]
            main = [["try", [inner, echo(";after")], [["Exception", None, [echo(";outer")]]], [echo(";F")]]]
            out.append({"classes": classes, "ifaces": ifaces, "funcs": [], "main": main})
    # interface-extends chains 2-5 hops long (J5 -> J4 -> J3 -> J2 -> J1), the long chain as the first, the last and the
    # only parent of a wider interface, implemented by the class itself / its parent; catch by the top, the middle, each hop
    ifaces = [["J1", []], ["J2", ["J1"]], ["J3", ["J2"]], ["J4", ["J3"]], ["J5", ["J4"]], ["S", []],
              ["W1", ["S", "J4"]], ["W2", ["J3", "S"]], ["W3", ["W1"]]]
    classes = [["C5", "Exception", ["J5"]], ["C4", "Exception", ["J4"]], ["C3", "Exception", ["J3"]], ["C2", "Exception", ["J2"]],
               ["CW1", "Exception", ["W1"]], ["CW2", "Exception", ["W2"]], ["CW3", "Exception", ["W3"]], ["CS", "Exception", ["S"]],
               ["D5", "C5", []], ["DW3", "CW3", ["S"]]]
    thrown = ["C5", "C4", "C3", "C2", "CW1", "CW2", "CW3", "CS", "D5", "DW3"]
    orders = [["J1"], ["J2", "J1"], ["J3", "Exception"], ["J5", "J4", "J3", "J2", "J1"], ["W1", "J1"], ["S|J1", "Exception"], ["J4", "S"]]
    for cls in thrown:
        for order in orders:
            catches = [[ty, "e", [echo("<%s>" % ty), ["echo", ["class", var("e")]], ["ifinst", "e", "J1", [echo("+J1")], [echo("-J1")]]]] for ty in order]
            inner = ["try", [echo("t;"), ["throw", ["new", cls, lit("m")]], echo("never")], catches, [echo(";f")]]
            main = [["try", [inner, echo(";after")], [["Exception", None, [echo(";outer")]]], [echo(";F")]]]
            out.append({"classes": classes, "ifaces": ifaces, "funcs": [], "main": main})
    # user types whose NAMES resemble the built-in roots (suffix / prefix / other case of Throwable, Exception, Error): a type
    # test that goes by the spelling of a name instead of the declared hierarchy takes them for the root.  The look-alike
    # clause comes first, the thrown object is unrelated to it (or related, as a control); the right clause / the outer try follows.
    ifaces = [["RetryableThrowable", []], ["Retrythrowable", []], ["FOOTHROWABLE", []], ["ThrowableLike", []], ["NotAThrowable", ["ThrowableLike"]],
              ["AppException", []], ["AnError", []], ["ErrorLike", []]]
    classes = [["DomainThrowable", "Exception", []], ["MyException", "Exception", ["AppException"]], ["ExceptionX", "Exception", []],
               ["MyError", "Exception", ["AnError"]], ["Errorish", "Exception", []], ["Plain", "Exception", []],
               ["Retry", "Exception", ["RetryableThrowable"]], ["SubDomain", "DomainThrowable", ["NotAThrowable"]]]
    lookalikes = ["RetryableThrowable", "Retrythrowable", "FOOTHROWABLE", "ThrowableLike", "NotAThrowable", "DomainThrowable", "AppException",
                  "MyException", "ExceptionX", "AnError", "ErrorLike", "MyError", "Errorish"]
    for cls in ("Plain", "Retry", "SubDomain", "MyError", "ExceptionX"):
        for la in lookalikes:
            for rest in (["Plain", "Exception"], ["Throwable"], []):
                catches = [[ty, "e", [echo("<%s>" % ty), ["echo", ["class", var("e")]]]] for ty in [la] + rest]
                inner = ["try", [echo("t;"), ["throw", ["new", cls, lit("m")]], echo("never")], catches, [echo(";f")]]
                main = [["try", [inner, echo(";after")], [["Exception", None, [echo(";outer")]]], [echo(";F")]]]
                out.append({"classes": classes, "ifaces": ifaces, "funcs": [], "main": main})
    return out


# ----------------------------------------------------------------------------- random programs
class Gen5(G.Gen):
    """C02's typed generator plus try/catch/finally, throw and a random exception hierarchy"""

    def __init__(self, rng):
        super().__init__(rng)
        r = rng
        self.ifaces = []
        for i in range(r.randint(0, 5)):
            ext = [x[0] for x in self.ifaces if r.random() < 0.4]
            if self.ifaces and r.random() < 0.5 and self.ifaces[-1][0] not in ext:
                ext.append(self.ifaces[-1][0])                      # chains: the previous interface is a parent
            self.ifaces.append(["I%d%s" % (i, r.choice(["", "", "", "Throwable", "Exception", "Error", "throwable"])), ext])
        self.classes = []
        for i in range(r.randint(1, 5)):
            parent = "Exception" if not self.classes or r.random() < 0.4 else r.choice(self.classes)[0]
            impls = [x[0] for x in self.ifaces if r.random() < 0.35]
            self.classes.append(["X%d%s" % (i, r.choice(["", "", "", "Throwable", "Exception", "Error"])), parent, impls])
        self.trydepth = 0

    def catch_types(self):
        r = self.rng
        pool = [c[0] for c in self.classes] * 2 + [i[0] for i in self.ifaces] * 2 + ["Exception", "Throwable"]
        return r.sample(pool, min(len(pool), r.choice([0, 1, 1, 2, 3])))

    def new_exc(self):
        r = self.rng
        return ["new", r.choice(self.classes)[0], lit(r.choice(["m", "n", "oops"]))]

    def try_stmt(self, sc, d):
        r = self.rng
        self.trydepth += 1
        body = self.block(sc, d + 1)
        if r.random() < 0.7:
            body.insert(r.randint(0, len(body)), self.thrower(sc))
        catches = []
        tys = list(dict.fromkeys(self.catch_types()))
        if len(tys) >= 2 and r.random() < 0.3:
            users = [t for t in tys if t not in ("Exception", "Throwable")]
            if len(users) >= 2:
                tys = [users[0] + "|" + users[1]] + [t for t in tys if t not in users[:2]]     # catch (A | B $e)
        for ty in tys:
            user = ty not in ("Exception", "Throwable")
            cb = [echo("<%s>" % ty)]
            if user:
                cb.append(["echo", ["bin", "Concat", ["class", var("e")], ["msg", var("e")]]])
                w = r.random()
                if w < 0.25:
                    cb.append(["expr", ["setprop", var("e"), ["bin", "Add", ["prop", var("e")], lit(r.randint(1, 3))]]])
                    cb.append(tag("n", ["prop", var("e")]))
                elif w < 0.4:
                    cb.append(tag("", ["hi", var("e")]))
                elif w < 0.6:
                    T = r.choice([c[0] for c in self.classes] + [i[0] for i in self.ifaces] + ["Exception"])
                    cb.append(["ifinst", "e", T, [echo("+" + T)], [echo("-" + T)]])
            cb += self.block(sc, d + 1, r.randint(0, 2))
            c = r.random()
            if c < 0.15:
                cb.append(["throw", var("e")])
            elif c < 0.25:
                cb.append(["throw", self.new_exc()])
            elif c < 0.4:
                j = self.jump(sc)
                if j:
                    cb.append(j)
            catches.append([ty, "e" if user or r.random() < 0.5 else None, cb])
        fin = None
        if r.random() < 0.7 or not catches:
            fin = [echo("{f%d}" % self.trydepth)] + self.block(dict(sc, depth=0, infunc=False), d + 1, r.randint(0, 1))
            c = r.random()
            if c < 0.08 and sc["infunc"]:
                fin.append(["return", None if sc.get("void") else self.int_expr(sc, 1)])
            elif c < 0.14:
                fin.append(["throw", self.new_exc()])
            elif c < 0.18:
                fin.append(["if", self.bool_expr(sc), [["expr", ["assign", "z", ["panic"]]]], [], []])
        self.trydepth -= 1
        return ["try", [echo("(t)")] + body, catches, fin]

    def thrower(self, sc):
        r = self.rng
        c = r.random()
        if c < 0.6:
            t = ["throw", self.new_exc()]
        elif c < 0.7 and self.trydepth > 0:
            t = ["expr", ["assign", "z", ["panic"]]]
        else:
            j = self.jump(sc)
            t = j if j else ["throw", self.new_exc()]
        return ["if", self.bool_expr(sc), [t], [], []] if r.random() < 0.6 else t

    def stmt(self, sc, d):
        r = self.rng
        if d < 3 and r.random() < 0.16:
            return [self.try_stmt(sc, d)]
        if r.random() < 0.03:
            return [["if", self.bool_expr(sc), [["throw", self.new_exc()]], [], []]]
        return super().stmt(sc, d)

    def program(self):
        pr = super().program()
        pr["classes"] = self.classes
        pr["ifaces"] = self.ifaces
        return pr


# ----------------------------------------------------------------------------- the command line
# ----------------------------------------------------------------------------- long histories (engine only)
def long_history_probes(quick):
    """"first matching catch" and "finally once" must hold on the 1000th throw as on the first: loops of 600-1200
    iterations around a throwing function, method, static method, closure, a method with its own try/finally, and a
    three-frame-deep thrower; iteration i throws E2 (i % 3 == 0), E1 (i % 3 == 1) or returns; each iteration echoes the
    clause that handled it and a finally mark; a final normal call follows.  The expected output is computed by
    repetition: every iteration behaves as the first of its residue class.  Methods are outside the Coq AST, so this
    family is compared with that expected text only."""
    decl = ("class E1 extends Exception {}\nclass E2 extends E1 {}\n"
            "function f($i) { if ($i % 3 == 0) { throw new E2(\"a\"); } if ($i % 3 == 1) { throw new E1(\"b\"); } return $i; }\n"
            "function deep($i, $k) { if ($k > 0) { return deep($i, $k - 1); } return f($i); }\n"
            "class M { public $u = 0;\n  function m($i) { $this->u++; return f($i); }\n  static function s($i) { return f($i); }\n"
            "  function own($i) { if ($i % 3 == 0) { throw new E2(\"a\"); } if ($i % 3 == 1) { throw new E1(\"b\"); } return $i; }\n"
            "  function guarded($i) { try { return $this->own($i); } catch (E2 $e) { return -1; } finally { $this->u += 1000; } } }\n"
            "$o = new M();\n$cl = function ($i) { return f($i); };\n")
    loop = ("for ($i = 0; $i < %d; $i++) {\n  try { $r = %s; echo \"r\"; } catch (E2 $e) { echo \"2\"; } catch (E1 $e) { echo \"1\"; } "
            "catch (Exception $e) { echo \"X:\", get_class($e), \":\", $e->getMessage(); } finally { echo \".\"; }\n}\necho \"|\", %s;\n")
    tok = {0: "2.", 1: "1.", 2: "r."}
    calls = [("function", "f($i)", "f(2)", tok), ("method", "$o->m($i)", "$o->m(2)", tok), ("static", "M::s($i)", "M::s(2)", tok),
             ("closure", "$cl($i)", "$cl(2)", tok), ("deep", "deep($i, 3)", "deep(2, 3)", tok), ("own", "$o->own($i)", "$o->own(2)", tok),
             ("guarded", "$o->guarded($i)", "$o->guarded(2)", {0: "r.", 1: "1.", 2: "r."})]
    out = []
    for n in ((600, 1200) if quick else (600, 900, 1200, 2400)):
        for name, call, final, t in calls:
            src = "<?php\n" + decl + loop % (n, call, final)
            out.append(("%s:%d" % (name, n), src, "".join(t[i % 3] for i in range(n)) + "|2"))
    return out


# ----------------------------------------------------------------------------- malformed try/catch headers (CLI)
class _Bad(Exception):
    pass


class _Thrown(Exception):
    def __init__(self, cls):
        self.cls = cls


MUT_PARENT = {"E1": "Exception", "E2": "E1", "E3": "Exception", "Exception": None}


def _mut_parse(toks):
    """recogniser for the mini-language of the templates: echo STRING ; | throw new NAME ( STRING ) ; | try ... | { ... }
    returns (ast, has_bare_block); raises _Bad when the token list is not a program"""
    pos = [0]
    bare = [False]
    def peek():
        return toks[pos[0]] if pos[0] < len(toks) else None
    def eat(t=None):
        x = peek()
        if x is None or (t is not None and x != t):
            raise _Bad()
        pos[0] += 1
        return x
    def name():
        x = eat()
        if not (x[0].isalpha() and x not in ("try", "catch", "finally", "echo", "throw", "new")):
            raise _Bad()
        return x
    def block():
        eat("{")
        b = []
        while peek() != "}":
            b.append(stmt())
        eat("}")
        return b
    def stmt():
        x = peek()
        if x == "echo":
            eat()
            v = eat()
            if not v.startswith('"'):
                raise _Bad()
            eat(";")
            return ("echo", v.strip('"'))
        if x == "throw":
            eat(); eat("new"); c = name(); eat("("); v = eat()
            if not v.startswith('"'):
                raise _Bad()
            eat(")"); eat(";")
            return ("throw", c)
        if x == "{":
            bare[0] = True
            return ("block", block())
        if x == "try":
            eat()
            b = block()
            cs = []
            while peek() == "catch":
                eat(); eat("(")
                tys = [name()]
                while peek() == "|":
                    eat(); tys.append(name())
                if peek() is not None and peek().startswith("$"):
                    eat()
                eat(")")
                cs.append((tys, block()))
            f = None
            if peek() == "finally":
                eat(); f = block()
            if not cs and f is None:
                raise _Bad()
            return ("try", b, cs, f)
        raise _Bad()
    prog = []
    while peek() is not None:
        prog.append(stmt())
    return prog, bare[0]


def _mut_run(prog):
    """reference behaviour of a program of the mini-language: (stdout, uncaught?)"""
    out = []
    def isa(c, t):
        while c is not None:
            if c == t:
                return True
            c = MUT_PARENT.get(c)
        return t == "Throwable"
    def run(b):
        for st in b:
            if st[0] == "echo":
                out.append(st[1])
            elif st[0] == "throw":
                raise _Thrown(st[1])
            elif st[0] == "block":
                run(st[1])
            else:
                _, body, cs, f = st
                try:
                    try:
                        run(body)
                    except _Thrown as t:
                        for tys, cb in cs:
                            if any(isa(t.cls, ty) for ty in tys):
                                run(cb)
                                break
                        else:
                            raise
                finally:
                    if f is not None:
                        run(f)
    try:
        run(prog)
        return "".join(out), False
    except _Thrown:
        return "".join(out), True


MUT_TEMPLATES = [
    'echo "a;" ; try { echo "t;" ; throw new E2 ( "m" ) ; } catch ( E3 $e ) { echo "c0;" ; } catch ( E1 $e ) { echo "c1;" ; } catch ( E2 | Exception $x ) { echo "c2;" ; } finally { echo "f;" ; } echo "z;" ;',
    'echo "a;" ; try { echo "t;" ; } catch ( E1 $e ) { echo "c1;" ; } echo "z;" ;',
    'echo "a;" ; try { throw new E3 ( "m" ) ; } catch ( E1 | E2 $e ) { echo "c1;" ; } finally { echo "f;" ; } echo "z;" ;',
    'echo "a;" ; try { try { throw new E1 ( "m" ) ; } catch ( E2 $e ) { echo "in;" ; } finally { echo "f1;" ; } } catch ( Exception ) { echo "out;" ; } finally { echo "f2;" ; } echo "z;" ;',
    'try { echo "t;" ; throw new E2 ( "m" ) ; } finally { echo "f;" ; }',
]
MUT_HEADER = {"try", "catch", "finally", "{", "}", "(", ")", "|"}
MUT_DECL = "<?php\nclass E1 extends Exception {}\nclass E2 extends E1 {}\nclass E3 extends Exception {}\n"


def malformed_header_cases():
    """(label, source, verdicts): from each valid template, delete every single token of the try/catch/finally headers (keywords,
    parentheses, type names, `|`, the variable, the braces) and cut the file at every token boundary inside the try statement.
    A mutant that is no longer a program must be a parse error (non-zero exit, nothing run); one that still is a program must
    behave as that program (the mini reference interpreter above); a mutant whose only doubt is a bare `{ }` block may do either."""
    out = []
    seen = set()
    for ti, tpl in enumerate(MUT_TEMPLATES):
        toks = tpl.split(" ")
        first = toks.index("try")
        last = max(i for i, t in enumerate(toks) if t == "}")           # the try statement ends at its last brace
        muts = []
        for i, t in enumerate(toks):
            if i < first or i > last:
                continue
            hdr = t in MUT_HEADER or t.startswith("$") or (t[0].isupper() and toks[i - 1] != "new")
            if t in ("(", ")") and (toks[i - 1] == "E1" or toks[i - 1] == "E2" or toks[i - 1] == "E3") and toks[i - 2] == "new":
                hdr = False                                  # the parentheses of `new E ( "m" )` are not header tokens
            if t == ")" and toks[i - 1].startswith('"'):
                hdr = False
            if hdr:
                muts.append(("del%d" % i, toks[:i] + toks[i + 1:]))
            muts.append(("cut%d" % i, toks[:i + 1]))
        for lab, mt in muts:
            key = " ".join(mt)
            if key in seen or key == tpl:
                continue
            seen.add(key)
            try:
                ast, bare = _mut_parse(mt)
                so, unc = _mut_run(ast)
                verdicts = [(1 if unc else 3, so)] + ([(0, "")] if bare else [])
            except _Bad:
                verdicts = [(0, "")]
            out.append(("t%d:%s" % (ti, lab), MUT_DECL + " ".join(mt) + "\n", verdicts))
    # clause ORDER, duplicates and missing parts: every sequence of up to four clauses drawn from {catch (E1), catch (E2 | Exception),
    # finally} after a try block (and after nothing: a bare catch / finally), for a body that throws E2 and one that does not.  Only
    # `try block, catch*, finally?` with at least one clause is a program; a catch after finally, a second finally, a clause without try
    # are parse errors: non-zero exit, nothing executed.
    import itertools
    clause = {"C1": 'catch ( E1 $e ) { echo "c1;" ; }', "C2": 'catch ( E2 | Exception $x ) { echo "c2;" ; }', "F": 'finally { echo "f;" ; }'}
    for body in ('{ echo "t;" ; throw new E2 ( "m" ) ; }', '{ echo "t;" ; }'):
        for n in range(0, 5):
            for seq in itertools.product(("C1", "C2", "F"), repeat=n):
                for head in (("try " + body), ""):
                    if head == "" and (n == 0 or n > 2):
                        continue
                    text = ('echo "a;" ; ' + head + " " + " ".join(clause[c] for c in seq) + ' echo "z;" ;').replace("  ", " ")
                    if text in seen:
                        continue
                    seen.add(text)
                    mt = text.split(" ")
                    try:
                        ast, bare = _mut_parse(mt)
                        so, unc = _mut_run(ast)
                        verdicts = [(1 if unc else 3, so)] + ([(0, "")] if bare else [])
                    except _Bad:
                        verdicts = [(0, "")]
                    out.append(("order:%s:%s" % ("try" if head else "bare", "".join(seq) or "-"), MUT_DECL + text + "\n", verdicts))
    return out


def cli_cases():
    """(kind, arg, source, expected stdout): kind 0 parse error, 1 uncaught, 2 exit(arg), 3 normal end"""
    out = []
    bad = ["function ( {", "if ($a { echo 1; }", "class { }", "foreach ($a as) { }", "echo 1;\nfunction f($) { }",
           "$x = ;\nfunction g( { }", "try { echo 1; } catch { }", "switch ($a) { foo }"]
    for b in bad:
        out.append((0, 0, "<?php\necho \"shown-only-if-run;\";\n" + b + "\n", ""))
    unc = ["throw new Exception(\"boom\");", "function f() { throw new Exception(\"in f\"); }\nf();",
           "class E extends Exception {}\ntry { throw new E(\"x\"); } finally { echo \"fin;\"; }",
           "try { throw new Exception(\"a\"); } catch (Exception $e) { echo \"c;\"; throw $e; }",
           "undefined_function_xyz();", "ob_start();\necho \"buffered;\";\nthrow new Exception(\"b\");"]
    exp = ["out;", "out;", "out;fin;", "out;c;", "out;", "out;buffered;"]
    for u, e in zip(unc, exp):
        out.append((1, 0, "<?php\necho \"out;\";\n" + u + "\necho \"never\";\n", e))
    for n in (0, 1, 3, 42, 255, 256, 300):
        out.append((2, n, "<?php\necho \"out;\";\nexit(%d);\necho \"never\";\n" % n, "out;"))
    out.append((2, 4, "<?php\nob_start();\necho \"buffered;\";\nexit(4);\n", "buffered;"))
    out.append((1, 0, "<?php\nob_start();\necho \"a;\";\nob_start();\necho \"b;\";\nthrow new Exception(\"nested\");\n", "a;b;"))
    out.append((2, 5, "<?php\nfunction f() { try { exit(5); } finally { echo \"nofinally\"; } }\necho \"a;\";\nf();\n", "a;"))
    for body, e in (("echo \"plain;\";", "plain;"), ("ob_start();\necho \"buffered;\";", "buffered;"),
                    ("try { throw new Exception(\"x\"); } catch (Exception $e) { echo \"c;\"; } finally { echo \"f;\"; }", "c;f;"),
                    ("function f() { return 1; }\necho f();", "1"), ("", ""),
                    ("ob_start();\necho \"a;\";\nob_start();\necho \"b;\";\n$x = ob_get_clean();\necho \"c;\" . $x;", "a;c;b;"),
                    ("ob_start();\necho \"a;\";\nob_start();\necho \"b;\";\nob_start();\necho \"c;\";", "a;b;c;")):
        out.append((3, 0, "<?php\n" + body + "\n", e))
    # more than one file ("#--file:NAME" starts another file next to the script); the script that was named does not exist
    badinc = "\n#--file:inc_bad.php\n<?php\nfunction ( {\n"
    out.append((1, 0, "<?php\necho \"out;\";\ninclude \"inc_bad.php\";\necho \"never\";" + badinc, "out;"))
    out.append((3, 0, "<?php\necho \"out;\";\ntry { include \"inc_bad.php\"; } catch (Throwable $e) { echo \"caught;\"; }\n"
                      "echo \"after;\";" + badinc, "out;caught;after;"))
    out.append((1, 0, "<?php\necho \"out;\";\nrequire \"missing_file.php\";\necho \"never\";\n", "out;"))
    out.append((1, 0, "<?php\necho \"out;\";\ninclude \"inc_throw.php\";\necho \"never\";\n#--file:inc_throw.php\n<?php\necho \"inc;\";\n"
                      "throw new Exception(\"from the included file\");\n", "out;inc;"))
    out.append((0, 0, None, None))                                      # no such script: nothing runs (stdout is the usage text)
    # a shutdown callback runs after the end and may itself fail
    out.append((1, 0, "<?php\nregister_shutdown_function(function() { echo \"shut;\"; throw new Exception(\"in shutdown\"); });\n"
                      "echo \"out;\";\n", "out;shut;"))
    out.append((3, 0, "<?php\nregister_shutdown_function(function() { echo \"shut;\"; });\necho \"out;\";\n", "out;shut;"))
    out.append((1, 0, "<?php\nregister_shutdown_function(function() { echo \"shut;\"; });\necho \"out;\";\nthrow new Exception(\"x\");\n", "out;shut;"))
    out.append((2, 3, "<?php\nregister_shutdown_function(function() { echo \"shut;\"; });\necho \"out;\";\nexit(3);\n", "out;shut;"))
    out.append((2, 7, "<?php\nregister_shutdown_function(function() { echo \"s1;\"; exit(7); });\n"
                      "register_shutdown_function(function() { echo \"s2;\"; });\necho \"out;\";\n", "out;s1;"))
    out.append((1, 0, "<?php\nob_start();\nregister_shutdown_function(function() { echo \"s1;\"; throw new Exception(\"in s1\"); });\n"
                      "echo \"out;\";\nexit(2);\n", "out;s1;"))
    # a return pending while finally runs the same METHOD on a child object (cleanup cascade) and a static method recursing
    out.append((3, 0, "<?php\nclass R { public $n; public $c; function __construct($n, $c = null) { $this->n = $n; $this->c = $c; }\n"
                      "  function close() { try { return \"closed \" . $this->n; } finally { echo \"f:\", $this->n, \";\"; "
                      "if ($this->c !== null) { $r = $this->c->close(); echo \"child:\", $r, \";\"; } } }\n"
                      "  static function down($k) { try { throw new Exception(\"k$k\"); } catch (Exception $e) { return \"ret \" . $e->getMessage(); } "
                      "finally { if ($k > 0) { echo \"in:\", R::down($k - 1), \";\"; } } } }\n"
                      "$t = new R(\"outer\", new R(\"middle\", new R(\"inner\")));\necho $t->close(), \"|\", R::down(2);\n",
                "f:outer;f:middle;f:inner;child:closed inner;child:closed middle;closed outer|in:in:ret k0;ret k1;ret k2"))
    # the same object caught twice has one spl_object_id and is === through both catch variables
    out.append((3, 0, "<?php\nclass E extends Exception {}\n$o = new E(\"m\"); $p = new E(\"m\");\n"
                      "try { throw $o; } catch (E $e) { $first = $e; }\ntry { throw $o; } catch (Exception $e) { $second = $e; }\n"
                      "try { throw $p; } catch (E $e) { $third = $e; }\n"
                      "echo ($first === $second) ? \"same;\" : \"diff;\", ($first !== $second) ? \"N;\" : \"Y;\", ($first == $second) ? \"eq;\" : \"ne;\", "
                      "(spl_object_id($first) === spl_object_id($second)) ? \"id=;\" : \"id!;\", (spl_object_id($first) === spl_object_id($o)) ? \"ido=;\" : \"ido!;\", "
                      "($first === $third) ? \"same3;\" : \"diff3;\", (spl_object_id($first) === spl_object_id($third)) ? \"id3=;\" : \"id3!;\";\n",
                "same;Y;eq;id=;ido=;diff3;id3!;"))
    # catch clauses naming an undeclared class / a fully qualified built-in
    out.append((3, 0, "<?php\necho \"out;\";\ntry { throw new Exception(\"x\"); } catch (Undeclared $e) { echo \"wrong;\"; } "
                      "catch (\\Exception $e) { echo \"ns;\"; }\ntry { throw new Exception(\"y\"); } catch (\\Throwable $e) { echo \"thr;\"; }\n",
                "out;ns;thr;"))
    out.append((1, 0, "<?php\necho \"out;\";\ntry { throw new Exception(\"x\"); } catch (Undeclared $e) { echo \"wrong;\"; } finally { echo \"f;\"; }\n",
                "out;f;"))
    return out


def run_cli(binary, cases, ck):
    res = []
    d = tempfile.mkdtemp(prefix="c05cli", dir=ck.bdir)
    for i, (kind, arg, src, exp) in enumerate(cases):
        path = os.path.join(d, "s%d.php" % i)
        if src is not None:
            parts = src.split("\n#--file:")
            open(path, "w").write(parts[0] + "\n")
            for extra in parts[1:]:
                name, _, body = extra.partition("\n")
                open(os.path.join(d, name), "w").write(body)
        try:
            p = subprocess.run([binary, path], stdout=subprocess.PIPE, stderr=subprocess.PIPE, text=True, timeout=30, cwd=d,
                               stdin=subprocess.DEVNULL)
            res.append({"code": p.returncode, "stdout": p.stdout, "stderr_nonempty": bool(p.stderr.strip()),
                        "stderr": p.stderr[-300:]})
        except subprocess.TimeoutExpired:
            res.append({"code": -1, "stdout": "", "stderr_nonempty": False, "stderr": "timeout"})
    return res


def main(ck):
    rng = ck.rng
    ck.trusted += [
        "the interpreter pair, its operators and frames are C02's (coq/C02; same assumptions as evidence/C02.json)",
        "the catch-type walk is C08's model (coq/C08/Model.v catch_matches) and its theorems catch_reach / catch_throwable / is_ab_is_a",
        "a Go-level panic is produced by verif_panic(), a built-in registered by harness/cmd/c05 whose Go body writes to a nil map "
        "(every script-reachable panic found so far has been repaired); the model treats EPanic as an internal error thrown at "
        "that point (what TryStatement.guarded makes of it)",
        "object identity: a counter in the global state; getMessage/get_class are observed only on user exception objects; "
        "properties, a user method, instanceof and == are observed on the caught object (heap in the global state)",
        "CLI: os.Exit, process exit status truncation to 8 bits and stderr are the operating system's; modelled as a 4-state table",
        "harness/cmd/c05 (in-process engine, vrun.RunStringWith), checks/C02.py printers + checks/C05.py generators",
        "not modelled (CLI table only): getCode/getTrace/getPrevious, set_exception_handler; shutdown callbacks and included files appear "
        "only as CLI cases (exit status, diagnostic, output kept), not in the Coq interpreters",
    ]
    ck.prove(deps=["C02", "C08"])
    binary, out = ck.go_build("c05")
    if binary is None:
        ck.broken.append("harness-build")
        ck.finish(evaluations=0, distinct_nontrivial=0, rule="harness did not build")

    cases = []      # (program, family)
    if ck.replay:
        rp = json.load(open(ck.replay))
        c = rp.get("case")
        if c and "prog" in c:
            cases.append((c["prog"], c.get("family", "replay")))
    else:
        for a in ACTIONS:
            for lay in LAYOUTS:
                for ca in (CATCH_ACTIONS if lay != "nocatch" else ["none"]):
                    for f in FINALLY:
                        if lay == "nocatch" and f == "absent":
                            continue                      # try without catch and finally does not parse
                        cases.append((path_program(a, lay, ca, f), "paths:%s:%s:%s:%s" % (a, lay, ca, f)))
        for pr in identity_programs():
            cases.append((pr, "identity"))
        for pr in level_programs():
            cases.append((pr, "levels"))
        for pr in hierarchy_programs():
            cases.append((pr, "hierarchy"))
        for pr in sequence_programs():
            cases.append((pr, "sequences"))
        for pr in reentry_programs():
            cases.append((pr, "reentry"))
        for pr in interpolation_programs():
            cases.append((pr, "interpolation"))
        for pr in nesting_programs():
            cases.append((pr, "nesting"))
        for pr in root_name_programs():
            cases.append((pr, "rootnames"))
        nrand = 250 if ck.tier == "quick" else 4000
        discarded = 0
        while nrand > 0:
            pr = Gen5(rng).program()
            if not G.Probe(pr).acceptable():
                discarded += 1
                continue
            cases.append((pr, "random"))
            nrand -= 1
        ck.cov["random_programs_discarded_by_magnitude_filter"] = discarded
        cases.sort(key=lambda c: G.size_of(c[0]))

    progs = [c[0] for c in cases]
    srcs, obs = G.run_impl(binary, progs, ck)
    terms, idxmap, outcome_hist = [], [], {}
    for i, (c, o) in enumerate(zip(cases, obs)):
        oc = o["outcome"] if o else "missing"
        outcome_hist[oc] = outcome_hist.get(oc, 0) + 1
        if oc == "skipped":
            continue
        if oc not in ("ok", "throw"):
            ck.violation("impl-%s:%s" % (oc, c[1].split(":")[0]),
                         {"case": {"prog": c[0], "family": c[1]}, "php": srcs[i], "impl_out": o,
                          "clause": "implementation did not run the program (%s)" % oc})
            continue
        terms.append(coq_case(c[0], o["out"], 0 if oc == "ok" else 1))
        idxmap.append(i)
    bad = ck.eval_cases("cases", HEADER, terms, "check_case", shard=70)
    names = {1: "ImplSem (model) vs implementation", 2: "RefSem (spec) vs implementation — impl_refines_ref_exn / first_catch / finally_once",
             3: "generated program is not wf", 4: "generated class table is not well-formed", 5: "model out of fuel",
             6: "generated program is outside the clean fragment"}
    for j, cls in sorted(bad.items()):
        i = idxmap[j]
        pr, fam = cases[i]
        replay = {"case": {"prog": pr, "family": fam}, "php": srcs[i], "impl_out": obs[i], "clause": [names[x] for x in cls]}
        if ck.replay or len(ck.violations) < 3:
            replay["coq"] = ck.eval_print(HEADER, "show_case %s %s %s" % (coq_tables(pr) + (G.coq_prog(pr),)))
        famkey = fam if fam.startswith("paths") else fam + ":" + G.classify(pr)
        if any(x in cls for x in (3, 4, 5, 6)):
            ck.broken.append("generator:" + ",".join(str(x) for x in cls))
            ck.violation("generator:" + famkey, replay)
        elif 1 in cls:
            ck.broken.append("correspondence:C05.ImplSem")
            ck.violation(("impl-vs-spec:" if 2 in cls else "tie-only:") + famkey, replay)
        else:
            ck.violation("impl-vs-spec:" + famkey, replay)

    # ---- long histories: engine only, expected text computed by repetition
    longs = [] if ck.replay and not (json.load(open(ck.replay)).get("case") or {}).get("long_history") else long_history_probes(ck.tier == "quick")
    if ck.replay and longs:
        longs = [x for x in longs if x[0] == json.load(open(ck.replay))["case"]["long_history"]]
    if longs:
        lsrcs, lres = G.run_impl(binary, None, ck, srcs=[x[1] for x in longs])
        for (name, src, exp), o in zip(longs, lres):
            if o.get("outcome") != "ok" or o.get("out") != exp:
                got = o.get("out") or ""
                k = next((i for i in range(min(len(got), len(exp))) if got[i] != exp[i]), min(len(got), len(exp)))
                ck.violation("long-history:%s" % name.split(":")[0],
                             {"case": {"long_history": name}, "php": src, "impl_out": {"outcome": o.get("outcome"), "detail": o.get("detail"),
                              "out_around_first_difference": got[max(0, k - 30):k + 80], "first_difference_at": k, "expected_there": exp[max(0, k - 30):k + 30]},
                              "clause": "first matching catch / finally once, after a long history of throws (every iteration behaves as the first)"})
    ck.cov["long_history_probes"] = len(longs)

    # ---- the command line, real subprocesses
    cli = []
    cli_res = []
    if not ck.replay or "cli" in (json.load(open(ck.replay)).get("case") or {}):
        obin, o2 = ck.build_origami()
        if obin is None:
            ck.broken.append("origami-build")
        else:
            cli = cli_cases()
            # malformed try/catch/finally headers: the verdict list of a mutant is resolved after the run (a mutant that is
            # still a program only through a bare block may also be refused)
            cli += [(ver, 0, src, None) for _lab, src, ver in malformed_header_cases()]
            if ck.replay:
                cli = [tuple(json.load(open(ck.replay))["case"]["cli"])]
            cli_res = run_cli(obin, cli, ck)
            for j, ((kind, arg, src, exp), r) in enumerate(zip(cli, cli_res)):
                if isinstance(kind, list):
                    pick = kind[0]
                    for k2, e2 in kind:
                        if k2 == 0 and r["code"] != 0 and r["stdout"] == "":
                            pick = (k2, e2)
                    cli[j] = (pick[0], arg, src, pick[1])
            cterms = []
            for (kind, arg, src, exp), r in zip(cli, cli_res):
                kept = exp is None or r["stdout"] == exp
                cterms.append("((%d%%nat, (%d)%%Z, (%d)%%Z, %s, %s) : cli_case)" % (
                    kind, arg, r["code"], "true" if r["stderr_nonempty"] else "false", "true" if kept else "false"))
            cbad = ck.eval_cases("cli", HEADER, cterms, "check_cli", shard=200)
            cn = {1: "exit status", 2: "diagnostic on stderr", 3: "earlier output kept / nothing after the end"}
            kinds = {0: "parse-error", 1: "uncaught", 2: "exit", 3: "normal"}
            for j, cls in sorted(cbad.items()):
                kind, arg, src, exp = cli[j]
                ck.violation("cli:%s:%s" % (kinds[kind], "+".join(cn[x].split()[0] for x in cls)),
                             {"case": {"cli": [kind, arg, src, exp]}, "impl_out": cli_res[j], "expected_stdout": exp,
                              "clause": ["exit_status: " + cn[x] for x in cls]})

    # ---- measured coverage
    dist, fams, seen, nontriv = {}, {}, set(), 0
    for pr, fam in cases:
        k = G.kinds_of(pr, {})
        for kk, v in k.items():
            dist[kk] = dist.get(kk, 0) + v
        f0 = fam.split(":")[0]
        fams[f0] = fams.get(f0, 0) + 1
        s = json.dumps(pr, sort_keys=True)
        if s not in seen:
            seen.add(s)
            if k.get("try"):
                nontriv += 1
    ck.cov["construct_occurrences"] = dist
    ck.cov["families"] = fams
    ck.cov["impl_outcomes"] = outcome_hist
    ck.cov["cli_cases"] = len(cli)
    ck.cov["cli_exit_codes_seen"] = sorted(set(r["code"] for r in cli_res))
    sizes = sorted(G.size_of(c[0]) for c in cases)
    ck.cov["program_size_median"] = sizes[len(sizes) // 2] if sizes else 0
    ck.samples = ([srcs[len(srcs) // 2], srcs[-1]] if srcs else []) + ([cli[0][2]] if cli and cli[0][2] else [])
    ck.finish(level="proof", evaluations=len(cases) + len(cli), distinct_nontrivial=nontriv + len(cli),
              rule="programs: every combination of try-block exit (none, return, break, continue, throw of 4 classes, Go panic, throw from a "
                   "callee) x catch layout (none, one, specific-then-general, general-then-specific, interface-then-Exception, union A|B) x catch "
                   "action (none, rethrow, throw new, return, break, continue) x finally (absent, plain, return, throw, Go panic, loop with break/continue inside), each inside a loop inside "
                   "a function inside an outer try (nesting 2); identity / rethrow / unwinding probes; break N / continue N (N = 2, 3) leaving 1-2 nested trys in 2-3 nested loops/switch; sequences of throws of different classes through ONE try statement (in a loop, in a function called repeatedly; 5 clause lists x 15 sequences); hierarchy probes (interface declared by the class, its parent or grandparent, interface-extends chains, 9 clause orders x 7 thrown classes); seeded random typed programs with "
                   "1-5 exception classes and 0-2 interfaces, try nesting <= 3; CLI: real subprocesses over parse errors, uncaught "
                   "throwables, exit(n), normal end, with and without open output buffers; non-trivial = distinct program containing a try / a CLI case",
              traces=len(terms) + len(cli))
