"""C02 — control flow and function calls follow the reference semantics.
Proof: coq/C02 (ImplSem = model of node/*.go, RefSem = reference semantics with statically
resolved loop targets, refinement theorem on wf ∧ clean programs, fast-path soundness, frames).
Tie: a seeded typed program generator prints every program twice — as PHP source for the real
interpreter (harness/cmd/c02, in-process, fresh VM per program) and as a Coq term; ImplSem and
RefSem are evaluated on it by vm_compute and all three outputs are compared."""
import json
import os
import subprocess
import vcheck
from vcheck import coq_string, coq_z

HEADER = ("From Coq Require Import List String ZArith.\nFrom V.C02 Require Import Lang Model Spec Wf Run.\n"
          "Import ListNotations.\nOpen Scope string_scope.\n")

# ----------------------------------------------------------------------------- AST helpers
# expressions: ["lit", int|str|None] ["var", x] ["bin", op, a, b] ["not", a] ["and", a, b] ["or", a, b]
#              ["assign", x, e] ["postinc", x] ["arr", [e...]] ["call", f, [e...]] ["calln", f, [e...], [[name, e]...]]
#              ["interp", [str | e ...], heredoc?]  an interpolated string "s{$e}s" / heredoc: printed so in PHP, a Concat chain in Coq;
#                                                   the expression parts must begin with a variable ($x, $a[e], $f(e), $o->n, $o->hi())
# statements:  ["expr", e] ["echo", e] ["push", x, e] ["if", c, then, [[c, blk]...], else]
#              ["while", c, blk] ["dowhile", blk, c] ["for", [e..], c, [e..], blk]
#              ["foreach", e, k|None, v, blk] ["switch", e, [["case", e, blk] | ["default", blk]]]
#              ["break", n] ["continue", n] ["return", e|None] ["static", x, lit]
# a block is a python list of statements.

OPS = {"Add": "+", "Sub": "-", "Mul": "*", "Lt": "<", "Le": "<=", "Gt": ">", "Ge": ">=", "Eq": "==", "Ne": "!=",
       "Concat": "."}


_CLOS = []


def php_lit(v):
    if v is None:
        return "null"
    if isinstance(v, bool):
        return "true" if v else "false"
    if isinstance(v, int):
        return str(v)
    return '"' + v + '"'


def php_expr(e, top=False):
    k = e[0]
    if k == "lit":
        return php_lit(e[1])
    if k == "var":
        return "$" + e[1]
    if k == "bin":
        s = "%s %s %s" % (php_expr(e[2]), OPS[e[1]], php_expr(e[3]))
        return s if top else "(" + s + ")"
    if k == "not":
        return "!(" + php_expr(e[1], True) + ")"
    if k == "and":
        return "(%s && %s)" % (php_expr(e[1]), php_expr(e[2]))
    if k == "or":
        return "(%s || %s)" % (php_expr(e[1]), php_expr(e[2]))
    if k == "assign":
        s = "$%s = %s" % (e[1], php_expr(e[2], True))
        return s if top else "(" + s + ")"
    if k == "postinc":
        return "$%s++" % e[1] if top else "($%s++)" % e[1]
    if k == "arr":
        return "[" + ", ".join(php_expr(x, True) for x in e[1]) + "]"
    if k == "call":
        return "%s(%s)" % (e[1], ", ".join(php_expr(x, True) for x in e[2]))
    if k == "interp":
        body = "".join(x if isinstance(x, str) else "{%s}" % php_expr(x, True) for x in e[1])
        if len(e) > 2 and e[2]:
            return "<<<EOT\n%s\nEOT" % body
        return '"%s"' % body
    if k == "calln":
        return "%s(%s)" % (e[1], ", ".join([php_expr(x, True) for x in e[2]] + ["%s: %s" % (n, php_expr(x, True)) for n, x in e[3]]))
    if k == "new":
        return "new %s(%s)" % (e[1], php_expr(e[2], True))
    if k == "msg":
        return "%s->getMessage()" % php_expr(e[1])
    if k == "class":
        return "get_class(%s)" % php_expr(e[1], True)
    if k == "same":
        return "(%s === %s)" % (php_expr(e[1]), php_expr(e[2]))
    if k == "prop":
        return "%s->n" % php_expr(e[1])
    if k == "setprop":
        t = "%s->n = %s" % (php_expr(e[1]), php_expr(e[2], True))
        return t if top else "(" + t + ")"
    if k == "hi":
        return "%s->hi()" % php_expr(e[1])
    if k == "panic":
        return "verif_panic()"      # registered by harness/cmd/c05: a built-in whose Go body panics
    if k == "idx":
        return "$%s[%s]" % (e[1], php_expr(e[2], True))
    if k == "idxinc":
        t = "$%s[%s]" % (e[2], php_expr(e[3], True))
        t = "++" + t if e[1] else t + "++"
        return t if top else "(" + t + ")"
    if k == "closure":
        c = _CLOS[e[1]]
        ps = ", ".join("$" + x + ("" if d is None else " = " + php_lit(d[0])) for x, d in c["params"])
        if c.get("arrow"):
            return "fn(%s) => %s" % (ps, php_expr(c["body"][0][1]))
        use = " use (%s)" % ", ".join("$" + x for x in c["uses"]) if c["uses"] else ""
        return "function (%s)%s {\n%s}" % (ps, use, php_block(c["body"], 2))
    if k == "callv":
        return "%s(%s)" % (php_expr(e[1]), ", ".join(php_expr(x, True) for x in e[2]))
    if k == "match":
        arms = ["%s => %s" % (", ".join(php_expr(c) for c in cs), php_expr(x)) for cs, x in e[2]]
        if e[3] is not None:
            arms.insert(min(e[4], len(arms)), "default => %s" % php_expr(e[3]))
        return "match (%s) { %s }" % (php_expr(e[1], True), ", ".join(arms))
    raise ValueError(k)


def php_block(b, ind):
    out, i = "", 0
    while i < len(b):
        s = b[i]
        if s[0] == "static" and len(s) > 3:
            # ["static", x, lit, "joined"]: printed with the following static declarations as ONE statement
            group = [s]
            while group[-1][0] == "static" and len(group[-1]) > 3 and i + 1 < len(b) and b[i + 1][0] == "static":
                i += 1
                group.append(b[i])
            out += "  " * ind + "static " + ", ".join("$%s = %s" % (g[1], php_lit(g[2])) for g in group) + ";\n"
        else:
            out += php_stmt(s, ind)
        i += 1
    return out


def php_stmt(s, ind=0):
    p = "  " * ind
    k = s[0]
    if k == "expr":
        return p + php_expr(s[1], True) + ";\n"
    if k == "echo":
        return p + "echo " + php_expr(s[1], True) + ";\n"
    if k == "push":
        return p + "$%s[] = %s;\n" % (s[1], php_expr(s[2], True))
    if k == "setidx":
        return p + "$%s[%d] = %s;\n" % (s[1], s[2], php_expr(s[3], True))
    if k == "if":
        out = p + "if (%s) {\n%s%s}" % (php_expr(s[1], True), php_block(s[2], ind + 1), p)
        for c, b in s[3]:
            out += " elseif (%s) {\n%s%s}" % (php_expr(c, True), php_block(b, ind + 1), p)
        if s[4]:
            out += " else {\n%s%s}" % (php_block(s[4], ind + 1), p)
        return out + "\n"
    if k == "while":
        return p + "while (%s) {\n%s%s}\n" % (php_expr(s[1], True), php_block(s[2], ind + 1), p)
    if k == "dowhile":
        return p + "do {\n%s%s} while (%s);\n" % (php_block(s[1], ind + 1), p, php_expr(s[2], True))
    if k == "for":
        return p + "for (%s; %s; %s) {\n%s%s}\n" % (
            ", ".join(php_expr(x, True) for x in s[1]), "" if s[2] == ["lit", True] else php_expr(s[2], True),
            ", ".join(php_expr(x, True) for x in s[3]), php_block(s[4], ind + 1), p)
    if k == "foreach":
        kv = ("$%s => $%s" % (s[2], s[3])) if s[2] else "$" + s[3]
        return p + "foreach (%s as %s) {\n%s%s}\n" % (php_expr(s[1], True), kv, php_block(s[4], ind + 1), p)
    if k == "switch":
        out = p + "switch (%s) {\n" % php_expr(s[1], True)
        for cl in s[2]:
            if cl[0] == "case":
                out += p + "  case %s:\n%s" % (php_expr(cl[1], True), php_block(cl[2], ind + 2))
            else:
                out += p + "  default:\n%s" % php_block(cl[1], ind + 2)
        return out + p + "}\n"
    if k == "break":
        return p + ("break;\n" if s[1] == 1 else "break %d;\n" % s[1])
    if k == "continue":
        return p + ("continue;\n" if s[1] == 1 else "continue %d;\n" % s[1])
    if k == "return":
        return p + ("return;\n" if s[1] is None else "return %s;\n" % php_expr(s[1], True))
    if k == "static":
        return p + "static $%s = %s;\n" % (s[1], php_lit(s[2]))
    if k == "try":
        out = p + "try {\n%s%s}" % (php_block(s[1], ind + 1), p)
        for ty, x, b in s[2]:
            out += " catch (%s%s) {\n%s%s}" % (ty.replace("|", " | "), "" if x is None else " $" + x, php_block(b, ind + 1), p)
        if s[3] is not None:
            out += " finally {\n%s%s}" % (php_block(s[3], ind + 1), p)
        return out + "\n"
    if k == "throw":
        return p + "throw %s;\n" % php_expr(s[1], True)
    if k == "ifinst":
        out = p + "if ($%s instanceof %s) {\n%s%s}" % (s[1], s[2], php_block(s[3], ind + 1), p)
        if s[4]:
            out += " else {\n%s%s}" % (php_block(s[4], ind + 1), p)
        return out + "\n"
    raise ValueError(k)


def php_prog(pr):
    global _CLOS
    _CLOS = pr.get("closures", [])
    out = "<?php\n"
    for i in pr.get("ifaces", []):
        out += "interface %s%s {}\n" % (i[0], (" extends " + ", ".join(i[1])) if i[1] else "")
    for c in pr.get("classes", []):
        # classes derived directly from Exception declare the public property and the user method the
        # identity observations use; their subclasses inherit both
        body = ' public $n = 1; function hi() { return "hi" . $this->n; } ' if c[1] == "Exception" else ""
        out += "class %s extends %s%s {%s}\n" % (c[0], c[1], (" implements " + ", ".join(c[2])) if c[2] else "", body)
    fs = ""
    for f in pr["funcs"]:
        ps = ", ".join("$" + x + ("" if d is None else " = " + php_lit(d[0])) for x, d in f["params"])
        fs += "function %s(%s) {\n%s}\n" % (f["name"], ps, php_block(f["body"], 1))
    if pr.get("funcs_last"):
        return out + php_block(pr["main"], 0) + fs          # top-level declarations are hoisted
    return out + fs + php_block(pr["main"], 0)


def coq_value(v):
    if v is None:
        return "VNull"
    if isinstance(v, bool):
        return "(VBool %s)" % ("true" if v else "false")
    if isinstance(v, int):
        return "(VInt %s)" % coq_z(v)
    return "(VStr %s)" % coq_string(v)


def coq_args(es):
    out = "ANil"
    for e in reversed(es):
        out = "(ACons %s %s)" % (coq_expr(e), out)
    return out


def coq_expr(e):
    k = e[0]
    if k == "lit":
        return "(ELit %s)" % coq_value(e[1])
    if k == "var":
        return "(EVar %s)" % coq_string(e[1])
    if k == "bin":
        return "(EBin %s %s %s)" % (e[1], coq_expr(e[2]), coq_expr(e[3]))
    if k == "not":
        return "(ENot %s)" % coq_expr(e[1])
    if k == "and":
        return "(EAnd %s %s)" % (coq_expr(e[1]), coq_expr(e[2]))
    if k == "or":
        return "(EOr %s %s)" % (coq_expr(e[1]), coq_expr(e[2]))
    if k == "assign":
        return "(EAssign %s %s)" % (coq_string(e[1]), coq_expr(e[2]))
    if k == "postinc":
        return "(EPostInc %s)" % coq_string(e[1])
    if k == "arr":
        return "(EArr %s)" % coq_args(e[1])
    if k == "call":
        return "(ECall %s %s)" % (coq_string(e[1]), coq_args(e[2]))
    if k == "interp":
        parts = [lit(x) if isinstance(x, str) else x for x in e[1]]
        acc = parts[0] if isinstance(e[1][0], str) else ["bin", "Concat", lit(""), parts[0]]
        for x in parts[1:]:
            acc = ["bin", "Concat", acc, x]
        return coq_expr(acc)
    if k == "calln":
        return "(ECallN %s %s [%s] %s)" % (coq_string(e[1]), coq_args(e[2]), "; ".join(coq_string(n) for n, _ in e[3]),
                                          coq_args([x for _, x in e[3]]))
    if k == "new":
        return "(ENew %s %s)" % (coq_string(e[1]), coq_expr(e[2]))
    if k == "msg":
        return "(EMsg %s)" % coq_expr(e[1])
    if k == "class":
        return "(EClass %s)" % coq_expr(e[1])
    if k == "same":
        return "(ESame %s %s)" % (coq_expr(e[1]), coq_expr(e[2]))
    if k == "prop":
        return "(EProp %s)" % coq_expr(e[1])
    if k == "setprop":
        return "(ESetProp %s %s)" % (coq_expr(e[1]), coq_expr(e[2]))
    if k == "hi":
        return "(EHi %s)" % coq_expr(e[1])
    if k == "panic":
        return "EPanic"
    if k == "idx":
        return "(EIdx %s %s)" % (coq_string(e[1]), coq_expr(e[2]))
    if k == "idxinc":
        return "(EIdxInc %s %s %s)" % ("true" if e[1] else "false", coq_string(e[2]), coq_expr(e[3]))
    if k == "closure":
        return "(EClosure %d)" % e[1]
    if k == "callv":
        return "(ECallV %s %s)" % (coq_expr(e[1]), coq_args(e[2]))
    if k == "match":
        m = "MNil" if e[3] is None else "(MDefault %s)" % coq_expr(e[3])
        for cs, x in reversed(e[2]):
            m = "(MCons %s %s %s)" % (coq_args(cs), coq_expr(x), m)
        return "(EMatch %s %s)" % (coq_expr(e[1]), m)
    raise ValueError(k)


def coq_block(b):
    if not b:
        return "SSkip"
    if len(b) == 1:
        return coq_stmt(b[0])
    return "(SSeq %s %s)" % (coq_stmt(b[0]), coq_block(b[1:]))


def coq_stmt(s):
    k = s[0]
    if k == "expr":
        return "(SExpr %s)" % coq_expr(s[1])
    if k == "echo":
        return "(SEcho %s)" % coq_expr(s[1])
    if k == "push":
        return "(SPush %s %s)" % (coq_string(s[1]), coq_expr(s[2]))
    if k == "setidx":
        return "(SSetIdx %s %s %s)" % (coq_string(s[1]), coq_z(s[2]), coq_expr(s[3]))
    if k == "if":
        ei = "EINil"
        for c, b in reversed(s[3]):
            ei = "(EICons %s %s %s)" % (coq_expr(c), coq_block(b), ei)
        return "(SIf %s %s %s %s)" % (coq_expr(s[1]), coq_block(s[2]), ei, coq_block(s[4]))
    if k == "while":
        return "(SWhile %s %s)" % (coq_expr(s[1]), coq_block(s[2]))
    if k == "dowhile":
        return "(SDoWhile %s %s)" % (coq_block(s[1]), coq_expr(s[2]))
    if k == "for":
        return "(SFor %s %s %s %s)" % (coq_args(s[1]), coq_expr(s[2]), coq_args(s[3]), coq_block(s[4]))
    if k == "foreach":
        return "(SForeach %s %s %s %s)" % (coq_expr(s[1]), "None" if s[2] is None else "(Some %s)" % coq_string(s[2]),
                                           coq_string(s[3]), coq_block(s[4]))
    if k == "switch":
        cl = "CLNil"
        for c in reversed(s[2]):
            if c[0] == "case":
                cl = "(CLCase %s %s %s)" % (coq_expr(c[1]), coq_block(c[2]), cl)
            else:
                cl = "(CLDefault %s %s)" % (coq_block(c[1]), cl)
        return "(SSwitch %s %s)" % (coq_expr(s[1]), cl)
    if k == "break":
        return "(SBreak %d)" % s[1]
    if k == "continue":
        return "(SContinue %d)" % s[1]
    if k == "return":
        return "(SReturn %s)" % ("None" if s[1] is None else "(Some %s)" % coq_expr(s[1]))
    if k == "static":
        return "(SStatic %s %s)" % (coq_string(s[1]), coq_value(s[2]))
    if k == "try":
        cs = "CTNil"
        for tys, x, b in reversed(s[2]):
            # catch (A | B $e) { S }  is  catch (A $e) { S } catch (B $e) { S }
            for ty in reversed(tys.split("|")):
                cs = "(CTCons %s %s %s %s)" % (coq_string(ty), "None" if x is None else "(Some %s)" % coq_string(x), coq_block(b), cs)
        return "(STry %s %s %s)" % (coq_block(s[1]), cs, coq_block(s[3] or []))
    if k == "throw":
        return "(SThrow %s)" % coq_expr(s[1])
    if k == "ifinst":
        return "(SIfInst %s %s %s %s)" % (coq_string(s[1]), coq_string(s[2]), coq_block(s[3]), coq_block(s[4]))
    raise ValueError(k)


def coq_prog(pr):
    fs = []
    for f in pr["funcs"]:
        ps = "[" + "; ".join("(%s, %s)" % (coq_string(x), "None" if d is None else "Some " + coq_value(d[0]))
                             for x, d in f["params"]) + "]"
        fs.append("{| fname := %s; fparams := %s; fbody := %s |}" % (coq_string(f["name"]), ps, coq_block(f["body"])))
    cl = []
    for c in pr.get("closures", []):
        ps = "[" + "; ".join("(%s, %s)" % (coq_string(x), "None" if d is None else "Some " + coq_value(d[0]))
                             for x, d in c["params"]) + "]"
        us = "[" + "; ".join(coq_string(x) for x in c["uses"]) + "]"
        cl.append("{| cparams := %s; cuses := %s; cbody := %s |}" % (ps, us, coq_block(c["body"])))
    return "{| funcs := [%s]; closures := [%s]; main := %s |}" % ("; ".join(fs), "; ".join(cl), coq_block(pr["main"]))


def size_of(x):
    if isinstance(x, list):
        return 1 + sum(size_of(y) for y in x)
    if isinstance(x, dict):
        return sum(size_of(v) for v in x.values())
    return 0


def kinds_of(x, acc):
    if isinstance(x, list):
        if x and isinstance(x[0], str) and x[0] in STMT_KINDS | EXPR_KINDS:
            acc[x[0]] = acc.get(x[0], 0) + 1
            if x[0] in ("break", "continue") and x[1] > 1:
                acc[x[0] + "N"] = acc.get(x[0] + "N", 0) + 1
        for y in x:
            kinds_of(y, acc)
    elif isinstance(x, dict):
        for v in x.values():
            kinds_of(v, acc)
    return acc


NESTING = {"if", "while", "dowhile", "for", "foreach", "switch", "try", "ifinst"}
LOOPS = {"while", "dowhile", "for", "foreach"}


def nesting_of(x, kinds):
    """deepest nesting of statements of the given kinds inside x (measured, for the evidence)"""
    if isinstance(x, list):
        inner = max([nesting_of(y, kinds) for y in x] + [0])
        return inner + (1 if x and isinstance(x[0], str) and x[0] in kinds else 0)
    if isinstance(x, dict):
        return max([nesting_of(v, kinds) for v in x.values()] + [0])
    return 0


STMT_KINDS = {"expr", "echo", "push", "setidx", "if", "while", "dowhile", "for", "foreach", "switch", "break", "continue",
              "return", "static", "try", "throw", "ifinst"}
EXPR_KINDS = {"assign", "postinc", "call", "calln", "interp", "and", "or", "not", "arr", "new", "msg", "class", "same", "panic", "match", "idx", "idxinc", "closure", "callv", "prop", "setprop", "hi"}


# ----------------------------------------------------------------------------- generator
def ascii_only(s):
    """the engine's output as it goes into the Coq term: generated programs print ASCII only, anything else (an
    interpreter message that leaked into the output) is kept as '?' and shows up as a difference"""
    return s.encode("ascii", "replace").decode("ascii")


def lit(n):
    return ["lit", n]


def var(x):
    return ["var", x]


def tag(s, e):
    return ["echo", ["bin", "Concat", lit(s), e]]


class Gen:
    """typed generator: int variables, one string variable, one array variable per scope; every
    loop has a dedicated counter that the body never assigns, so every program terminates"""

    def __init__(self, rng, clean=True):
        self.rng = rng
        self.clean = clean
        self.funcs = []          # generated fundefs (name, nparams, nrequired)
        self.closures = []       # closure table of the program
        self.label = 0

    def lab(self):
        self.label += 1
        return "%s%d:" % (self.rng.choice("abcdefgh"), self.label)

    # ---- expressions
    def int_expr(self, sc, d=0):
        r = self.rng
        c = r.random()
        ivars = sc["ints"]
        if d >= 2 or c < 0.3:
            if ivars and r.random() < 0.65:
                return var(r.choice(ivars))
            return lit(r.randint(0, 6))
        if c < 0.75:
            op = r.choice(["Add", "Add", "Sub", "Mul"])
            return ["bin", op, self.int_expr(sc, d + 1), self.int_expr(sc, d + 1)]
        if c < 0.9 and sc["callable"]:
            return self.call(sc, d)
        if c < 0.94 and sc.get("clos"):
            return self.call_closure(sc, d)
        if c < 0.97 and sc.get("arr_min", 0) > 0:
            return ["idx", sc["arr"], lit(r.randrange(sc["arr_min"]))]
        if ivars:
            return var(r.choice(ivars))
        return lit(r.randint(0, 6))

    def call(self, sc, d, procs=False):
        r = self.rng
        pool = sc["procs"] if procs else sc["callable"]
        cands = [c for c in pool if not (c[3] and sc["depth"] > 0)]   # no self-call inside a loop
        if not cands:
            return lit(r.randint(0, 6))
        name, npar, nreq, rec, isrec, _void = r.choice(cands)
        nargs = r.randint(nreq, npar) + (1 if r.random() < 0.12 else 0)      # sometimes one argument too many
        args = [self.int_expr(sc, d + 2) for _ in range(nargs)]
        if rec:
            # recursive call from inside the function: first argument strictly decreases
            args[0] = ["bin", "Sub", var(sc["recvar"]), lit(1)]
        elif isrec:
            args[0] = lit(r.randint(0, isrec))
        if name.startswith("f") and nargs <= npar and r.random() < 0.22:
            # named arguments (the parameters of f<i> are n, a, b): a positional prefix, then a subset of the remaining
            # parameters that contains the required ones, by name, in any order
            pn = ["n", "a", "b"][:npar]
            npos = r.randint(0, nargs)
            rest = [i for i in range(npos, npar) if i < nreq or (i < nargs) or r.random() < 0.4]
            r.shuffle(rest)
            named = [[pn[i], args[i] if i < nargs else self.int_expr(sc, d + 2)] for i in rest]
            c = r.random()
            if c < 0.03 and named:
                named.append([named[0][0], lit(1)])                  # Error: the name is used twice
            elif c < 0.06:
                named.append(["zz", lit(1)])                         # Error: unknown named parameter
            elif c < 0.09 and npos > 0:
                named.insert(r.randint(0, len(named)), [pn[0], lit(1)])   # Error: overwrites a positional argument
            return ["calln", name, args[:npos], named]
        return ["call", name, args]

    def bool_expr(self, sc, d=0):
        r = self.rng
        c = r.random()
        if d >= 2 or c < 0.6:
            op = r.choice(["Lt", "Le", "Gt", "Ge", "Eq", "Ne"])
            a = self.int_expr(sc, d + 1)
            b = lit(r.randint(0, 6)) if r.random() < 0.5 else self.int_expr(sc, d + 1)
            return ["bin", op, a, b]
        if c < 0.7:
            return ["not", self.bool_expr(sc, d + 1)]
        if c < 0.85:
            return ["and", self.bool_expr(sc, d + 1), self.bool_expr(sc, d + 1)]
        return ["or", self.bool_expr(sc, d + 1), self.bool_expr(sc, d + 1)]

    def str_expr(self, sc):
        r = self.rng
        base = var(sc["str"]) if sc.get("str_init") and r.random() < 0.4 else lit(r.choice(["p", "q", "r", "st"]))
        if r.random() < 0.6:
            return ["bin", "Concat", base, self.int_expr(sc, 1)]
        return base

    # ---- statements
    def assign(self, sc):
        r = self.rng
        x = r.choice(sc["assignable"])
        c = r.random()
        ivars = sc["ints"]
        if c < 0.15 and ivars:
            rhs = var(r.choice(ivars))                                   # VarFastAssign copy
        elif c < 0.3:
            rhs = lit(r.randint(0, 9))                                   # int literal
        elif c < 0.55 and ivars:
            op = r.choice(["Add", "Mul"])                                # fast add / mul
            a = var(r.choice(ivars)) if r.random() < 0.7 else lit(r.randint(0, 4))
            b = var(r.choice(ivars)) if r.random() < 0.5 else lit(r.randint(0, 4))
            rhs = ["bin", op, a, b]
        else:
            rhs = self.int_expr(sc)
        if x not in sc["ints"]:
            sc["ints"].append(x)
        return ["expr", ["assign", x, rhs]]

    def make_closure(self, sc):
        """a closure (or arrow function) over int parameters that captures some of the scope's int variables by value;
        its body is a small block of its own scope ending in return (closures that run off their end are a known finding)"""
        r = self.rng
        npar = r.randint(1, 2)
        pnames = ["p", "q"][:npar]
        nreq = r.randint(1, npar)
        params = [[x, None if i < nreq else [r.randint(0, 4)]] for i, x in enumerate(pnames)]
        uses = r.sample(sc["ints"], min(len(sc["ints"]), r.randint(0, 2)))
        uses = [u for u in uses if u not in pnames]
        inner = self.new_scope(True, pnames + uses)
        inner["callable"] = [c for c in sc["callable"] if not c[3]]
        inner["procs"] = []
        arrow = r.random() < 0.35
        if arrow:
            body = [["return", self.int_expr(inner, 1)]]
        else:
            body = self.prologue(inner)
            if r.random() < 0.3:
                body += [["static", "cs", 0], ["expr", ["assign", "cs", ["bin", "Add", var("cs"), lit(1)]]]]
                inner["ints"].append("cs")
            if uses and r.random() < 0.5:
                body.append(["expr", ["assign", uses[0], ["bin", "Add", var(uses[0]), lit(1)]]])   # writes stay local
            body += self.block(inner, 2, r.randint(0, 2))
            body.append(["return", self.int_expr(inner)])
        self.closures.append({"params": params, "uses": uses, "body": body, "arrow": arrow})
        return len(self.closures) - 1, npar, nreq

    def closure_stmt(self, sc):
        r = self.rng
        cid, npar, nreq = self.make_closure(sc)
        self.nclo = getattr(self, "nclo", 0) + 1
        name = "fn%d" % self.nclo
        sc.setdefault("clos", []).append((name, npar, nreq))
        return ["expr", ["assign", name, ["closure", cid]]]

    def call_closure(self, sc, d):
        r = self.rng
        name, npar, nreq = r.choice(sc["clos"])
        return ["callv", var(name), [self.int_expr(sc, d + 2) for _ in range(r.randint(nreq, npar) + (1 if r.random() < 0.12 else 0))]]

    def match_expr(self, sc, d=0):
        """match (int) { ints => int, ... [default => int] }; without default only when an arm is sure to hit
        would be needed for ints downstream, so a default is always present except when the result is only printed"""
        r = self.rng
        subj = self.int_expr(sc, 1)
        arms = []
        used = set()
        for _ in range(r.randint(1, 3)):
            conds = []
            for _ in range(r.randint(1, 2)):
                conds.append(lit(r.randint(0, 5)) if r.random() < 0.8 else self.int_expr(sc, 2))
            res = self.match_expr(sc, d + 1) if d == 0 and r.random() < 0.15 else self.int_expr(sc, 1)
            arms.append([conds, res])
        return ["match", subj, arms, self.int_expr(sc, 1), r.randint(0, len(arms))]

    def simple(self, sc):
        r = self.rng
        c = r.random()
        if c < 0.05:
            x = r.choice(sc["assignable"])
            if x not in sc["ints"]:
                sc["ints"].append(x)
            return ["expr", ["assign", x, self.match_expr(sc)]]
        if c < 0.09 and sc.get("arr_min", 0) > 0:
            k = r.randrange(sc["arr_min"])
            w = r.random()
            if w < 0.4:
                return ["expr", ["idxinc", r.random() < 0.5, sc["arr"], lit(k)]]
            if w < 0.6 and sc["ints"]:
                x = r.choice([v for v in sc["ints"] if v in sc["assignable"]] or sc["assignable"])
                return ["expr", ["assign", x, ["idxinc", r.random() < 0.5, sc["arr"], lit(k)]]]
            return ["setidx", sc["arr"], k, self.int_expr(sc)]
        if c < 0.13 and sc["depth"] <= 1 and len(self.closures) < 4:
            return self.closure_stmt(sc)
        if c < 0.35:
            return self.assign(sc)
        if c < 0.45 and sc["ints"]:
            xs = [x for x in sc["ints"] if x in sc["assignable"]]
            if xs:
                return ["expr", ["postinc", r.choice(xs)]]
        if c < 0.75:
            return tag(self.lab(), self.int_expr(sc))
        if c < 0.82:
            sc["str_init"] = True
            return ["expr", ["assign", sc["str"], self.str_expr(sc)]]
        if c < 0.88:
            return ["echo", self.str_expr(sc)]
        if c < 0.94:
            sc["arr_init"] = True
            return ["push", sc["arr"], self.int_expr(sc)]
        if sc["procs"] and r.random() < 0.5:
            # a function without return: called for effect, or printed (it yields null)
            c = self.call(sc, 0, procs=True)
            return ["expr", c] if r.random() < 0.5 else tag(self.lab(), c)
        if sc["callable"]:
            return ["expr", self.call(sc, 0)]
        return tag(self.lab(), self.int_expr(sc))

    def call_then_reread(self, sc):
        """call with the caller's own variables as arguments, then print those variables again"""
        r = self.rng
        cands = [c for c in sc["callable"] if not c[3]]
        if not cands or not sc["ints"]:
            return [self.simple(sc)]
        name, npar, nreq, rec, isrec, _void = r.choice(cands)
        vs = [r.choice(sc["ints"]) for _ in range(r.randint(nreq, npar))]
        args = [var(x) for x in vs]
        if isrec:
            args[0] = lit(r.randint(0, isrec))
        out = [tag(self.lab(), ["call", name, args])]
        for x in dict.fromkeys(vs):
            out.append(tag(x + "=", var(x)))
        return out

    def jump(self, sc):
        """a break/continue/return that is legal here"""
        r = self.rng
        depth = sc["depth"]
        opts = []
        if depth >= 1:
            opts += ["break", "continue"] * 3
        if depth >= 2:
            opts += ["break2", "continue2"] * 2
        if depth >= 3:
            opts += ["break3", "continue3"]
        if sc["infunc"]:
            opts += ["return"]
        elif r.random() < 0.05:
            opts += ["return"]
        if not opts:
            return None
        o = r.choice(opts)
        if o == "return":
            if sc.get("void"):
                return ["return", None]
            return ["return", self.int_expr(sc, 1) if sc["infunc"] or r.random() < 0.5 else None]
        n = int(o[-1]) if o[-1].isdigit() else 1
        return [o.rstrip("23"), n]

    def block(self, sc, d, n=None):
        r = self.rng
        n = n if n is not None else r.randint(1, 2 if d else 4)
        out = []
        for _ in range(n):
            out += self.stmt(sc, d)
        return out

    def guarded_jump(self, sc):
        j = self.jump(sc)
        if j is None:
            return []
        return [["if", self.bool_expr(sc), [j], [], []]]

    def counter(self, sc, prefix):
        self.nctr = getattr(self, "nctr", 0) + 1
        return "%s%d" % (prefix, self.nctr)

    def stmt(self, sc, d):
        """returns a list of statements (loops come with their counter initialisation)"""
        r = self.rng
        c = r.random()
        if c < 0.06:
            return self.call_then_reread(sc)
        if sc["infunc"] and d >= 1 and c > 0.955:
            # a static declared right here — inside whatever construct we are in — and used only in this block
            self.nstat = getattr(self, "nstat", 0) + 1
            u = "u%d" % self.nstat
            joined = r.random() < 0.3
            out = [["static", u, r.randint(0, 3)] + (["joined"] if joined else [])]
            if joined:
                out.append(["static", u + "b", r.randint(0, 3)])
                out.append(["expr", ["postinc", u + "b"]])
                out.append(tag(self.lab(), var(u + "b")))
            return out + [["expr", ["assign", u, ["bin", "Add", var(u), lit(r.randint(1, 2))]]], tag(self.lab(), var(u))]
        if sc["infunc"] and sc.get("params") and c < 0.12:
            # accumulate into a by-value parameter (the caller's variable / the default must not change)
            pn = r.choice(sc["params"])
            op = r.choice(["Add", "Mul"])
            rhs = var(r.choice(sc["ints"])) if r.random() < 0.5 else lit(r.randint(1, 3))
            return [["expr", ["assign", pn, ["bin", op, var(pn), rhs]]]]
        if d >= 4 or (d == 3 and c < 0.8) or c < 0.42:
            return [self.simple(sc)]
        if c < 0.5:
            return self.guarded_jump(sc) or [self.simple(sc)]
        if c < 0.62:
            elifs = [[self.bool_expr(sc), self.block(sc, d + 1)] for _ in range(r.choice([0, 0, 1, 2]))]
            els = self.block(sc, d + 1) if r.random() < 0.6 else []
            return [["if", self.bool_expr(sc), self.block(sc, d + 1), elifs, els]]
        inner = dict(sc, depth=sc["depth"] + 1)
        k = r.randint(1, 3)
        if c < 0.66 and r.random() < 0.5:
            # an endless loop left by break: while (true) / for (;;) / do .. while (true)
            w = self.counter(sc, "e")
            kind = r.choice(["while", "for", "dowhile"])
            body = [["expr", ["postinc", w]], ["if", ["bin", "Ge", var(w), lit(k)], [["break", 1]], [], []]] + self.loop_body(inner, sc, d, w)
            init = ["expr", ["assign", w, lit(0)]]
            if kind == "while":
                return [init, ["while", lit(True), body]]
            if kind == "dowhile":
                return [init, ["dowhile", body, lit(True)]]
            return [["for", [["assign", w, lit(0)]], lit(True), [], body]]
        if c < 0.7:
            w = self.counter(sc, "w")
            body = [["expr", ["postinc", w]]] + self.loop_body(inner, sc, d, w)
            return [["expr", ["assign", w, lit(0)]], ["while", ["bin", "Lt", var(w), lit(k)], body]]
        if c < 0.76:
            w = self.counter(sc, "d")
            body = [["expr", ["postinc", w]]] + self.loop_body(inner, sc, d, w)
            return [["expr", ["assign", w, lit(0)]], ["dowhile", body, ["bin", "Lt", var(w), lit(k)]]]
        if c < 0.86:
            i = self.counter(sc, "i")
            cond = ["bin", "Lt", var(i), lit(k)] if r.random() < 0.5 else ["bin", "Le", var(i), lit(k - 1)]
            inits = [["assign", i, lit(0)]]
            incs = [["postinc", i]] if r.random() < 0.7 else [["assign", i, ["bin", "Add", var(i), lit(1)]]]
            if r.random() < 0.25:
                j = self.counter(sc, "j")
                inits.append(["assign", j, lit(r.randint(0, 3))])
                incs.append(["assign", j, ["bin", "Add", var(j), lit(2)]] if r.random() < 0.5 else ["postinc", j])
                inner["ints"] = inner["ints"] + [j]
            body = self.loop_body(inner, sc, d, i)
            return [["for", inits, cond, incs, body]]
        if c < 0.93:
            v = self.counter(sc, "v")
            kx = self.counter(sc, "k") if r.random() < 0.4 else None
            if sc.get("arr_init") and r.random() < 0.5:
                subject = var(sc["arr"])
            else:
                subject = ["arr", [self.int_expr(sc, 2) for _ in range(r.randint(0, 3))]]
            inner["ints"] = inner["ints"] + [v] + ([kx] if kx else [])
            body = self.loop_body(inner, sc, d, None)
            return [["foreach", subject, kx, v, body]]
        return [self.switch(sc, d)]

    def loop_body(self, inner, sc, d, ctr):
        if ctr and ctr not in inner["ints"]:
            inner["ints"] = inner["ints"] + [ctr]
        body = self.block(inner, d + 1)
        if self.rng.random() < 0.5:
            pos = self.rng.randint(0, len(body))
            body[pos:pos] = self.guarded_jump(inner)
        # variables first assigned inside the body are visible afterwards too
        for x in inner["ints"]:
            if x not in sc["ints"] and x in sc["assignable"]:
                sc["ints"].append(x)
        for f in ("str_init", "arr_init"):
            if inner.get(f):
                sc[f] = True
        return body

    def switch(self, sc, d, fall=None):
        r = self.rng
        inner = dict(sc, depth=sc["depth"] + 1)
        if sc.get("str_init") and r.random() < 0.2:
            # string subject, string labels
            labels = ["p", "q", "zz", "r", "st", "p0", "q1"]
            subj = var(sc["str"]) if r.random() < 0.6 else ["bin", "Concat", lit(r.choice(["p", "q"])), lit(r.randint(0, 1))]
            vals = r.sample(labels, r.randint(1, 3))
        else:
            subj = self.int_expr(sc, 1)
            vals = r.sample(range(0, 5), r.randint(1, 3))
        clauses = [["case", lit(v), None] for v in vals]
        if r.random() < 0.2:
            clauses.insert(r.randint(0, len(clauses) - 1),
                           ["case", lit(r.choice([5, 6]) if isinstance(vals[0], int) else "grp"), "EMPTY"])      # case 5: case k: grouping
        if r.random() < 0.6:
            clauses.insert(r.randint(0, len(clauses)), ["default", None])
        for idx, cl in enumerate(clauses):
            if cl[-1] == "EMPTY":
                cl[-1] = []
                continue
            body = self.block(inner, d + 1, r.randint(1, 2))
            last = idx == len(clauses) - 1
            if r.random() < (0.7 if not last else 0.5):
                # most clauses end in a jump; the others fall through into the next clause
                c = r.random()
                if c < 0.75:
                    body.append(["break", 1])
                else:
                    j = self.jump(inner)
                    body.append(j if j else ["break", 1])
            cl[-1] = body
        for x in inner["ints"]:
            if x not in sc["ints"] and x in sc["assignable"]:
                sc["ints"].append(x)
        for f in ("str_init", "arr_init"):
            if inner.get(f):
                sc[f] = True
        return ["switch", subj, clauses]

    def new_scope(self, infunc, params=()):
        names = ["a", "b", "c", "x", "y"]
        return {"ints": list(params), "assignable": names, "str": "s", "arr": "arr", "depth": 0,
                "infunc": infunc, "callable": [], "procs": [], "recvar": None}

    def prologue(self, sc):
        """every int variable of the scope, the string and the array start initialised (the operators on
        null are C03's subject), through the different assignment node shapes"""
        r = self.rng
        out = []
        for x in sc["assignable"]:
            if x in sc["ints"]:
                continue
            c = r.random()
            if c < 0.6 or not sc["ints"]:
                rhs = lit(r.randint(0, 5))
            elif c < 0.8:
                rhs = var(r.choice(sc["ints"]))
            else:
                rhs = ["bin", r.choice(["Add", "Mul"]), var(r.choice(sc["ints"])), lit(r.randint(0, 3))]
            out.append(["expr", ["assign", x, rhs]])
            sc["ints"].append(x)
        out.append(["expr", ["assign", sc["str"], lit(r.choice(["p", "q", "zz"]))]])
        sc["str_init"] = True
        n0 = r.randint(0, 3)
        out.append(["expr", ["assign", sc["arr"], ["arr", [lit(r.randint(0, 5)) for _ in range(n0)]]]])
        sc["arr_init"] = True
        sc["arr_min"] = n0
        return out

    def function(self, idx):
        r = self.rng
        name = "f%d" % idx
        npar = r.randint(1, 3)
        pnames = ["n", "a", "b"][:npar]            # same names as the caller uses, on purpose
        nreq = r.randint(1, npar)
        params = [(p, None if i < nreq else (r.randint(0, 5),)) for i, p in enumerate(pnames)]
        sc = self.new_scope(True, pnames)
        sc["params"] = [x for x in pnames if x != "n"]
        sc["callable"] = [f for f in self.funcs if not f[5]]
        sc["procs"] = [f for f in self.funcs if f[5]]
        body = []
        void = r.random() < 0.2
        sc["void"] = void
        recursive = (not void) and r.random() < 0.4
        body += self.prologue(sc) if not recursive else []
        if recursive:
            body.append(["if", ["bin", "Le", var("n"), lit(0)], [["return", self.int_expr(sc, 1)]], [], []])
            sc["callable"] = sc["callable"] + [(name, npar, nreq, True, 1, False)]
            sc["recvar"] = "n"
            sc["assignable"] = [x for x in sc["assignable"] if x != "n"]
            body += self.prologue(sc)
        if r.random() < 0.5:
            st = "t%d" % idx
            body.append(["static", st, r.randint(0, 3)])
            body.append(["expr", ["postinc", st]] if r.random() < 0.4 else
                        ["expr", ["assign", st, ["bin", "Add", var(st), lit(r.randint(1, 2))]]])
            sc["ints"].append(st)
        body += self.block(sc, 1, r.randint(1, 4))
        if not void:
            body.append(["return", self.int_expr(sc)])
        # how deep callers may drive the recursion: linear recursion up to 7, tree recursion less
        nsites = json.dumps(body).count('["call", "%s"' % name) + json.dumps(body).count('["calln", "%s"' % name)
        maxn = 0 if not recursive else (7 if nsites <= 1 else 5 if nsites == 2 else 3)
        self.funcs.append((name, npar, nreq, False, maxn, void))
        return {"name": name, "params": [[p, None if dflt is None else [dflt[0]]] for p, dflt in params], "body": body}

    def program(self):
        r = self.rng
        funcs = [self.function(i) for i in range(r.choice([0, 1, 1, 2, 2, 3]))]
        sc = self.new_scope(False)
        sc["callable"] = [f for f in self.funcs if not f[5]]
        sc["procs"] = [f for f in self.funcs if f[5]]
        main = self.prologue(sc) + self.block(sc, 0, r.randint(2, 5))
        return {"funcs": funcs, "closures": self.closures, "main": main, "funcs_last": bool(funcs) and r.random() < 0.3}


def nest_program(outer, inner, jump, level, before):
    """the exhaustive two-level nesting family: outer construct { inner construct { if (cond) jump level; } }"""
    def loop(kind, ctr, body, k):
        if kind == "for":
            return [["for", [["assign", ctr, lit(0)]], ["bin", "Lt", var(ctr), lit(k)], [["postinc", ctr]], body]]
        if kind == "while":
            return [["expr", ["assign", ctr, lit(0)]],
                    ["while", ["bin", "Lt", var(ctr), lit(k)], [["expr", ["postinc", ctr]]] + body]]
        if kind == "dowhile":
            return [["expr", ["assign", ctr, lit(0)]],
                    ["dowhile", [["expr", ["postinc", ctr]]] + body, ["bin", "Lt", var(ctr), lit(k)]]]
        if kind == "foreach":
            return [["foreach", ["arr", [lit(x + 1) for x in range(k)]], None, ctr, body]]
        if kind == "switch":
            return [["switch", lit(1), [["case", lit(0), [tag("z:", lit(0)), ["break", 1]]],
                                        ["case", lit(1), body + [["break", 1]]],
                                        ["default", [tag("dflt:", lit(9))]]]]]
        raise ValueError(kind)
    j = [jump, level]
    guard = ["if", ["bin", "Eq", var("q"), lit(2)], [j], [], []]
    core = [["expr", ["postinc", "q"]]]
    core += [guard, tag("in:", var("q"))] if before else [tag("in:", var("q")), guard]
    ib = loop(inner, "v", core, 3)
    ob = loop(outer, "u", [tag("o<", lit(0))] + ib + [tag("o>", lit(1))], 2)
    return {"funcs": [], "main": [["expr", ["assign", "q", lit(0)]]] + ob + [tag("end:", var("q"))]}


def alias_programs():
    """boxed-integer aliasing probes: the loop counter itself is stored / passed / returned while the loop
    goes on incrementing it (value semantics: the stored copies must not change)"""
    out = []
    show = [["foreach", var("arr"), "k", "v", [tag("e", var("k")), tag("=", var("v"))]]]
    idf = {"name": "idf", "params": [["n", None]], "body": [["return", var("n")]]}
    keep = {"name": "keep", "params": [["n", None]],
            "body": [["static", "last", 0], ["expr", ["assign", "r", var("last")]], ["expr", ["assign", "last", var("n")]],
                     ["return", var("r")]]}
    for inc in ([["postinc", "i"]], [["assign", "i", ["bin", "Add", var("i"), lit(1)]]]):
        for what in (var("i"), ["call", "idf", [var("i")]], ["call", "keep", [var("i")]]):
            body = [["push", "arr", what]]
            out.append({"funcs": [idf, keep],
                        "main": [["expr", ["assign", "arr", ["arr", []]]],
                                 ["for", [["assign", "i", lit(0)]], ["bin", "Lt", var("i"), lit(3)], inc, body]] + show})
            out.append({"funcs": [idf, keep],
                        "main": [["expr", ["assign", "arr", ["arr", []]]], ["expr", ["assign", "i", lit(0)]],
                                 ["while", ["bin", "Lt", var("i"), lit(3)], body + [["expr", ["postinc", "i"]]]]] + show})
            out.append({"funcs": [idf, keep],
                        "main": [["expr", ["assign", "arr", ["arr", []]]],
                                 ["for", [["assign", "i", lit(0)]], ["bin", "Le", var("i"), lit(2)], inc,
                                  [["expr", ["assign", "a", var("i")]], ["push", "arr", var("a")], ["push", "arr", var("i")]]]] + show})
    return out


def escape_programs():
    """a break/continue executed in a called function outside any loop of that function: PHP rejects the
    program at compile time ([wf] is false, clause 3 is expected); what is checked is that the jump does not
    reach the caller's loop — implementation, ImplSem and RefSem all end in an error at the call"""
    out = []
    for j in ("break", "continue"):
        for lv in (1, 2):
            for guarded in (False, True):
                jmp = [j, lv]
                fb = [tag("in:", var("n"))] + ([["if", ["bin", "Eq", var("n"), lit(1)], [jmp], [], []]] if guarded else [jmp]) + \
                     [tag("after:", var("n"))]
                f = {"name": "esc", "params": [["n", None]], "body": fb}
                main = [["for", [["assign", "i", lit(0)]], ["bin", "Lt", var("i"), lit(3)], [["postinc", "i"]],
                         [tag("i:", var("i")), ["expr", ["call", "esc", [var("i")]]], tag("back:", var("i"))]],
                        tag("end:", var("i"))]
                out.append({"funcs": [f], "main": main})
    # the same through a closure
    for j in ("break", "continue"):
        clo = {"params": [["n", None]], "uses": [], "body": [tag("in:", var("n")), ["if", ["bin", "Eq", var("n"), lit(1)], [[j, 1]], [], []],
                                                           ["return", var("n")]], "arrow": False}
        main = [["expr", ["assign", "t", ["closure", 0]]],
                ["for", [["assign", "i", lit(0)]], ["bin", "Lt", var("i"), lit(3)], [["postinc", "i"]],
                 [tag("i:", var("i")), ["expr", ["callv", var("t"), [var("i")]]], tag("back:", var("i"))]], tag("end:", var("i"))]
        out.append({"funcs": [], "closures": [clo], "main": main})
    return out


def recursion_programs():
    """deep recursion through one call site with a parameter / local READ AFTER the recursive call returned
    (non-tail positions), mutual recursion, recursion inside loops, several live activations of one function"""
    out = []
    n, r, a = var("n"), var("r"), var("a")
    call = lambda f, e: ["call", f, [e]]
    dec = ["bin", "Sub", n, lit(1)]
    base = ["if", ["bin", "Le", n, lit(0)], [["return", lit(1)]], [], []]
    shapes = {
        "after_mul": [base, ["return", ["bin", "Mul", call("f", dec), n]]],                       # f(n-1) * n
        "before_mul": [base, ["return", ["bin", "Mul", n, call("f", dec)]]],                      # n * f(n-1)
        "local_then_add": [base, ["expr", ["assign", "r", call("f", dec)]], ["return", ["bin", "Add", r, n]]],
        "local_before": [base, ["expr", ["assign", "a", ["bin", "Mul", n, lit(2)]]],
                         ["expr", ["assign", "r", call("f", dec)]], tag("a", a), ["return", ["bin", "Add", r, a]]],
        "echo_after": [base, tag("in", n), ["expr", ["assign", "r", call("f", dec)]], tag("out", n), ["return", ["bin", "Add", r, lit(1)]]],
        "two_sites": [["if", ["bin", "Le", n, lit(1)], [["return", n]], [], []],
                      ["return", ["bin", "Add", call("f", dec), call("f", ["bin", "Sub", n, lit(2)])]]],
        "in_loop": [base, ["expr", ["assign", "r", lit(0)]],
                    ["for", [["assign", "i", lit(0)]], ["bin", "Lt", var("i"), lit(2)], [["postinc", "i"]],
                     [["expr", ["assign", "r", ["bin", "Add", r, call("f", dec)]]], tag("i", ["bin", "Add", var("i"), n])]],
                    ["return", ["bin", "Add", r, n]]],
        "static_depth": [["static", "depth", 0], ["expr", ["postinc", "depth"]], base,
                         ["expr", ["assign", "r", call("f", dec)]], ["return", ["bin", "Add", ["bin", "Add", r, n], var("depth")]]],
    }
    for name, body in shapes.items():
        for depth in ((3, 5, 7) if name not in ("two_sites", "in_loop") else (3, 5)):
            f = {"name": "f", "params": [["n", None]], "body": body}
            main = [["expr", ["assign", "n", lit(40)]], tag(name + "=", call("f", lit(depth))), tag(" n=", n),
                    tag(" again=", call("f", lit(depth - 1)))]
            out.append({"funcs": [f], "main": main})
    deep = {"name": "f", "params": [["n", None]], "body": shapes["local_then_add"]}
    out.append({"funcs": [deep], "main": [tag("deep=", call("f", lit(60)))], "funcs_last": True})
    # mutual recursion (the second function is declared after the first one that calls it)
    ev = {"name": "ev", "params": [["n", None]],
          "body": [["if", ["bin", "Eq", n, lit(0)], [["return", lit(1)]], [], []],
                   ["expr", ["assign", "r", call("od", dec)]], ["return", ["bin", "Add", ["bin", "Mul", r, lit(2)], n]]]}
    od = {"name": "od", "params": [["n", None]],
          "body": [["if", ["bin", "Eq", n, lit(0)], [["return", lit(0)]], [], []],
                   ["return", ["bin", "Add", call("ev", dec), n]]]}
    for depth in (2, 5, 8):
        out.append({"funcs": [ev, od], "main": [tag("ev=", call("ev", lit(depth))), tag(" od=", call("od", lit(depth)))]})
    return out


def paramalias_programs():
    """a by-value parameter (bound from a caller variable, from a literal, or from its default) is accumulated
    inside a loop body of the callee; afterwards the caller reads its own variable, and the function is called
    again relying on the default / the same literal"""
    out = []
    p, q, i = var("p"), var("q"), var("i")
    accs = {
        "add_var": [["expr", ["assign", "p", ["bin", "Add", p, i]]]],
        "add_lit": [["expr", ["assign", "p", ["bin", "Add", p, lit(3)]]]],
        "mul_lit": [["expr", ["assign", "p", ["bin", "Mul", p, lit(2)]]]],
        "both": [["expr", ["assign", "p", ["bin", "Add", p, i]]], ["expr", ["assign", "q", ["bin", "Mul", q, lit(2)]]]],
        "inc": [["expr", ["postinc", "p"]], ["expr", ["assign", "q", ["bin", "Add", q, p]]]],
    }
    def loop(kind, body):
        if kind == "for":
            return [["for", [["assign", "i", lit(0)]], ["bin", "Lt", i, lit(3)], [["postinc", "i"]], body]]
        if kind == "while":
            return [["expr", ["assign", "i", lit(0)]], ["while", ["bin", "Lt", i, lit(3)], [["expr", ["postinc", "i"]]] + body]]
        if kind == "foreach":
            return [["foreach", ["arr", [lit(0), lit(1), lit(2)]], None, "i", body]]
        return body                                  # straight line
    for kind in ("for", "while", "foreach", "none"):
        for name, acc in accs.items():
            body = ([["expr", ["assign", "i", lit(1)]]] if kind == "none" else []) + loop(kind, acc) + \
                   [["return", ["bin", "Add", p, q]]]
            f = {"name": "acc", "params": [["p", None], ["q", [5]]], "body": body}
            main = [["expr", ["assign", "x", lit(10)]], ["expr", ["assign", "y", lit(7)]],
                    tag("a=", ["call", "acc", [var("x")]]), tag(" x=", var("x")),
                    tag(" b=", ["call", "acc", [var("x"), var("y")]]), tag(" x=", var("x")), tag(" y=", var("y")),
                    tag(" c=", ["call", "acc", [lit(1)]]), tag(" d=", ["call", "acc", [lit(1)]]),
                    ["for", [["assign", "k", lit(0)]], ["bin", "Lt", var("k"), lit(2)], [["postinc", "k"]],
                     [tag(" e=", ["call", "acc", [lit(4)]]), tag(" f=", ["call", "acc", [var("k"), lit(2)]]), tag(" k=", var("k"))]]]
            out.append({"funcs": [f], "main": main})
    return out


def match_programs():
    """match: strict comparison, first hit in source order, conditions evaluated lazily left to right (side effects
    shown by a tracing function), default anywhere, no hit without default gives null (origami), nested match"""
    out = []
    tr = {"name": "tr", "params": [["n", None]], "body": [tag("<", var("n")), ["return", var("n")]]}
    def show(m):
        return [["expr", ["assign", "r", m]], tag(" r=", var("r"))]
    for x in range(0, 5):
        m1 = ["match", var("x"), [[[lit(1)], lit(10)], [[["call", "tr", [lit(2)]], ["call", "tr", [lit(3)]]], ["call", "tr", [lit(20)]]],
                                   [[lit(2)], lit(99)]], lit(7), x % 4]
        m2 = ["match", ["call", "tr", [var("x")]], [[[lit(0), lit(4)], lit(40)]], None, 0]
        m3 = ["match", var("x"), [[[lit(3)], ["match", ["bin", "Add", var("x"), lit(1)], [[[lit(4)], lit(44)]], lit(5), 0]]], lit(6), 1]
        m4 = ["match", ["bin", "Concat", lit("k"), var("x")], [[[lit("k1")], lit(1)], [[lit("k2"), lit("k3")], lit(23)]], lit(0), 2]
        main = [["expr", ["assign", "x", lit(x)]]] + show(m1) + show(m2) + show(m3) + show(m4)
        out.append({"funcs": [tr], "main": main})
    # strictness: an int subject does not match a string condition and vice versa
    out.append({"funcs": [], "main": [["expr", ["assign", "x", lit(2)]],
                                     ["expr", ["assign", "r", ["match", var("x"), [[[lit("2")], lit(1)], [[lit(2)], lit(2)]], lit(0), 0]]],
                                     tag("r=", var("r")),
                                     ["expr", ["assign", "s", ["match", lit("2"), [[[lit(2)], lit(1)]], lit(3), 1]]], tag(" s=", var("s"))]})
    # arms made of plain literals only (what a parse-time jump table would be built from), the same literal in more than
    # one arm (alone / inside a condition list): the FIRST arm wins; every subject value in range, hits and misses,
    # with a default at the front / in the middle / at the end / absent; int, string and mixed literals; inside a loop and a function
    L = lambda *ks: [lit(k) for k in ks]
    tables = [[[L(0), lit(100)], [L(1, 2, 3), lit(200)], [L(3, 4), lit(300)], [L(5), lit(400)]],
              [[L(0), lit(1)], [L(1), lit(10)], [L(2), lit(100)], [L(1), lit(1000)]],
              [[L(2, 2), lit(7)], [L(2), lit(8)], [L(0, 2, 4), lit(9)], [L(4, 1), lit(10)]],
              [[L("a"), lit(1)], [L("b", "a"), lit(2)], [L("c"), lit(3)], [L("b"), lit(4)]],
              [[L(1), lit(1)], [L("1"), lit(2)], [L(1, "1"), lit(3)], [L(True), lit(4)]]]
    for ti, arms in enumerate(tables):
        for dflt, dpos in ((None, 0), (lit(-1), 0), (lit(-1), 2), (lit(-1), 9)):
            subj = var("x") if ti < 3 else (["bin", "Concat", lit(""), ["idx", "ks", var("x")]] if ti == 3 else ["idx", "ks", var("x")])
            ks = ["arr", L("a", "b", "c", "d", "e", "f", "g")] if ti == 3 else ["arr", L(1, "1", True, 0, 2, "x", 1)]
            m = ["match", subj, arms, dflt, dpos]
            f = {"name": "pick", "params": [["x", None], ["ks", None]], "body": [["return", m]]}
            out.append({"funcs": [f], "main": [["expr", ["assign", "ks", ks]],
                                               ["for", [["assign", "x", lit(0)]], ["bin", "Le", var("x"), lit(6)], [["postinc", "x"]],
                                                [tag(" ", m), tag("/", ["call", "pick", [var("x"), var("ks")]])]]]})
    return out


def closure_programs():
    """closures and arrow functions: captures are taken when the closure is created (later changes of the variable,
    loop variables, a defining function that has returned), writes to captured variables stay local, each closure
    object has its own static cells, closures passed to functions, returned from functions, stored in arrays"""
    out = []
    x, a = var("x"), var("a")
    def clo(params, uses, body, arrow=False):
        return {"params": params, "uses": uses, "body": body, "arrow": arrow}
    # 0: use ($x); 1: arrow capturing $x; 2: counter with static; 3: returned from mk($k); 4: writes its capture
    C = [clo([["a", None], ["b", [5]]], ["x"], [["expr", ["assign", "x", ["bin", "Add", x, a]]], ["return", ["bin", "Add", ["bin", "Mul", x, lit(10)], var("b")]]]),
         clo([["a", None]], ["x"], [["return", ["bin", "Add", a, x]]], True),
         clo([], [], [["static", "n", 0], ["expr", ["assign", "n", ["bin", "Add", var("n"), lit(1)]]], ["return", var("n")]]),
         clo([["a", None]], ["k"], [["return", ["bin", "Mul", a, var("k")]]]),
         clo([], ["i"], [["return", var("i")]]),
         clo([["q", None]], ["f"], [["return", ["bin", "Add", ["callv", var("f"), [var("q")]], lit(100)]]], True)]
    mk = {"name": "mk", "params": [["k", None]], "body": [["expr", ["assign", "h", ["closure", 3]]], ["expr", ["assign", "k", lit(1000)]], ["return", var("h")]]}
    ap = {"name": "ap", "params": [["h", None], ["v", None]], "body": [["return", ["bin", "Add", ["callv", var("h"), [var("v")]], lit(1)]]]}
    base = {"funcs": [mk, ap], "closures": C}
    call = lambda f, *args: ["callv", var(f), list(args)]
    out.append(dict(base, main=[["expr", ["assign", "x", lit(3)]], ["expr", ["assign", "f", ["closure", 0]]],
                                ["expr", ["assign", "x", lit(50)]], tag("f1=", call("f", lit(1))), tag(" f2=", call("f", lit(1), lit(2))),
                                tag(" x=", x), ["expr", ["assign", "g", ["closure", 1]]], ["expr", ["assign", "x", lit(7)]],
                                tag(" g=", call("g", lit(5))), tag(" ap=", ["call", "ap", [var("f"), lit(4)]]),
                                tag(" apg=", ["call", "ap", [var("g"), lit(4)]])]))
    out.append(dict(base, main=[["expr", ["assign", "c", ["closure", 2]]], ["expr", ["assign", "d", ["closure", 2]]],
                                tag("c", call("c")), tag("c", call("c")), tag("d", call("d")), tag("c", call("c")),
                                ["expr", ["assign", "e", var("c")]], tag("e", call("e")), tag("c", call("c"))]))
    out.append(dict(base, main=[["expr", ["assign", "m2", ["call", "mk", [lit(2)]]]], ["expr", ["assign", "m3", ["call", "mk", [lit(3)]]]],
                                tag("m2=", call("m2", lit(5))), tag(" m3=", call("m3", lit(5))), tag(" m2=", call("m2", lit(6)))]))
    out.append(dict(base, main=[["expr", ["assign", "fs", ["arr", []]]],
                                ["for", [["assign", "i", lit(0)]], ["bin", "Lt", var("i"), lit(3)], [["postinc", "i"]], [["push", "fs", ["closure", 4]]]],
                                ["foreach", var("fs"), None, "h", [tag("h", call("h"))]], tag(" i=", var("i"))]))
    out.append(dict(base, main=[["expr", ["assign", "x", lit(2)]], ["expr", ["assign", "f", ["closure", 1]]],
                                ["expr", ["assign", "w", ["closure", 5]]], ["expr", ["assign", "f", lit(0)]],
                                tag("w=", call("w", lit(5)))]))
    return out


def counter_programs():
    """the loop counter is written inside the body and the iteration then ends in every possible way: for loops with every
    condition shape ($i < lit, $i <= lit, $i < $n, $i <= $n) x increment shape ($i++, $i = $i + 1, $i = $i + 2) x body write
    (none, $i = $i + 2, $i = 4, $i++) x what follows the write (nothing, continue, break, `continue 2` out of a switch,
    `continue 2` out of an inner loop of the same shape, continue inside a nested if); the same for while and do-while.
    The counter is echoed before and after, and after the loop (a counter cached outside the variable would show)."""
    out = []
    i = var("i")
    conds = {"lt-lit": ["bin", "Lt", i, lit(7)], "le-lit": ["bin", "Le", i, lit(6)], "lt-var": ["bin", "Lt", i, var("n")], "le-var": ["bin", "Le", i, var("m")]}
    incs = {"pp": [["postinc", "i"]], "add1": [["assign", "i", ["bin", "Add", i, lit(1)]]], "add2": [["assign", "i", ["bin", "Add", i, lit(2)]]]}
    writes = {"none": [], "add": [["expr", ["assign", "i", ["bin", "Add", i, lit(2)]]]], "set": [["expr", ["assign", "i", lit(4)]]], "pp": [["expr", ["postinc", "i"]]]}
    def follow(kind, cond, inc):
        if kind == "none":
            return []
        if kind == "continue":
            return [["continue", 1]]
        if kind == "break":
            return [["break", 1]]
        if kind == "continue2-switch":
            return [["switch", lit(1), [["case", lit(1), [echo_("s"), ["continue", 2]]], ["default", [echo_("never")]]]]]
        if kind == "continue2-loop":
            return [["for", [["assign", "j", lit(0)]], ["bin", "Le", var("j"), lit(3)], [["postinc", "j"]],
                     [tag("j", var("j")), ["if", ["bin", "Eq", var("j"), lit(1)], [["continue", 2]], [], []]]]]
        if kind == "continue-in-if":
            return [["if", ["bin", "Gt", i, lit(0)], [["if", ["bin", "Lt", i, lit(100)], [["continue", 1]], [], []]], [], []]]
        raise ValueError(kind)
    follows = ["none", "continue", "break", "continue2-switch", "continue2-loop", "continue-in-if"]
    pro = [["expr", ["assign", "n", lit(7)]], ["expr", ["assign", "m", lit(6)]]]
    for cn, cond in conds.items():
        for inn, inc in incs.items():
            for wn, wr in writes.items():
                for fo in follows:
                    if wn == "none" and fo == "none":
                        continue
                    body = [tag(" i", i), ["if", ["bin", "Eq", i, lit(1)], wr + [tag("w", i)] + follow(fo, cond, inc), [], []], tag(";", i)]
                    out.append({"funcs": [], "main": pro + [["for", [["assign", "i", lit(0)]], cond, inc, body], tag(" end", i)]})
    # while / do-while (the increment is an ordinary statement at the top of the body)
    for kind in ("while", "dowhile"):
        for wn, wr in writes.items():
            for fo in follows:
                body = [["expr", ["postinc", "i"]], tag(" i", i), ["if", ["bin", "Eq", i, lit(2)], wr + [tag("w", i)] + follow(fo, None, None), [], []], tag(";", i)]
                loop = ["while", ["bin", "Le", i, lit(6)], body] if kind == "while" else ["dowhile", body, ["bin", "Le", i, lit(6)]]
                out.append({"funcs": [], "main": pro + [["expr", ["assign", "i", lit(0)]], loop, tag(" end", i)]})
    # the loop inside a function, counter also a parameter / written through a second statement form
    f = {"name": "run", "params": [["i", None], ["k", [2]]],
         "body": [["for", [], ["bin", "Le", i, lit(8)], [["postinc", "i"]],
                   [tag(" i", i), ["if", ["bin", "Eq", i, var("k")], [["expr", ["assign", "i", ["bin", "Mul", i, lit(2)]]], ["continue", 1]], [], []], tag(";", i)]],
                  ["return", i]]}
    out.append({"funcs": [f], "main": [tag("r", ["call", "run", [lit(0)]]), tag(" r", ["call", "run", [lit(1), lit(3)]])]})
    return out


def tailcall_programs():
    """self calls in tail position (`return f(...);`) that pass FEWER arguments than f has parameters: every activation
    binds the omitted parameters to their defaults again, whatever the previous activation held there (an explicit
    argument of the outer caller, a value assigned in the body).  The tail call sits directly in the body and inside
    if / else / elseif / while / for / foreach / switch / try; positional and named arguments; parameters omitted at the
    end and (named) in the middle; controls: all arguments passed, non-tail recursion, mutual recursion.  Each
    activation echoes all its parameters."""
    out = []
    n, st, acc = var("n"), var("st"), var("acc")
    show = [tag(" [n", n), tag(" st", st), tag(" acc", acc), echo_("]")]
    base = ["if", ["bin", "Le", n, lit(0)], [["return", ["bin", "Add", ["bin", "Mul", acc, lit(100)], st]]], [], []]
    dec = ["bin", "Sub", n, st]
    calls = {
        "omit-both": ["call", "f", [dec]],
        "omit-last": ["call", "f", [dec, ["bin", "Add", st, lit(0)]]],
        "all": ["call", "f", [dec, st, ["bin", "Add", acc, lit(1)]]],
        "named-n": ["calln", "f", [], [["n", dec]]],
        "named-skip-middle": ["calln", "f", [dec], [["acc", ["bin", "Add", acc, n]]]],
        "named-swapped": ["calln", "f", [], [["acc", acc], ["n", dec]]],
    }
    def place(where, ret):
        if where == "direct":
            return [ret]
        if where == "if":
            return [["if", ["bin", "Gt", n, lit(0)], [ret], [], []], ["return", lit(-1)]]
        if where == "else":
            return [["if", ["bin", "Gt", n, lit(100)], [echo_("big")], [], [ret]], ["return", lit(-1)]]
        if where == "elseif":
            return [["if", ["bin", "Gt", n, lit(100)], [echo_("big")], [[["bin", "Gt", n, lit(0)], [ret]]], []], ["return", lit(-1)]]
        if where == "while":
            return [["while", ["bin", "Gt", n, lit(0)], [ret]], ["return", lit(-1)]]
        if where == "for":
            return [["for", [["assign", "i", lit(0)]], ["bin", "Lt", var("i"), lit(3)], [["postinc", "i"]], [["if", ["bin", "Eq", var("i"), lit(1)], [ret], [], []]]], ["return", lit(-1)]]
        if where == "foreach":
            return [["foreach", ["arr", [lit(1), lit(2)]], None, "v", [["if", ["bin", "Eq", var("v"), lit(2)], [ret], [], []]]], ["return", lit(-1)]]
        if where == "switch":
            return [["switch", ["bin", "Gt", n, lit(0)], [["case", lit(False), [echo_("no"), ["break", 1]]], ["default", [ret]]]], ["return", lit(-1)]]
        if where == "try":
            return [["try", [ret], [], [tag(" fin", n)]], ["return", lit(-1)]]
        raise ValueError(where)
    wheres = ["direct", "if", "else", "elseif", "while", "for", "foreach", "switch", "try"]
    for cn, call in calls.items():
        for wi, where in enumerate(wheres):
            if cn not in ("omit-both", "named-skip-middle") and wi % 3 != 0:
                continue
            for reassign in (False, True):
                pre = [["expr", ["assign", "acc", ["bin", "Add", acc, lit(5)]]], ["expr", ["assign", "st", ["bin", "Add", st, lit(0)]]]] if reassign else []
                f = {"name": "f", "params": [["n", None], ["st", [1]], ["acc", [0]]],
                     "body": show + [base] + pre + place(where, ["return", call])}
                main = [tag("A", ["call", "f", [lit(7), lit(3)]]), tag(" B", ["call", "f", [lit(2)]]), tag(" C", ["call", "f", [lit(6), lit(2), lit(9)]]),
                        tag(" D", ["calln", "f", [lit(4)], [["acc", lit(8)]]])]
                out.append({"funcs": [f], "main": main})
    # controls: the same shapes without a tail position, and mutual recursion
    nt = {"name": "f", "params": [["n", None], ["st", [1]], ["acc", [0]]],
          "body": show + [base, ["expr", ["assign", "r", ["call", "f", [dec]]]], ["return", ["bin", "Add", var("r"), lit(1)]]]}
    nt2 = {"name": "f", "params": [["n", None], ["st", [1]], ["acc", [0]]],
           "body": show + [base, ["return", ["bin", "Add", ["call", "f", [dec]], lit(1)]]]}
    ga = {"name": "f", "params": [["n", None], ["st", [1]], ["acc", [0]]], "body": show + [base, ["return", ["call", "g", [dec]]]]}
    gb = {"name": "g", "params": [["n", None], ["st", [2]], ["acc", [1]]], "body": [tag(" {g", n), tag(" st", st), echo_("}"), ["return", ["call", "f", [n]]]]}
    for fs in ([nt], [nt2], [ga, gb]):
        out.append({"funcs": fs, "main": [tag("A", ["call", "f", [lit(7), lit(3)]]), tag(" C", ["call", "f", [lit(6), lit(2), lit(9)]])]})
    return out


def else_if_ladder_programs():
    """if statements whose else block is EXACTLY one if statement (what a parser may flatten into the elseif chain),
    nested 1-4 deep, every level with 0, 1 or 2 elseif branches and with / without a final else; conditions are
    `$x == id` with distinct ids and the program runs the ladder for EVERY x (one per condition, plus one that takes
    no branch), so every branch of every shape is taken once — enumerated, not sampled.  Control: an else block
    with a second statement after the nested if."""
    out = []
    def shapes(depth):
        for nel in (0, 1, 2):
            yield (nel, "none")
            yield (nel, "plain")
            if depth > 1:
                for sub in shapes(depth - 1):
                    yield (nel, sub)
    def build(shape, ctr):
        nel, els = shape
        ctr[0] += 1
        me = ctr[0]
        then = [echo_("T%d" % me)]
        elifs = []
        for _ in range(nel):
            ctr[0] += 1
            elifs.append([["bin", "Eq", var("x"), lit(ctr[0])], [echo_("E%d" % ctr[0])]])
        if els == "none":
            e = []
        elif els == "plain":
            e = [echo_("L%d" % me)]
        else:
            e = [build(els, ctr)]
        return ["if", ["bin", "Eq", var("x"), lit(me)], then, elifs, e]
    for i, sh in enumerate(shapes(4)):
        ctr = [0]
        ladder = build(sh, ctr)
        body = [ladder, echo_("|")]
        if i % 5 == 0:
            # the same ladder inside a function, branches returning
            f = {"name": "lad", "params": [["x", None]], "body": [ladder, ["return", var("x")]]}
            out.append({"funcs": [f], "main": [["for", [["assign", "x", lit(0)]], ["bin", "Le", var("x"), lit(ctr[0] + 1)], [["postinc", "x"]],
                                                [tag(";", ["call", "lad", [var("x")]])]]]})
        else:
            out.append({"funcs": [], "main": [["for", [["assign", "x", lit(0)]], ["bin", "Le", var("x"), lit(ctr[0] + 1)], [["postinc", "x"]], body]]})
    # control: the else block holds the nested if AND another statement (must not be flattened)
    for sh in [(0, (1, "plain")), (1, (2, (1, "none"))), (0, (0, (0, (1, "plain"))))]:
        ctr = [0]
        ladder = build(sh, ctr)
        ladder[4] = ladder[4] + [echo_("+after")]
        out.append({"funcs": [], "main": [["for", [["assign", "x", lit(0)]], ["bin", "Le", var("x"), lit(ctr[0] + 1)], [["postinc", "x"]], [ladder, echo_("|")]]]})
    return out


def static_position_programs():
    """a `static` declaration in EVERY statement position of a function body, and nowhere else in that function: the body
    of if / elseif / else, of each loop kind, of a switch clause (matched, fallen into, default), of try / catch /
    finally, two levels deep, and as one multi-variable statement; the function is called several times and
    recursively, the cell must survive both (a parse-time scan for `static` that misses a position would drop the
    function's static store)."""
    out = []
    n, st = var("n"), var("s")
    use = lambda: [["expr", ["assign", "s", ["bin", "Add", st, lit(3)]]], tag(" s", st)]
    decl = lambda: [["static", "s", 5]]
    d = lambda: decl() + use()
    positions = {
        "if-then": [["if", ["bin", "Ge", n, lit(0)], d(), [], []]],
        "elseif": [["if", ["bin", "Lt", n, lit(0)], [echo_("neg")], [[["bin", "Ge", n, lit(0)], d()]], []]],
        "else": [["if", ["bin", "Lt", n, lit(0)], [echo_("neg")], [], d()]],
        "else-if-ladder": [["if", ["bin", "Lt", n, lit(0)], [echo_("neg")], [], [["if", ["bin", "Gt", n, lit(50)], [echo_("big")], [], d()]]]],
        "while": [["expr", ["assign", "i", lit(0)]], ["while", ["bin", "Lt", var("i"), lit(2)], d() + [["expr", ["postinc", "i"]]]]],
        "dowhile": [["expr", ["assign", "i", lit(0)]], ["dowhile", d() + [["expr", ["postinc", "i"]]], ["bin", "Lt", var("i"), lit(2)]]],
        "for": [["for", [["assign", "i", lit(0)]], ["bin", "Lt", var("i"), lit(2)], [["postinc", "i"]], d()]],
        "foreach": [["foreach", ["arr", [lit(1), lit(2)]], None, "v", d()]],
        "switch-case": [["switch", lit(1), [["case", lit(1), d() + [["break", 1]]], ["default", [echo_("dflt")]]]]],
        "switch-fallen": [["switch", lit(1), [["case", lit(1), [echo_(" c1")]], ["case", lit(2), d() + [["break", 1]]], ["default", [echo_("dflt")]]]]],
        "switch-default": [["switch", lit(9), [["case", lit(1), [echo_("c1")]], ["default", d()]]]],
        "switch-decl-only": [["switch", lit(9), [["default", decl()]]]] + use(),
        "try": [["try", d(), [], [echo_(" f")]]],
        "finally": [["try", [echo_(" t")], [], d()]],
        "try-decl-finally-use": [["try", decl(), [], use()]],
        "loop-in-switch": [["switch", lit(2), [["case", lit(2), [["for", [["assign", "i", lit(0)]], ["bin", "Lt", var("i"), lit(2)], [["postinc", "i"]], d()]]]]]],
        "try-in-loop": [["for", [["assign", "i", lit(0)]], ["bin", "Lt", var("i"), lit(2)], [["postinc", "i"]], [["try", d(), [], []]]]],
        "multi": [["static", "a", 1, "joined"], ["static", "s", 5, "joined"], ["static", "b", 2]] + use() +
                 [["expr", ["assign", "a", ["bin", "Mul", var("a"), lit(2)]]], ["expr", ["postinc", "b"]], tag(" a", var("a")), tag(" b", var("b"))],
        "multi-in-switch": [["switch", lit(1), [["case", lit(1), [["static", "a", 1, "joined"], ["static", "s", 5]] + use() +
                                                 [["expr", ["postinc", "a"]], tag(" a", var("a"))]]]]],
        "top": d(),
    }
    # a call that does NOT execute the static statement has a plain local of that name: writing it must not touch the
    # static cell (q(true, 1); q(false, 9); q(true, ..) still sees 1), reading it sees null/unset, not the static
    c, v = var("c"), var("v")
    for wr in ([["expr", ["assign", "s", v]]], [["expr", ["assign", "s", ["bin", "Add", v, lit(1)]]]], [["expr", ["assign", "s", v]], ["expr", ["postinc", "s"]]],
               [["for", [["assign", "s", lit(0)]], ["bin", "Lt", st, v], [["postinc", "s"]], []]]):
        for guard in ("if", "switch", "loop"):
            decl_use = [["static", "s", 0], tag(" s", st)]
            if guard == "if":
                g = [["if", ["bin", "Eq", c, lit(1)], decl_use, [], []]]
            elif guard == "switch":
                g = [["switch", c, [["case", lit(1), decl_use + [["break", 1]]], ["default", [echo_(" -")]]]]]
            else:
                g = [["for", [["assign", "i", lit(0)]], ["bin", "Lt", var("i"), c], [["postinc", "i"]], decl_use]]
            q = {"name": "q", "params": [["c", None], ["v", None]], "body": g + wr + [["return", st]]}
            calls = [(1, 1), (0, 9), (1, 2), (0, 8), (0, 7), (1, 3)]
            out.append({"funcs": [q], "main": [tag(" r", ["call", "q", [lit(a), lit(b)]]) for a, b in calls]})
    for name, body in positions.items():
        f = {"name": "c", "params": [["n", None]],
             "body": [tag(" [", n)] + body + [["if", ["bin", "Gt", n, lit(0)], [["expr", ["assign", "r", ["call", "c", [["bin", "Sub", n, lit(1)]]]]], tag(" r", var("r"))], [], []],
                      ["return", n]]}
        out.append({"funcs": [f], "main": [tag("A", ["call", "c", [lit(0)]]), tag(" B", ["call", "c", [lit(0)]]), tag(" C", ["call", "c", [lit(2)]]),
                                          ["for", [["assign", "k", lit(0)]], ["bin", "Lt", var("k"), lit(2)], [["postinc", "k"]], [tag(" D", ["call", "c", [lit(1)]])]]]})
    return out


def static_branch_programs():
    """a static declaration inside a branch: on calls that do not take the branch the name is an ordinary local"""
    out = []
    k, n = var("k"), var("n")
    f = {"name": "f", "params": [["k", None]],
         "body": [["if", ["bin", "Gt", k, lit(0)], [["static", "n", 10], ["expr", ["postinc", "n"]]], [], [["expr", ["assign", "n", lit(100)]]]],
                  ["return", n]]}
    h = {"name": "h", "params": [["k", None]],
         "body": [["expr", ["assign", "c", lit(5)]],
                  ["if", ["bin", "Eq", k, lit(1)], [["static", "c", 1], ["expr", ["assign", "c", ["bin", "Mul", var("c"), lit(2)]]]], [], []],
                  ["return", var("c")]]}
    lp = {"name": "lp", "params": [["k", None]],
          "body": [["expr", ["assign", "t", lit(0)]],
                   ["for", [["assign", "i", lit(0)]], ["bin", "Lt", var("i"), k], [["postinc", "i"]],
                    [["static", "s", 0], ["expr", ["assign", "s", ["bin", "Add", var("s"), lit(1)]]], ["expr", ["assign", "t", var("s")]]]],
                   ["return", var("t")]]}
    for seq in ([1, 0, 1, 0, 1], [0, 0, 1, 1, 0], [1, 1, 1]):
        main = []
        for v in seq:
            main += [tag("f", ["call", "f", [lit(v)]]), tag("h", ["call", "h", [lit(v)]]), tag("l", ["call", "lp", [lit(v + 1)]])]
        out.append({"funcs": [f, h, lp], "closures": [], "main": main})
    return out


def index_programs():
    """$a[i]++ / ++$a[i] / $a[i] = e update the element (and only it), the value of the expression is the old / new
    element, the index expression is evaluated once, copies of the array are not affected"""
    out = []
    nx = {"name": "nx", "params": [], "body": [["static", "k", 0], tag("<nx", var("k")), ["expr", ["assign", "r", var("k")]],
                                                ["expr", ["postinc", "k"]], ["return", var("r")]]}
    el = {"name": "el", "params": [["a", None]], "body": [["expr", ["idxinc", False, "a", lit(1)]], ["return", ["idx", "a", lit(1)]]]}
    show = [["foreach", var("b"), "k", "v", [tag(" ", var("v"))]]]
    main = [["expr", ["assign", "b", ["arr", [lit(10), lit(20), lit(30)]]]],
            ["expr", ["idxinc", False, "b", lit(0)]], ["expr", ["idxinc", True, "b", lit(1)]], ["setidx", "b", 2, ["bin", "Add", ["idx", "b", lit(2)], lit(5)]],
            ["expr", ["assign", "i", lit(1)]], ["expr", ["idxinc", False, "b", var("i")]]] + show + [
            ["expr", ["assign", "x", ["idxinc", False, "b", lit(0)]]], ["expr", ["assign", "y", ["idxinc", True, "b", lit(0)]]],
            tag(" x=", var("x")), tag(" y=", var("y")),
            ["expr", ["idxinc", False, "b", ["call", "nx", []]]], ["expr", ["idxinc", True, "b", ["call", "nx", []]]]] + show + [
            ["expr", ["assign", "i", lit(0)]], ["expr", ["idxinc", False, "b", ["postinc", "i"]]], tag(" i=", var("i"))] + show + [
            ["expr", ["assign", "c", var("b")]], ["expr", ["idxinc", False, "c", lit(2)]], ["setidx", "c", 0, lit(0)],
            tag(" c2=", ["idx", "c", lit(2)]), tag(" b2=", ["idx", "b", lit(2)]), tag(" b0=", ["idx", "b", lit(0)]),
            tag(" el=", ["call", "el", [var("b")]]), tag(" b1=", ["idx", "b", lit(1)])]
    out.append({"funcs": [nx, el], "closures": [], "main": main})
    # a by-value foreach walks the array as it was when the loop started, whatever the body does to the array
    main2 = [["expr", ["assign", "a", ["arr", [lit(1), lit(2), lit(3)]]]],
             ["foreach", var("a"), "k", "v", [["setidx", "a", 2, lit(99)], ["expr", ["idxinc", True, "a", lit(1)]], ["push", "a", lit(7)],
                                              tag(" v", var("v"))]],
             ["foreach", var("a"), None, "w", [tag(" w", var("w"))]]]
    out.append({"funcs": [], "closures": [], "main": main2})
    # ++$x / --$x (variables and elements) as the statement right after a do-while
    main3 = [["expr", ["assign", "q", lit(1)]], ["expr", ["assign", "b", ["arr", [lit(5), lit(3)]]]], ["expr", ["assign", "d", lit(0)]],
             ["dowhile", [["expr", ["postinc", "d"]]], ["bin", "Lt", var("d"), lit(2)]], ["expr", ["idxinc", True, "b", lit(0)]],
             ["dowhile", [["expr", ["postinc", "d"]]], ["bin", "Lt", var("d"), lit(1)]], ["expr", ["idxinc", False, "b", lit(1)]],
             tag("b0=", ["idx", "b", lit(0)]), tag(" b1=", ["idx", "b", lit(1)]), tag(" d=", var("d"))]
    out.append({"funcs": [], "closures": [], "main": main3})
    return out


def namedarg_programs():
    """named arguments of function calls (/repo 023935e, 79da08f, 783dd71): for f($a = 1, $b = 2, $c = 3) EVERY split into a
    positional prefix and a set of named arguments of the remaining parameters, in every order (24 calls), each
    argument a tracing call (evaluation order = source order); required + optional parameters; named recursion;
    calls in loops and inside functions; and the four errors (unknown name, name used twice, name of a parameter
    that got a positional argument, required parameter not passed), each with tracing arguments before and after the
    offending one (the value of the offending argument is computed, the later ones are not)"""
    import itertools
    out = []
    tr = {"name": "tr", "params": [["n", None]], "body": [tag("<", var("n")), ["return", var("n")]]}
    f = {"name": "f", "params": [["a", [1]], ["b", [2]], ["c", [3]]],
         "body": [tag("[a", var("a")), tag("b", var("b")), tag("c", var("c")),
                  ["return", ["bin", "Add", ["bin", "Mul", var("a"), lit(100)], ["bin", "Add", ["bin", "Mul", var("b"), lit(10)], var("c")]]]]}
    g = {"name": "g", "params": [["x", None], ["y", [10]]], "body": [["return", ["bin", "Sub", ["bin", "Mul", var("x"), lit(2)], var("y")]]]}
    h = {"name": "h", "params": [["p", None], ["q", None], ["r", [6]]],
         "body": [["return", ["bin", "Add", ["bin", "Mul", var("p"), lit(100)], ["bin", "Add", ["bin", "Mul", var("q"), lit(10)], var("r")]]]]}
    fact = {"name": "fact", "params": [["n", None], ["acc", [1]]],
            "body": [["if", ["bin", "Le", var("n"), lit(1)], [["return", var("acc")]], [], []],
                     ["return", ["calln", "fact", [], [["acc", ["bin", "Mul", var("acc"), var("n")]], ["n", ["bin", "Sub", var("n"), lit(1)]]]]]]}
    wrap = {"name": "wrap", "params": [["v", None]], "body": [["return", ["calln", "f", [var("v")], [["c", ["bin", "Add", var("v"), lit(1)]]]]]]}
    base = {"funcs": [tr, f, g, h, fact, wrap], "closures": []}
    t = lambda k: ["call", "tr", [lit(k)]]
    names = ["a", "b", "c"]
    calls = []
    for npos in range(4):
        rest = names[npos:]
        for k in range(len(rest) + 1):
            for sub in itertools.combinations(rest, k):
                for perm in itertools.permutations(sub):
                    calls.append((npos, perm))
    k = [3]
    def mk(npos, perm):
        pos = []
        for _ in range(npos):
            k[0] += 1
            pos.append(t(k[0] % 9 + 1))
        named = []
        for n in perm:
            k[0] += 1
            named.append([n, t(k[0] % 9 + 1)])
        return ["calln", "f", pos, named]
    for i in range(0, len(calls), 6):
        out.append(dict(base, main=[tag(" r=", mk(*c)) for c in calls[i:i + 6]]))
    out.append(dict(base, main=[tag(" g1=", ["calln", "g", [], [["x", lit(1)]]]), tag(" g2=", ["calln", "g", [], [["y", lit(2)], ["x", lit(3)]]]),
                                tag(" g3=", ["calln", "g", [lit(4)], [["y", lit(5)]]]), tag(" h1=", ["calln", "h", [lit(1)], [["r", lit(2)], ["q", lit(3)]]]),
                                tag(" h2=", ["calln", "h", [], [["q", t(3)], ["p", t(1)]]]), tag(" h3=", ["calln", "h", [lit(1), lit(2)], [["r", lit(9)]]]),
                                tag(" fact=", ["calln", "fact", [], [["n", lit(5)]]]), tag(" w=", ["call", "wrap", [lit(4)]]),
                                ["for", [["assign", "i", lit(0)]], ["bin", "Lt", var("i"), lit(3)], [["postinc", "i"]],
                                 [tag(" l=", ["calln", "f", [var("i")], [["c", ["bin", "Mul", var("i"), lit(2)]]]]), tag(" i=", var("i"))]],
                                tag(" nest=", ["calln", "g", [], [["y", ["calln", "g", [lit(1)], [["y", lit(1)]]]], ["x", ["calln", "f", [], [["b", lit(0)]]]]]])]))
    # the errors: output up to the offending argument is kept, the script ends with an uncaught Error
    errs = [["calln", "f", [], [["b", t(1)], ["d", t(2)], ["a", t(3)]]],                 # unknown name
            ["calln", "f", [], [["b", t(1)], ["b", t(2)], ["a", t(3)]]],                 # the name twice
            ["calln", "f", [t(1), t(2)], [["c", t(3)], ["a", t(4)], ["b", t(5)]]],       # parameter already has a positional argument
            ["calln", "f", [t(1), t(2), t(3), t(4)], [["c", t(5)]]],                     # the same, with a surplus positional argument
            ["calln", "g", [], [["y", t(1)]]],                                           # required parameter not passed
            ["calln", "h", [t(1)], [["r", t(2)]]],                                       # required parameter in the middle not passed
            ["calln", "nosuch", [], [["a", t(1)]]]]                                      # undefined function: before the arguments
    for e in errs:
        out.append(dict(base, main=[echo_("a;"), tag(" ok=", ["calln", "f", [], [["c", lit(7)]]]), tag(" r=", e), echo_("never")]))
    out.append(dict(base, main=[["for", [["assign", "i", lit(0)]], ["bin", "Lt", var("i"), lit(3)], [["postinc", "i"]],
                                 [tag(" i=", var("i")), ["if", ["bin", "Eq", var("i"), lit(1)], [tag(" r=", errs[0])], [], [tag(" r=", ["calln", "f", [var("i")], [["c", lit(0)]]])]]]],
                                echo_("never")]))
    return out


def reentrant_programs():
    """re-entrant statements: a statement whose body calls the enclosing function again (directly, or through a
    second function) BEFORE it has finished, every activation with its own data (an array and bounds built from the
    argument, a local counter, a static call counter); the outer activation's remaining iterations / clauses are
    observed after the inner call returned.  Every loop kind, foreach in four shapes (variable / inline array
    expression, with and without key), switch with fall-through, match, try/finally; the recursive call at the
    first and at a middle iteration; depth 2 and 3; direct and mutual.  (State kept on an AST node - a snapshot
    buffer, a cursor, a cached context - is shared by the activations; state kept in the frame is not.)"""
    out = []
    d, k, v = var("d"), var("k"), var("v")
    items = ["arr", [["bin", "Add", ["bin", "Mul", d, lit(10)], lit(j)] for j in (1, 2, 3)]]
    dec = ["bin", "Sub", d, lit(1)]
    for via in ("w", "g"):
        gfun = {"name": "g", "params": [["d", None]], "body": [tag("g", d), ["return", ["bin", "Add", ["call", "w", [d]], lit(100)]]]}
        for pos in (0, 1):
            def rec():
                return [["if", ["and", ["bin", "Gt", d, lit(0)], ["bin", "Eq", k, lit(pos)]],
                         [["echo", lit("(")], tag("r", ["call", via, [dec]]), ["echo", lit(")")]], [], []]]
            def visit():
                return [tag(" d", d), tag("k", k), tag("v", v)] + rec() + [tag(";d", d), tag("v", v), ["expr", ["postinc", "n"]]]
            pro = [["static", "calls", 0], ["expr", ["postinc", "calls"]], ["expr", ["assign", "items", items]], ["expr", ["assign", "n", lit(0)]]]
            epi = [tag(" n", var("n")), tag("c", var("calls")), ["return", ["bin", "Add", ["bin", "Mul", d, lit(1000)], var("n")]]]
            getv = ["expr", ["assign", "v", ["idx", "items", k]]]
            shapes = {
                "foreach-var-kv": [["foreach", var("items"), "k", "v", visit()]],
                "foreach-var-v": [["expr", ["assign", "k", lit(0)]], ["foreach", var("items"), None, "v", visit() + [["expr", ["postinc", "k"]]]]],
                "foreach-expr-kv": [["foreach", items, "k", "v", visit()]],
                "foreach-expr-v": [["expr", ["assign", "k", lit(0)]], ["foreach", items, None, "v", visit() + [["expr", ["postinc", "k"]]]]],
                "for": [["for", [["assign", "k", lit(0)]], ["bin", "Lt", k, lit(3)], [["postinc", "k"]], [getv] + visit()]],
                "for-le": [["for", [["assign", "k", lit(0)]], ["bin", "Le", k, lit(2)], [["assign", "k", ["bin", "Add", k, lit(1)]]], [getv] + visit()]],
                "while": [["expr", ["assign", "k", lit(0)]], ["while", ["bin", "Lt", k, lit(3)], [getv] + visit() + [["expr", ["postinc", "k"]]]]],
                "dowhile": [["expr", ["assign", "k", lit(0)]], ["dowhile", [getv] + visit() + [["expr", ["postinc", "k"]]], ["bin", "Lt", k, lit(3)]]],
                "nested": [["foreach", var("items"), "k", "v", [["for", [["assign", "j", lit(0)]], ["bin", "Lt", var("j"), lit(2)], [["postinc", "j"]],
                                                                 [tag(" j", var("j"))] + (visit() if True else [])]]]],
                "switch": [["expr", ["assign", "k", lit(pos)]], ["expr", ["assign", "v", ["idx", "items", lit(0)]]],
                           ["switch", d, [["case", lit(2), visit()], ["case", lit(1), [tag(" one", d)] + visit()],
                                          ["default", [tag(" dflt", d), ["break", 1]]], ["case", lit(0), [tag(" zero", d)]]]]],
                "match": [["expr", ["assign", "k", lit(pos)]], ["expr", ["assign", "v", ["idx", "items", lit(1)]]],
                          tag(" m", ["match", d, [[[lit(3), lit(2)], ["bin", "Add", ["call", via, [dec]], v]], [[lit(1)], ["bin", "Mul", ["call", via, [dec]], lit(2)]]], lit(7), 9]),
                          tag(";d", d), tag("v", v)],
                "try": [["foreach", var("items"), "k", "v", [["try", visit(), [], [tag(" f", d), tag("k", k)]]]]],
            }
            for name, loop in shapes.items():
                w = {"name": "w", "params": [["d", None]], "body": pro + loop + epi}
                for depth in (2, 3):
                    if depth == 3 and name in ("nested",):
                        continue
                    out.append({"funcs": [w, gfun] if via == "g" else [w],
                                "main": [tag("R", ["call", "w", [lit(depth)]]), tag(" again", ["call", "w", [lit(1)]]),
                                         ["for", [["assign", "i", lit(0)]], ["bin", "Lt", var("i"), lit(2)], [["postinc", "i"]], [tag(" flat", ["call", "w", [lit(0)]])]]]})
    return out


def callarg_programs():
    """argument lists longer and shorter than the parameter list: every argument expression is evaluated, left to
    right, also the surplus ones (a tracing callee shows it); a required parameter without argument is an error
    raised after the arguments were evaluated and before the body runs"""
    out = []
    tr = {"name": "tr", "params": [["n", None]], "body": [tag("<", var("n")), ["return", var("n")]]}
    one = {"name": "one", "params": [["a", None]], "body": [tag("[one ", var("a")), ["return", var("a")]]}
    two = {"name": "two", "params": [["a", None], ["b", [5]]], "body": [tag("[two ", ["bin", "Add", var("a"), var("b")]), ["return", var("b")]]}
    req = {"name": "req", "params": [["a", None], ["b", None]], "body": [echo_("never"), ["return", lit(0)]]}
    clo = [{"params": [["p", None]], "uses": [], "body": [["return", ["bin", "Mul", var("p"), lit(2)]]], "arrow": True},
           {"params": [["p", None], ["q", None]], "uses": [], "body": [["return", var("q")]], "arrow": False}]
    t = lambda k: ["call", "tr", [lit(k)]]
    base = {"funcs": [tr, one, two, req], "closures": clo}
    out.append(dict(base, main=[tag(" r=", ["call", "one", [t(1), t(2)]]), tag(" r=", ["call", "one", [lit(7), t(3), t(4)]]),
                                tag(" r=", ["call", "two", [t(5)]]), tag(" r=", ["call", "two", [t(6), t(7), t(8)]]),
                                ["expr", ["assign", "c", ["closure", 0]]], tag(" c=", ["callv", var("c"), [t(9), t(10)]])]))
    out.append(dict(base, main=[echo_("a;"), tag(" r=", ["call", "req", [t(1)]]), echo_("never")]))
    out.append(dict(base, main=[["expr", ["assign", "d", ["closure", 1]]], echo_("a;"), tag(" r=", ["callv", var("d"), [t(2)]]), echo_("never")]))
    out.append(dict(base, main=[["for", [["assign", "i", lit(0)]], ["bin", "Lt", var("i"), lit(2)], [["postinc", "i"]],
                                 [tag(" r=", ["call", "one", [var("i"), ["call", "one", [t(4), t(5)]]]])]]]))
    return out


def echo_(s):
    return ["echo", lit(s)]


def falloff_programs():
    """closures whose body runs off its end yield null (/repo 1b0c649; the implementation yielded the value of the last
    statement): last statement an assignment, an if without else, a loop, an echo, a static update; called as a value and
    as a statement; an arrow function next to it keeps yielding its expression"""
    out = []
    bodies = ([["expr", ["assign", "x", lit(5)]]],
              [["if", ["bin", "Gt", var("p"), lit(0)], [["return", lit(1)]], [], []], ["expr", ["assign", "y", lit(7)]]],
              [["expr", ["assign", "z", ["bin", "Add", var("p"), lit(1)]]], ["echo", lit("in;")], ["expr", ["postinc", "z"]]],
              [["if", ["bin", "Gt", var("p"), lit(0)], [["expr", ["assign", "y", lit(3)]]], [], []]],
              [["for", [["assign", "i", lit(0)]], ["bin", "Lt", var("i"), lit(2)], [["postinc", "i"]], [["expr", ["assign", "y", var("i")]]]]],
              [["static", "s", 4], ["expr", ["assign", "s", ["bin", "Add", var("s"), lit(1)]]]],
              [["expr", ["assign", "x", lit(5)]], ["echo", var("x")]])
    for body in bodies:
        for arg in (0, 1):
            clo = {"params": [["p", None]], "uses": [], "body": body, "arrow": False}
            arrow = {"params": [["p", None]], "uses": [], "body": [["return", ["bin", "Add", var("p"), lit(40)]]], "arrow": True}
            main = [["expr", ["assign", "f", ["closure", 0]]], ["expr", ["assign", "g", ["closure", 1]]],
                    ["expr", ["assign", "r", ["callv", var("f"), [lit(arg)]]]],
                    ["if", ["same", var("r"), lit(None)], [["echo", lit("null")]], [], [tag("value:", var("r"))]],
                    ["expr", ["callv", var("f"), [lit(arg)]]], tag(" arrow:", ["callv", var("g"), [lit(arg)]])]
            out.append({"funcs": [], "closures": [clo, arrow], "main": main})
    return out


def dirty_programs(rng, n):
    """programs of the former defect classes, all repaired in /repo: clean programs now (key None)"""
    out = []
    for i in range(n):
        kind = ["case-nonlast", "empty-case-group", "default-nonlast", "static-main"][i % 4]
        sel = rng.randint(0, 3)
        if kind == "case-nonlast":
            sw = ["switch", var("x"), [["case", lit(1), [tag("one:", var("x"))]],
                                        ["case", lit(2), [tag("two:", var("x")), ["break", 1]]],
                                        ["default", [tag("d:", var("x"))]]]]
            key = "switch:fallthrough:case-nonlast"
        elif kind == "empty-case-group":
            sw = ["switch", var("x"), [["case", lit(1), []], ["case", lit(2), [tag("grp:", var("x")), ["break", 1]]],
                                        ["default", [tag("d:", var("x"))]]]]
            key = "switch:fallthrough:empty-case-group"
        elif kind == "default-nonlast":
            sw = ["switch", var("x"), [["default", [tag("d:", var("x"))]], ["case", lit(1), [tag("one:", var("x")), ["break", 1]]],
                                        ["case", lit(2), [tag("two:", var("x"))]]]]
            key = "switch:fallthrough:default-nonlast"
        else:
            sw = None
            key = "static:main-scope"
        if sw is not None:
            if rng.random() < 0.5:
                main = [["expr", ["assign", "x", lit(sel)]], sw, tag("end:", var("x"))]
            else:
                main = [["for", [["assign", "x", lit(0)]], ["bin", "Lt", var("x"), lit(4)], [["postinc", "x"]], [sw]],
                        tag("end:", var("x"))]
        else:
            main = [["for", [["assign", "i", lit(0)]], ["bin", "Lt", var("i"), lit(2 + sel % 2)], [["postinc", "i"]],
                     [["static", "z", 5], ["expr", ["postinc", "z"]], tag("z:", var("z"))]]]
        out.append(({"funcs": [], "main": main}, None))
    return out



# ----------------------------------------------------------------------------- magnitude / step filter
class TooBig(Exception):
    pass


class _Brk(Exception):
    def __init__(self, n):
        self.n = n


class _Cnt(Exception):
    def __init__(self, n):
        self.n = n


class _Ret(Exception):
    def __init__(self, v):
        self.v = v


class _Thr(Exception):
    def __init__(self, v):
        self.v = v


class Probe:
    """A plain evaluator of the generator's AST used ONLY to discard programs whose integers could leave
    the 64-bit range or that run too long (the Coq model computes in Z, the interpreter in int64; the
    operators are not this property's subject).  It is not an oracle: nothing is compared with it."""

    LIMIT = 1 << 40

    def __init__(self, pr, budget=60000):
        self.funcs = {f["name"]: f for f in pr["funcs"]}
        self.clos = pr.get("closures", [])
        self.classes = {c[0]: c for c in pr.get("classes", [])}
        self.ifaces = {i[0]: i for i in pr.get("ifaces", [])}
        self.nextid = 0
        self.heap = {}
        self.statics = {}
        self.steps = budget
        self.pr = pr

    def tick(self):
        self.steps -= 1
        if self.steps < 0:
            raise TooBig()

    def chk(self, v):
        if isinstance(v, int) and not isinstance(v, bool) and abs(v) > self.LIMIT:
            raise TooBig()
        if isinstance(v, str) and len(v) > 400:
            raise TooBig()
        return v

    def rd(self, fr, x):
        if x in fr["static"]:
            return self.statics.get((fr["fn"], x))
        return fr["vars"].get(x)

    def wr(self, fr, x, v):
        if x in fr["static"]:
            self.statics[(fr["fn"], x)] = v
        else:
            fr["vars"][x] = v

    def tostr(self, v):
        if v is None:
            return ""
        if isinstance(v, bool):
            return "true" if v else "false"
        return str(v)

    def ev(self, e, fr):
        self.tick()
        k = e[0]
        if k == "lit":
            return e[1]
        if k == "var":
            return self.rd(fr, e[1])
        if k == "bin":
            a, b = self.ev(e[2], fr), self.ev(e[3], fr)
            op = e[1]
            if op == "Concat":
                return self.chk(self.tostr(a) + self.tostr(b))
            if op in ("Eq", "Ne"):
                r = (a == b) and type(a) == type(b)
                return r if op == "Eq" else not r
            if not (isinstance(a, int) and isinstance(b, int)):
                raise TooBig()          # ill-typed: outside the generator's domain
            if op == "Add":
                return self.chk(a + b)
            if op == "Sub":
                return self.chk(a - b)
            if op == "Mul":
                return self.chk(a * b)
            return {"Lt": a < b, "Le": a <= b, "Gt": a > b, "Ge": a >= b}[op]
        if k == "not":
            return not self.ev(e[1], fr)
        if k == "and":
            return bool(self.ev(e[1], fr)) and bool(self.ev(e[2], fr))
        if k == "or":
            return bool(self.ev(e[1], fr)) or bool(self.ev(e[2], fr))
        if k == "assign":
            v = self.ev(e[2], fr)
            self.wr(fr, e[1], v)
            return v
        if k == "postinc":
            v = self.rd(fr, e[1])
            self.wr(fr, e[1], self.chk((v or 0) + 1))
            return v
        if k == "arr":
            return [self.ev(x, fr) for x in e[1]]
        if k == "call":
            f = self.funcs[e[1]]
            vs = [self.ev(x, fr) for x in e[2]]
            nf = {"fn": f["name"], "vars": {}, "static": set()}
            for i, (x, d) in enumerate(f["params"]):
                if i < len(vs):
                    nf["vars"][x] = vs[i]
                elif d is not None:
                    nf["vars"][x] = d[0]
                else:
                    raise _Thr(("err", "too few arguments"))
            try:
                self.block(f["body"], nf)
            except _Ret as r:
                return r.v
            return None
        if k == "interp":
            out = ""
            for x in e[1]:
                out += x if isinstance(x, str) else self.tostr(self.ev(x, fr))
            return out
        if k == "calln":
            f = self.funcs[e[1]]
            vs = [self.ev(x, fr) for x in e[2]]
            names = [x for x, _ in f["params"]]
            given = {}
            for n, x in e[3]:
                v = self.ev(x, fr)
                if n not in names or names.index(n) < len(vs) or n in given:
                    raise _Thr(("err", "named parameter"))
                given[n] = v
            nf = {"fn": f["name"], "vars": {}, "static": set()}
            for i, (x, d) in enumerate(f["params"]):
                if i < len(vs):
                    nf["vars"][x] = vs[i]
                elif x in given:
                    nf["vars"][x] = given[x]
                elif d is not None:
                    nf["vars"][x] = d[0]
                else:
                    raise _Thr(("err", "argument not passed"))
            try:
                self.block(f["body"], nf)
            except _Ret as r:
                return r.v
            return None
        if k == "idx":
            i = self.ev(e[2], fr)
            a = self.rd(fr, e[1])
            if not isinstance(a, list) or not isinstance(i, int) or not (0 <= i < len(a)):
                raise TooBig()                # outside the generator's domain
            return a[i]
        if k == "idxinc":
            i = self.ev(e[3], fr)
            a = self.rd(fr, e[2])
            if not isinstance(a, list) or not isinstance(i, int) or not (0 <= i < len(a)) or not isinstance(a[i], int):
                raise TooBig()
            old = a[i]
            b = list(a)
            b[i] = self.chk(old + 1)
            self.wr(fr, e[2], b)
            return b[i] if e[1] else old
        if k == "closure":
            c = self.clos[e[1]]
            self.nextid += 1
            return ("clo", e[1], self.nextid, {x: self.rd(fr, x) for x in c["uses"]})
        if k == "callv":
            f = self.ev(e[1], fr)
            if not (isinstance(f, tuple) and f[0] == "clo"):
                raise TooBig()
            vs = [self.ev(x, fr) for x in e[2]]
            c = self.clos[f[1]]
            nf = {"fn": "{%d" % f[2], "vars": {}, "static": set()}
            for i, (x, d) in enumerate(c["params"]):
                if i < len(vs):
                    nf["vars"][x] = vs[i]
                elif d is not None:
                    nf["vars"][x] = d[0]
                else:
                    raise _Thr(("err", "too few arguments"))
            nf["vars"].update(f[3])
            try:
                self.block(c["body"], nf)
            except _Ret as r:
                return r.v
            return None
        if k == "new":
            m = self.tostr(self.ev(e[2], fr))
            self.nextid += 1
            return ("obj", self.nextid, e[1], m)
        if k in ("msg", "class"):
            v = self.ev(e[1], fr)
            if not isinstance(v, tuple):
                raise _Thr(("err", "not an object"))
            return v[3] if k == "msg" else v[2]
        if k in ("prop", "hi"):
            v = self.ev(e[1], fr)
            if not (isinstance(v, tuple) and v[0] == "obj"):
                raise _Thr(("err", "not an object"))
            n = self.heap.get(v[1], 1)
            return n if k == "prop" else "hi" + self.tostr(n)
        if k == "setprop":
            w = self.ev(e[2], fr)
            v = self.ev(e[1], fr)
            if not (isinstance(v, tuple) and v[0] == "obj"):
                raise _Thr(("err", "not an object"))
            self.heap[v[1]] = w
            return w
        if k == "same":
            a, b = self.ev(e[1], fr), self.ev(e[2], fr)
            if isinstance(a, tuple) and isinstance(b, tuple):
                return a[1] == b[1]
            return a == b and type(a) == type(b)
        if k == "panic":
            raise _Thr(("err", "panic"))
        if k == "match":
            v = self.ev(e[1], fr)
            for cs, x in e[2]:
                for c in cs:
                    w = self.ev(c, fr)
                    if w == v and type(w) == type(v):
                        return self.ev(x, fr)
            return None if e[3] is None else self.ev(e[3], fr)
        raise ValueError(k)

    def is_a(self, cls, target):
        seen = set()
        while cls is not None and cls not in seen:
            seen.add(cls)
            if cls == target:
                return True
            c = self.classes.get(cls)
            impls = c[2] if c else (["Throwable"] if cls in ("Exception", "Error") else [])
            todo = list(impls)
            vis = set()
            while todo:
                i = todo.pop()
                if i == target:
                    return True
                if i in vis:
                    continue
                vis.add(i)
                todo += self.ifaces.get(i, (i, []))[1]
            cls = c[1] if c else None
        return False

    def catches(self, ty, v):
        if v[0] == "err":
            return ty in ("Throwable", "Exception", "Error")
        return self.is_a(v[2], ty) or (ty == "Throwable" and (self.is_a(v[2], "Exception") or self.is_a(v[2], "Error")))

    def block(self, b, fr):
        for s in b:
            self.stmt(s, fr)

    def loop_body(self, b, fr):
        """returns True when the loop must stop"""
        try:
            self.block(b, fr)
        except _Brk as j:
            if j.n > 1:
                raise _Brk(j.n - 1)
            return True
        except _Cnt as j:
            if j.n > 1:
                raise _Cnt(j.n - 1)
        return False

    def stmt(self, s, fr):
        self.tick()
        k = s[0]
        if k in ("expr", "echo"):
            self.ev(s[1], fr)
        elif k == "push":
            v = self.ev(s[2], fr)
            a = self.rd(fr, s[1])
            self.wr(fr, s[1], (list(a) if isinstance(a, list) else []) + [v])
        elif k == "setidx":
            v = self.ev(s[3], fr)
            a = self.rd(fr, s[1])
            if not isinstance(a, list) or not (0 <= s[2] < len(a)):
                raise TooBig()
            b = list(a)
            b[s[2]] = v
            self.wr(fr, s[1], b)
        elif k == "if":
            if self.ev(s[1], fr):
                return self.block(s[2], fr)
            for c, b in s[3]:
                if self.ev(c, fr):
                    return self.block(b, fr)
            self.block(s[4], fr)
        elif k == "while":
            while self.ev(s[1], fr):
                if self.loop_body(s[2], fr):
                    break
        elif k == "dowhile":
            while True:
                if self.loop_body(s[1], fr):
                    break
                if not self.ev(s[2], fr):
                    break
        elif k == "for":
            for e in s[1]:
                self.ev(e, fr)
            while self.ev(s[2], fr):
                if self.loop_body(s[4], fr):
                    break
                for e in s[3]:
                    self.ev(e, fr)
        elif k == "foreach":
            a = self.ev(s[1], fr)
            for i, v in enumerate(list(a or [])):
                self.wr(fr, s[3], v)
                if s[2]:
                    self.wr(fr, s[2], i)
                if self.loop_body(s[4], fr):
                    break
        elif k == "switch":
            v = self.ev(s[1], fr)
            start = None
            for i, cl in enumerate(s[2]):
                if cl[0] == "case" and self.ev(cl[1], fr) == v:
                    start = i
                    break
            if start is None:
                for i, cl in enumerate(s[2]):
                    if cl[0] == "default":
                        start = i
                        break
            if start is not None:
                for cl in s[2][start:]:
                    if self.loop_body(cl[-1], fr):
                        break
                    # a `continue` aimed at the switch also ends it
                    # (loop_body returns False for it, so emulate by scanning is not needed: see below)
        elif k == "break":
            raise _Brk(s[1])
        elif k == "continue":
            raise _Cnt(s[1])
        elif k == "return":
            raise _Ret(None if s[1] is None else self.ev(s[1], fr))
        elif k == "static":
            if (fr["fn"], s[1]) not in self.statics:
                self.statics[(fr["fn"], s[1])] = s[2]
            fr["static"].add(s[1])
        elif k == "ifinst":
            v = self.rd(fr, s[1])
            yes = isinstance(v, tuple) and v[0] == "obj" and self.catches(s[2], v)
            self.block(s[3] if yes else s[4], fr)
        elif k == "throw":
            v = self.ev(s[1], fr)
            raise _Thr(v if isinstance(v, tuple) else ("err", self.tostr(v)))
        elif k == "try":
            pending = None
            try:
                try:
                    self.block(s[1], fr)
                except _Thr as t:
                    for tys, x, b in s[2]:
                        if any(self.catches(ty, t.v) for ty in tys.split("|")):
                            if x is not None:
                                self.wr(fr, x, t.v)
                            self.block(b, fr)
                            break
                    else:
                        raise
            except (_Thr, _Brk, _Cnt, _Ret) as p:
                pending = p
            self.block(s[3] or [], fr)
            if pending is not None:
                raise pending
        else:
            raise ValueError(k)

    def acceptable(self):
        try:
            self.block(self.pr["main"], {"fn": "", "vars": {}, "static": set()})
        except TooBig:
            return False
        except (_Brk, _Cnt, _Ret, _Thr):
            return True
        except (TypeError, KeyError, RecursionError):
            return False
        return True

# ----------------------------------------------------------------------------- running
def run_impl(binary, progs, ck, srcs=None):
    """run all programs through engine processes (in parallel chunks); restart after a timeout"""
    if srcs is None:
        srcs = [php_prog(p) for p in progs]
    else:
        progs = srcs
    results = [None] * len(progs)
    nproc = max(1, min(8, vcheck.NCPU // 2, (len(progs) + 49) // 50))
    chunks = [list(range(i, len(progs), nproc)) for i in range(nproc)]

    def launch(idxs):
        inp = "".join(json.dumps({"src": srcs[i]}) + "\n" for i in idxs)
        p = subprocess.Popen([binary], stdin=subprocess.PIPE, stdout=subprocess.PIPE, stderr=subprocess.PIPE, text=True)
        return p, inp

    pending = [c for c in chunks if c]
    deaths = 0
    while pending:
        if deaths > 6:
            # the engine keeps dying / timing out: stop, the cases seen so far are reported
            for idxs in pending:
                for i in idxs:
                    if results[i] is None:
                        results[i] = {"out": "", "outcome": "skipped"}
            ck.broken.append("engine-deaths")
            break
        procs = [(idxs,) + launch(idxs) for idxs in pending]
        pending = []
        for idxs, p, inp in procs:
            try:
                out, err = p.communicate(inp, timeout=600)
            except subprocess.TimeoutExpired:
                p.kill()
                out, err = p.communicate()
            lines = []
            for l in out.splitlines():
                if not l.startswith("@@R@@ "):
                    continue                     # stray output written past the capture: not a result
                try:
                    lines.append(json.loads(l[6:]))
                except ValueError:
                    lines.append({"out": "", "outcome": "garbled", "detail": l[:200]})
            for i, o in zip(idxs, lines):
                results[i] = o
            if len(lines) < len(idxs):
                # the engine died on case idxs[len(lines)] (fatal error / timeout): attribute it, go on after it
                bad = idxs[len(lines)]
                deaths += 1
                if results[bad] is None:
                    results[bad] = {"out": "", "outcome": "died", "detail": (err or "")[-300:]}
                rest = idxs[len(lines) + 1:]
                if rest:
                    pending.append(rest)
    return srcs, results


# ----------------------------------------------------------------------------- built-in functions at their minimum arity
# (function, minimum number of arguments in the PHP manual, a call passing exactly that many).  The missing-argument
# check of CallExpression (ArgumentCountError, /repo 3d18be9) is for functions declared in scripts; a built-in implemented
# in Go that declares an optional parameter without a default must not be rejected (/repo 53506ae).  The first rows are the
# built-ins whose Go parameter list has more default-less parameters than the manual's minimum.
BUILTIN_MIN_ARITY = [
    ('array_reverse', 1, 'array_reverse([1,2,3])'),
    ('array_walk', 2, 'array_walk($a, function($v,$k){ echo $v; })'),
    ('number_format', 1, 'number_format(1234.5)'),
    ('pathinfo', 1, 'pathinfo("/a/b/c.txt")'),
    ('trigger_error', 1, 'trigger_error("note")'),
    ('strtok', 1, 'strtok("a b")'),
    ('getenv', 0, 'getenv()'),
    ('umask', 0, 'umask()'),
    ('implode', 1, 'implode(["a","b"])'),
    ('join', 1, 'join(["a","b"])'),
    ('grapheme_substr', 2, 'grapheme_substr("abcdef", 2)'),
    ('spl_autoload_register', 0, 'spl_autoload_register()'),
    ('mkdir', 1, 'mkdir("/tmp")'),
    ('fwrite', 2, 'fwrite($fh, "x")'),
    ('array_combine', 2, 'array_combine(["a"],[1])'),
    ('array_fill_keys', 2, 'array_fill_keys(["a"],0)'),
    ('array_filter', 1, 'array_filter([1,0,2])'),
    ('array_flip', 1, 'array_flip(["a","b"])'),
    ('array_is_list', 1, 'array_is_list([1])'),
    ('array_key_exists', 2, 'array_key_exists("a",["a"=>1])'),
    ('array_key_first', 1, 'array_key_first([1])'),
    ('array_keys', 1, 'array_keys([1,2])'),
    ('array_map', 2, 'array_map(function($x){return $x;},[1])'),
    ('array_merge', 0, 'array_merge()'),
    ('array_pad', 3, 'array_pad([1],2,0)'),
    ('array_pop', 1, 'array_pop($a)'),
    ('array_push', 1, 'array_push($a)'),
    ('array_rand', 1, 'array_rand([5])'),
    ('array_reduce', 2, 'array_reduce([1,2],function($c,$x){return $c+$x;})'),
    ('array_search', 2, 'array_search(2,[1,2])'),
    ('array_shift', 1, 'array_shift($a)'),
    ('array_slice', 2, 'array_slice([1,2,3],1)'),
    ('array_splice', 2, 'array_splice($a,1)'),
    ('array_unique', 1, 'array_unique([1,1])'),
    ('array_unshift', 1, 'array_unshift($a)'),
    ('array_values', 1, 'array_values([1])'),
    ('base64_decode', 1, 'base64_decode("YQ==")'),
    ('base64_encode', 1, 'base64_encode("a")'),
    ('basename', 1, 'basename("/a/b")'),
    ('bin2hex', 1, 'bin2hex("a")'),
    ('call_user_func', 1, 'call_user_func(function(){return 1;})'),
    ('ceil', 1, 'ceil(1.2)'),
    ('chr', 1, 'chr(65)'),
    ('class_exists', 1, 'class_exists("Nope")'),
    ('count', 1, 'count([1])'),
    ('ctype_digit', 1, 'ctype_digit("12")'),
    ('current', 1, 'current($a)'),
    ('define', 2, 'define("C_X",1)'),
    ('defined', 1, 'defined("C_Y")'),
    ('dirname', 1, 'dirname("/a/b")'),
    ('end', 1, 'end($a)'),
    ('explode', 2, 'explode(",","a,b")'),
    ('file_exists', 1, 'file_exists("/nonexistent")'),
    ('filter_var', 1, 'filter_var("1")'),
    ('floor', 1, 'floor(1.5)'),
    ('function_exists', 1, 'function_exists("strlen")'),
    ('get_debug_type', 1, 'get_debug_type(1)'),
    ('gettype', 1, 'gettype(1)'),
    ('gmdate', 1, 'gmdate("Y")'),
    ('hash', 2, 'hash("md5","a")'),
    ('htmlspecialchars', 1, 'htmlspecialchars("<")'),
    ('http_build_query', 1, 'http_build_query(["a"=>1])'),
    ('in_array', 2, 'in_array(1,[1])'),
    ('is_a', 2, 'is_a(1,"X")'),
    ('is_array', 1, 'is_array(1)'),
    ('is_callable', 1, 'is_callable("strlen")'),
    ('is_numeric', 1, 'is_numeric("1")'),
    ('iterator_to_array', 1, 'iterator_to_array([1])'),
    ('json_decode', 1, 'json_decode("1")'),
    ('json_encode', 1, 'json_encode(1)'),
    ('key', 1, 'key($a)'),
    ('ksort', 1, 'ksort($a)'),
    ('krsort', 1, 'krsort($a)'),
    ('lcfirst', 1, 'lcfirst("Ab")'),
    ('levenshtein', 2, 'levenshtein("a","b")'),
    ('ltrim', 1, 'ltrim(" a")'),
    ('max', 1, 'max([1,2])'),
    ('mb_strlen', 1, 'mb_strlen("a")'),
    ('mb_strpos', 2, 'mb_strpos("ab","b")'),
    ('mb_strtolower', 1, 'mb_strtolower("A")'),
    ('mb_substr', 2, 'mb_substr("abc",1)'),
    ('md5', 1, 'md5("a")'),
    ('microtime', 0, 'microtime()'),
    ('min', 1, 'min([1,2])'),
    ('next', 1, 'next($a)'),
    ('ord', 1, 'ord("a")'),
    ('parse_url', 1, 'parse_url("http://a/b")'),
    ('pow', 2, 'pow(2,3)'),
    ('preg_match', 2, 'preg_match("/a/","a")'),
    ('preg_match_all', 2, 'preg_match_all("/a/","aa")'),
    ('preg_quote', 1, 'preg_quote("a.b")'),
    ('preg_replace', 3, 'preg_replace("/a/","b","a")'),
    ('preg_replace_callback', 3, 'preg_replace_callback("/a/",function($m){return "b";},"a")'),
    ('preg_split', 2, 'preg_split("/,/","a,b")'),
    ('prev', 1, 'prev($a)'),
    ('rawurlencode', 1, 'rawurlencode("a b")'),
    ('reset', 1, 'reset($a)'),
    ('round', 1, 'round(1.5)'),
    ('rsort', 1, 'rsort($a)'),
    ('rtrim', 1, 'rtrim("a ")'),
    ('serialize', 1, 'serialize(1)'),
    ('sort', 1, 'sort($a)'),
    ('sprintf', 1, 'sprintf("a")'),
    ('str_contains', 2, 'str_contains("ab","a")'),
    ('str_ireplace', 3, 'str_ireplace("A","b","a")'),
    ('str_pad', 2, 'str_pad("a",3)'),
    ('str_repeat', 2, 'str_repeat("a",2)'),
    ('str_replace', 3, 'str_replace("a","b","a")'),
    ('str_split', 1, 'str_split("ab")'),
    ('strcasecmp', 2, 'strcasecmp("a","A")'),
    ('stripos', 2, 'stripos("ab","B")'),
    ('strlen', 1, 'strlen("a")'),
    ('strpos', 2, 'strpos("ab","b")'),
    ('strrpos', 2, 'strrpos("abb","b")'),
    ('strstr', 2, 'strstr("a@b","@")'),
    ('strtolower', 1, 'strtolower("A")'),
    ('strtotime', 1, 'strtotime("2020-01-01 00:00:00 UTC")'),
    ('strtr', 2, 'strtr("ab",["a"=>"x"])'),
    ('substr', 2, 'substr("abc",1)'),
    ('substr_count', 2, 'substr_count("aa","a")'),
    ('substr_replace', 3, 'substr_replace("abc","x",1)'),
    ('time', 0, 'time()'),
    ('trim', 1, 'trim(" a ")'),
    ('ucfirst', 1, 'ucfirst("a")'),
    ('ucwords', 1, 'ucwords("a b")'),
    ('unpack', 2, 'unpack("N","\\0\\0\\0\\1")'),
    ('unserialize', 1, 'unserialize("i:1;")'),
    ('urlencode', 1, 'urlencode("a b")'),
    ('usort', 2, 'usort($a,function($x,$y){return $x<=>$y;})'),
    ('var_export', 1, 'var_export(1)'),
    ('vsprintf', 2, 'vsprintf("%d",[1])'),
    ('ob_start', 0, 'ob_start()'),
    ('phpversion', 0, 'phpversion()'),
    ('random_int', 2, 'random_int(1,1)'),
    ('stream_context_create', 0, 'stream_context_create()'),
    ('json_encode', 1, 'json_encode([1])'),
    ('spl_object_id', 1, 'spl_object_id(new stdClass())'),
    ('method_exists', 2, 'method_exists(new stdClass(),"m")'),
    ('property_exists', 2, 'property_exists("X","p")'),
    ('is_subclass_of', 2, 'is_subclass_of("X","Y")'),
    ('error_reporting', 0, 'error_reporting()'),
    ('func_num_args', 0, 'func_num_args()'),
    ('get_class', 0, 'get_class()'),
]
ARITY_REJECTION = ("Too few arguments", "ArgumentCountError", "缺少参数")


# calls with named arguments outside the Coq core (closures, by-reference and variadic parameters, built-ins, methods,
# constructors): engine only, compared with the output PHP prescribes
NAMED_ENGINE_PROBES = [
    ("closure", '$cl = function($a = 1, $b = 2) { return "$a,$b"; }; echo $cl(b: 5), "|", $cl(7, b: 5), "|", $cl(b: 5, a: 6);', "1,5|7,5|6,5"),
    ("arrow", '$ar = fn($p, $q = 3) => $p * $q; echo $ar(q: 4, p: 2), "|", $ar(p: 5);', "8|15"),
    ("byref", 'function inc(&$x, $by = 1) { $x += $by; } $v = 1; inc(by: 5, x: $v); inc(x: $v); echo $v;', "7"),
    ("variadic", 'function va($a, ...$rest) { return $a . ":" . count($rest); } echo va(1, 2, 3), "|", va(a: 7), "|", va(7);', "1:2|7:0|7:0"),
    ("builtin", 'echo str_pad(string: "a", length: 3, pad_string: "-"), "|", implode(separator: ",", array: [1, 2]), "|", json_encode(value: [1]);', "a--|1,2|[1]"),
    ("typed", 'function t(int $a, string $b = "x") { return $a . $b; } echo t(b: "y", a: 3), "|", t(a: 4);', "3y|4x"),
    ("method", 'class C { function m($a = 1, $b = 2, $c = 3) { return "$a,$b,$c"; } static function s($a = 1, $b = 2, $c = 3) { return "$a,$b,$c"; } } '
               '$o = new C(); echo $o->m(c: 9), "|", $o->m(5, c: 9), "|", C::s(c: 9), "|", C::s(5, c: 9);', "1,2,9|5,2,9|1,2,9|5,2,9"),
    ("constructor", 'class K { public $v; function __construct($a = 1, $b = 2, $c = 3) { $this->v = "$a,$b,$c"; } } '
                    'echo (new K(c: 9))->v, "|", (new K(5, c: 9))->v, "|", (new K(b: 7, a: 8))->v;', "1,2,9|5,2,9|8,7,3"),
    ("promoted", 'class P { function __construct(public $x = 1, public $y = 2) {} } $p = new P(y: 9); echo $p->x, ",", $p->y;', "1,9"),
    ("caught", 'function f($a = 1) { return $a; } try { f(zz: 1); } catch (Error $e) { echo "E;"; } try { f(1, a: 2); } catch (Error $e) { echo "E;"; } '
               'function g($x, $y = 1) { return $x; } try { g(y: 2); } catch (Error $e) { echo "E;"; } echo f(a: 3);', "E;E;E;3"),
]


# generators are outside the Coq core; a yield inside each loop kind must suspend and resume THAT loop (engine only,
# expected output = PHP's).  /repo c2b40ec: a yield inside a foreach produced only the first element.
# switch compares like ==, whatever == says for the pair (engine only; mixed kinds are outside the typed core): one program
# per pair of values, prints "." when `switch ($a) { case $b: }` and `$a == $b` agree, the pair otherwise
SWITCH_EQ_VALUES = ['1', '"1"', '"01"', 'true', 'false', '5', '0', 'null', '"a"', '""', '"0"', '1.0', '"1.0"', '[]', '[1]', '-1']
SWITCH_EQ_PROBE = ('$vs = [%s]; foreach ($vs as $i => $a) { foreach ($vs as $j => $b) { $m = false; switch ($a) { case $b: $m = true; break; default: $m = false; } '
                   'echo ($m === ($a == $b)) ? "." : "[$i,$j]"; } }' % ", ".join(SWITCH_EQ_VALUES))

GEN_DECL = ('function kv($a) { foreach ($a as $k => $v) { yield $k => $v; } } function vs($a) { foreach ($a as $v) { yield $v; } } '
            'function show($g) { foreach ($g as $k => $v) { echo "$k=$v;"; } } ')
GENERATOR_ENGINE_PROBES = [
    ("foreach-list-kv", GEN_DECL + 'show(kv([10, 20, 30]));', "0=10;1=20;2=30;"),
    ("foreach-assoc-kv", GEN_DECL + 'show(kv(["a" => 1, "b" => 2, "c" => 3]));', "a=1;b=2;c=3;"),
    ("foreach-list-v", GEN_DECL + 'show(vs([10, 20, 30]));', "0=10;1=20;2=30;"),
    ("foreach-assoc-v", GEN_DECL + 'show(vs(["a" => 1, "b" => 2]));', "0=1;1=2;"),
    ("foreach-empty", GEN_DECL + 'show(kv([])); echo "|"; show(kv(["x" => 1]));', "|x=1;"),
    ("for", 'function g() { for ($i = 0; $i < 3; $i++) { yield $i; } yield 9; } foreach (g() as $v) { echo "$v;"; }', "0;1;2;9;"),
    ("while", 'function g() { $i = 0; while ($i < 3) { yield $i; $i++; } } foreach (g() as $v) { echo "$v;"; }', "0;1;2;"),
    ("body-after-yield", 'function g($a) { echo "[s]"; foreach ($a as $k => $v) { echo "<$k>"; yield $v; echo "($k)"; } echo "[e]"; } '
                         'foreach (g(["a" => 1, "b" => 2]) as $v) { echo "$v;"; } echo "|"; foreach (g([7, 8]) as $v) { echo "$v;"; }',
     "[s]<a>1;(a)<b>2;(b)[e]|[s]<0>7;(0)<1>8;(1)[e]"),
    ("two-yields-continue-break", 'function g($a) { foreach ($a as $v) { if ($v == 2) { continue; } if ($v == 4) { break; } yield $v; yield $v * 10; } yield 99; } '
                                  'foreach (g([1, 2, 3, 4, 5]) as $v) { echo "$v;"; } echo "|"; foreach (g(["p" => 1, "q" => 2, "r" => 3, "s" => 4]) as $v) { echo "$v;"; }',
     "1;10;3;30;99;|1;10;3;30;99;"),
    ("nested-foreach", 'function g() { foreach ([1, 2] as $a) { foreach (["x" => 1, "y" => 2] as $k => $b) { yield "$a$k"; } echo "."; } } foreach (g() as $v) { echo "$v;"; }',
     "1x;1y;.2x;2y;."),
    ("nested-list-in-assoc", 'function g() { foreach (["p" => 1, "q" => 2] as $k => $a) { foreach ([5, 6] as $b) { yield $k . $b; } } } foreach (g() as $v) { echo "$v;"; }',
     "p5;p6;q5;q6;"),
    ("loop-var-kept", 'function g($a) { foreach ($a as $v) { $v = $v + 100; yield $v; echo "[$v]"; } } foreach (g([1, 2]) as $v) { echo "$v;"; }', "101;[101]102;[102]"),
    ("auto-keys", 'function k() { yield "a" => 1; yield 2; yield 3; } function f() { for ($i = 0; $i < 2; $i++) { yield $i * 5; } yield 9; } ' + GEN_DECL + 'show(k()); show(f());',
     "a=1;0=2;1=3;0=0;1=5;2=9;"),
    ("while-continue-break", 'function w() { $i = 0; while (true) { $i++; if ($i == 2) { continue; } if ($i > 4) { break; } yield $i; echo "."; } yield 7; } ' + GEN_DECL + 'show(w());',
     "0=1;.1=3;.2=4;.3=7;"),
    ("foreach-in-while", 'function ww($a) { $i = 0; while ($i < 2) { foreach ($a as $k => $v) { yield "$i$k"; } $i++; } } ' + GEN_DECL + 'show(ww(["x" => 1, "y" => 2]));',
     "0=0x;1=0y;2=1x;3=1y;"),
    ("generator-return", 'function g() { yield 1; yield 2; return 5; } $x = g(); foreach ($x as $v) { echo "$v;"; } echo "ret=", $x->getReturn(), "|"; '
                         'function h($n) { foreach ([1, 2, 3] as $v) { if ($v > $n) { return "stop$v"; } yield $v; } return "end"; } '
                         'function use_h() { $t = h(2); foreach ($t as $v) { echo "$v;"; } return $t->getReturn(); } echo use_h(), "|after";',
     "1;2;ret=5|1;2;stop3|after"),
    # foreach over string-keyed arrays (iterator-backed, outside the typed core): continue / continue 2 / break on every position
    ("assoc-continue", '$a = ["p" => 1, "q" => 2, "r" => 3, "s" => 4]; foreach ([1, 2, 3, 4, 9] as $skip) { foreach ($a as $k => $v) { if ($v == $skip) { continue; } echo "$k$v"; } echo "|"; }',
     "q2r3s4|p1r3s4|p1q2s4|p1q2r3|p1q2r3s4|"),
    ("assoc-continue2", '$a = ["p" => 1, "q" => 2, "r" => 3]; foreach ($a as $k => $v) { foreach ([1, 2] as $j) { if ($j == 2 && $v == 2) { continue 2; } echo "$k$j"; } echo "."; } '
                        'echo "|"; foreach ($a as $k => $v) { switch ($v) { case 1: continue 2; case 2: echo "two"; break; default: echo "d"; } echo "$k;"; }',
     "p1p2.q1r1r2.|twoq;dr;"),
    ("assoc-break-nested", '$a = ["p" => 1, "q" => 2, "r" => 3]; foreach ($a as $k => $v) { foreach ($a as $k2 => $v2) { if ($v2 > $v) { break; } if ($v2 == 1 && $v == 3) { continue; } echo "$k$k2 "; } } '
                           'echo "|"; foreach ($a as $k => $v) { if ($v == 2) { break; } echo $k; } echo "|"; foreach ($a as $v) { if ($v % 2) { continue; } echo $v; }',
     "pp qp qq rq rr |p|2"),
    ("assoc-continue-in-function", 'function f($a, $skip) { $out = ""; foreach ($a as $k => $v) { if ($k == $skip) { continue; } $out = $out . $k; } return $out; } '
                                   '$a = ["x" => 1, "y" => 2, "z" => 3]; echo f($a, "x"), "|", f($a, "y"), "|", f($a, "z"), "|", f($a, "none");', "yz|xz|xy|xyz"),
    ("switch-eq", SWITCH_EQ_PROBE, "." * (len(SWITCH_EQ_VALUES) ** 2)),
    ("two-generators", GEN_DECL + '$x = kv([1, 2]); $y = kv(["a" => 8, "b" => 9]); foreach ($x as $k => $v) { echo "$k=$v;"; foreach ($y as $k2 => $v2) { echo "$k2=$v2;"; } }',
     "0=1;a=8;b=9;1=2;"),
]


def builtin_arity_sources():
    out = []
    for name, n, call in BUILTIN_MIN_ARITY:
        out.append((name, n, "<?php\n$a = [3, 1, 2];\n$fh = fopen(\"php://memory\", \"w\");\n$r = %s;\necho \"@reached\";\n" % call))
    # the same check must still hold for functions declared in the script (one short, one exact, one with a default)
    out.append(("user:short", -1, "<?php\nfunction f($a, $b) { return 1; }\n$r = f(1);\necho \"@reached\";\n"))
    out.append(("user:exact", 2, "<?php\nfunction f($a, $b) { return 1; }\n$r = f(1, 2);\necho \"@reached\";\n"))
    out.append(("user:default", 1, "<?php\nfunction f($a, $b = 2) { return 1; }\n$r = f(1);\necho \"@reached\";\n"))
    return out


def classify(pr):
    """a short construct summary used in violation keys"""
    k = kinds_of(pr, {})
    parts = [x for x in ("switch", "foreach", "for", "while", "dowhile", "breakN", "continueN", "static", "call") if k.get(x)]
    return "+".join(parts) or "straight"


def main(ck):
    rng = ck.rng
    ck.trusted += [
        "scalar operators (+ - * comparisons == != . ! && ||) are one Gallina function shared by ImplSem and RefSem; "
        "validated against the code only on the typed domain the generator produces (C03 owns the operators)",
        "call frames are name-indexed maps standing for the per-call slot vectors (parser/scope_manager.go index assignment is not modelled)",
        "statement result values (the value beside the control) are not modelled: unobservable in the core since /repo 110cdb4",
        "harness/cmd/c02 (Go, vrun.RunString on a fresh VM per program) and checks/C02.py (generator, PHP and Coq printers)",
        "not modelled: generators/yield, references (use (&$x), foreach by reference, by-reference parameters), variadic parameters, classes and methods "
        "(C05 adds exception objects), goto, foreach over objects/iterators, static initialisers other than literals, nested / conditional function "
        "declarations, operators outside the typed domain (mixed-kind switch labels); closures, arrow functions and named arguments ARE modelled",
        "RefSem shares Lang.v's operators, truthiness, switch_match, bind_params, foreach_items, incr_value, capture and to_str with ImplSem: for those "
        "the comparison with the real engine (clause 1) is the evidence, clause 2 adds nothing; clause 7 (SlotSem) is implied by clauses 1 and 6",
    ]
    ck.prove()
    binary, out = ck.go_build("c02")
    if binary is None:
        ck.broken.append("harness-build")
        ck.finish(evaluations=0, distinct_nontrivial=0, rule="harness did not build")

    # ---- cases: (program, expect_clean, known-finding key or None, family)
    cases = []
    if ck.replay:
        rp = json.load(open(ck.replay))
        c = rp.get("case")
        if c:
            cases.append((c["prog"], c.get("clean", True), c.get("dirty_key"), c.get("family", "replay")))
    else:
        kinds = ["for", "while", "dowhile", "foreach", "switch"]
        for o in kinds:
            for i in kinds:
                for j in ("break", "continue"):
                    for lv in (1, 2):
                        for before in (True, False):
                            cases.append((nest_program(o, i, j, lv, before), True, None, "nest2"))
        for pr in alias_programs():
            cases.append((pr, True, None, "alias"))
        for pr in escape_programs():
            cases.append((pr, False, None, "escape"))
        for pr in recursion_programs():
            cases.append((pr, True, None, "recursion"))
        for pr in paramalias_programs():
            cases.append((pr, True, None, "paramalias"))
        for pr in match_programs():
            cases.append((pr, True, None, "match"))
        for pr in closure_programs():
            cases.append((pr, True, None, "closure"))
        for pr in namedarg_programs():
            cases.append((pr, True, None, "namedargs"))
        for pr in reentrant_programs():
            cases.append((pr, True, None, "reentrant"))
        for pr in callarg_programs():
            cases.append((pr, True, None, "callargs"))
        for pr in else_if_ladder_programs():
            cases.append((pr, True, None, "ladder"))
        for pr in counter_programs():
            cases.append((pr, True, None, "counter"))
        for pr in tailcall_programs():
            cases.append((pr, True, None, "tailcall"))
        for pr in static_branch_programs() + static_position_programs():
            cases.append((pr, True, None, "staticbranch"))
        for pr in index_programs():
            cases.append((pr, True, None, "index"))
        nrand = 450 if ck.tier == "quick" else 6000
        discarded = 0
        while nrand > 0:
            pr = Gen(rng).program()
            if not Probe(pr).acceptable():
                discarded += 1
                continue
            cases.append((pr, True, None, "random"))
            nrand -= 1
        ck.cov["random_programs_discarded_by_magnitude_filter"] = discarded
        for pr in falloff_programs():
            cases.append((pr, True, None, "closure"))
        for pr, key in dirty_programs(rng, 40 if ck.tier == "quick" else 200):
            # key None: the repaired classes (switch fall-through, static in the main script) — clean programs now
            cases.append((pr, key is None, key, "dirty" if key else "fallthrough"))
        cases.sort(key=lambda c: size_of(c[0]))

    progs = [c[0] for c in cases]
    srcs, obs = run_impl(binary, progs, ck)

    terms, idxmap = [], []
    outcome_hist = {}
    for i, (c, o) in enumerate(zip(cases, obs)):
        oc = o["outcome"] if o else "missing"
        outcome_hist[oc] = outcome_hist.get(oc, 0) + 1
        if oc == "skipped":
            continue
        if oc not in ("ok", "throw"):
            # parse failure, Go panic, death or timeout on a generated core program: a crash is data —
            # the reference semantics gives every such program an output, so this is a violation
            ck.violation("impl-%s:%s" % (oc, classify(c[0])),
                         {"case": {"prog": c[0], "clean": c[1], "dirty_key": c[2], "family": c[3]}, "php": srcs[i],
                          "impl_out": o, "clause": "implementation did not run the program (%s)" % oc})
            continue
        code = 0 if oc == "ok" else 1
        terms.append("(%s, %s, %d%%nat, %s)" % (coq_prog(c[0]), coq_string(ascii_only(o["out"])), code, "true" if c[1] else "false"))
        idxmap.append(i)

    bad = ck.eval_cases("cases", HEADER, terms, "check_case", shard=60)
    names = {1: "ImplSem (model) vs implementation", 2: "RefSem (spec) vs implementation — impl_refines_ref",
             3: "generated program is not wf", 4: "clean-fragment classification differs", 5: "model out of fuel",
             6: "a symbol table does not cover its body (cov_prog)", 7: "SlotSem (index-accessed frame vectors) vs implementation"}
    for j, cls in sorted(bad.items()):
        i = idxmap[j]
        pr, cl, dkey, fam = cases[i]
        replay = {"case": {"prog": pr, "clean": cl, "dirty_key": dkey, "family": fam}, "php": srcs[i],
                  "impl_out": obs[i], "clause": [names[x] for x in cls]}
        if ck.replay or len(ck.violations) < 3:
            replay["coq"] = ck.eval_print(HEADER, "show_case %s" % coq_prog(pr))
        cls = [x for x in cls if not (x == 7 and 1 in cls)]      # the twin differs whenever ImplSem does
        if fam == "escape":
            cls = [x for x in cls if x not in (3, 4)]      # not wf by construction (see escape_programs)
            if not cls:
                continue
        if 7 in cls and 1 not in cls:
            # ImplSem agrees with the code, its slot-vector twin does not: slot_sem_is_impl_sem no longer applies
            ck.broken.append("correspondence:C02.SlotSem")
        if 3 in cls or 4 in cls or 5 in cls or 6 in cls:
            ck.broken.append("generator:" + ",".join(str(x) for x in cls))
            ck.violation("generator:%s" % fam, replay)
            continue
        if 1 in cls:
            # the model no longer describes the code
            ck.broken.append("correspondence:C02.ImplSem")
            if 2 in cls:
                ck.violation("impl-vs-spec:%s:%s" % (fam, classify(pr)), replay)
            else:
                ck.violation("tie-only:%s:%s" % (fam, classify(pr)), replay)
            continue
        # model agrees with the implementation, the reference semantics does not
        key = dkey if dkey else "impl-vs-spec:%s:%s" % (fam, classify(pr))
        ck.violation(key, replay)

    # ---- built-ins called with their minimum documented arity (engine only; no Coq model of the built-ins)
    arity = [] if ck.replay and not (json.load(open(ck.replay)).get("case") or {}).get("builtin") else builtin_arity_sources()
    if ck.replay and (json.load(open(ck.replay)).get("case") or {}).get("builtin"):
        want = json.load(open(ck.replay))["case"]["builtin"]
        arity = [r for r in arity if r[0] == want]
    if arity:
        asrcs, ares = run_impl(binary, None, ck, srcs=[r[2] for r in arity])
        for (name, n, src), o in zip(arity, ares):
            text = (o.get("out") or "") + " " + (o.get("detail") or "")
            rejected = any(m in text for m in ARITY_REJECTION)
            if o.get("outcome") in ("panic", "died", "garbled", "skipped"):
                ck.violation("builtin-arity:%s:%s" % (name, o.get("outcome")), {"case": {"builtin": name}, "php": src, "impl_out": o,
                             "clause": "a call with the minimum documented number of arguments crashed the engine"})
            elif n < 0 and not rejected:
                ck.violation("user-arity:not-rejected", {"case": {"builtin": name}, "php": src, "impl_out": o,
                             "clause": "a script function called with fewer arguments than required parameters is an ArgumentCountError"})
            elif n >= 0 and rejected:
                ck.violation("builtin-arity:%s" % name, {"case": {"builtin": name}, "php": src, "impl_out": o,
                             "clause": "a call passing the minimum documented number of arguments is not rejected for its argument count"})
    ck.cov["builtin_min_arity_calls"] = len(arity)
    named = [] if ck.replay and not (json.load(open(ck.replay)).get("case") or {}).get("named_probe") else NAMED_ENGINE_PROBES
    if ck.replay and named:
        named = [r for r in named if r[0] == json.load(open(ck.replay))["case"]["named_probe"]]
    if named:
        nsrcs, nres = run_impl(binary, None, ck, srcs=["<?php\n" + r[1] + "\n" for r in named])
        for (name, code, exp), src, o in zip(named, nsrcs, nres):
            if o.get("outcome") != "ok" or o.get("out") != exp:
                ck.violation("named-args:%s" % name, {"case": {"named_probe": name}, "php": src, "impl_out": o, "expected_out": exp,
                             "clause": "named arguments are bound by parameter name (engine-only probe, outside the Coq core)"})
    ck.cov["named_argument_engine_probes"] = len(named)
    gens = [] if ck.replay and not (json.load(open(ck.replay)).get("case") or {}).get("generator_probe") else GENERATOR_ENGINE_PROBES
    if ck.replay and gens:
        gens = [r for r in gens if r[0] == json.load(open(ck.replay))["case"]["generator_probe"]]
    if gens:
        gsrcs, gres = run_impl(binary, None, ck, srcs=["<?php\n" + r[1] + "\n" for r in gens])
        for (name, code, exp), src, o in zip(gens, gsrcs, gres):
            if o.get("outcome") != "ok" or o.get("out") != exp:
                ck.violation(("engine:%s" if name.startswith(("assoc", "switch")) else "generator:%s") % name, {"case": {"generator_probe": name}, "php": src, "impl_out": o, "expected_out": exp,
                             "clause": "a yield inside a loop suspends and resumes that loop (engine-only probe, generators are outside the Coq core)"})
    ck.cov["generator_engine_probes"] = len(gens)

    # ---- measured coverage
    dist = {}
    seen = set()
    nontriv = 0
    for c in cases:
        k = kinds_of(c[0], {})
        for kk, v in k.items():
            dist[kk] = dist.get(kk, 0) + v
        s = json.dumps(c[0], sort_keys=True)
        if s in seen:
            continue
        seen.add(s)
        if any(k.get(x) for x in ("while", "dowhile", "for", "foreach", "switch", "call")):
            nontriv += 1
    sizes = sorted(size_of(c[0]) for c in cases)
    ck.cov["construct_occurrences"] = dist
    ck.cov["max_statement_nesting"] = max([nesting_of(c[0], NESTING) for c in cases] + [0])
    ck.cov["max_loop_nesting"] = max([nesting_of(c[0], LOOPS) for c in cases] + [0])
    ck.cov["program_size_median"] = sizes[len(sizes) // 2] if sizes else 0
    ck.cov["program_size_max"] = sizes[-1] if sizes else 0
    ck.cov["families"] = {f: sum(1 for c in cases if c[3] == f) for f in ("nest2", "alias", "escape", "recursion", "paramalias", "match", "closure", "callargs", "namedargs", "reentrant", "ladder", "counter", "tailcall", "staticbranch", "index", "fallthrough", "random", "dirty", "replay")}
    ck.cov["impl_outcomes"] = outcome_hist
    ck.samples = [srcs[len(srcs) // 2], srcs[-1]] if srcs else []
    ck.finish(level="proof", evaluations=len(cases), distinct_nontrivial=nontriv,
              rule="programs: every two-level nesting of {for, while, do-while, foreach, switch}^2 x {break, continue} x {1, 2} x "
                   "{jump before/after the echo} (200), 18 boxed-integer aliasing probes, 26 recursion probes (depth up to 8, reads after the recursive call, "
                   "mutual recursion, recursion in loops), 20 parameter-aliasing probes (accumulating a by-value / defaulted parameter "
                   "in for/while/foreach bodies, caller's variable and default re-read afterwards), seeded random typed programs (functions with defaults, recursion, statics; "
                   "loops/branches/try nested as deep as coverage.max_statement_nesting reports (generator limit: 5 statement levels, loops within loops up to coverage.max_loop_nesting), endless loops left by break, string and int switches with fall-through, functions printed before or after the main code, calls with named arguments), 13 named-argument programs (every positional-prefix / named-subset / order split, the four errors), 19 closure programs (fall-off, statics, captures), "
                   "40 programs of the former defect classes (switch fall-through x3, static in the main script; all repaired, clean now), 146 built-in calls at minimum arity and 10 named-argument probes run on the engine only; non-trivial = distinct "
                   "program containing at least one loop, switch or call",
              traces=len(terms))
