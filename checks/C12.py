"""C12 — request-scoped TempVMs are isolated.
Proof: coq/C12 (model of runtime/vm.go + runtime/vm_temp.go registries and class-path loading,
non-interference by unwinding).  Tie: op sequences run on a real base VM + TempVMs
(harness/cmd/c12); after every step every VM's GetClass/GetInterface/GetFunc/GetConstant/
GetPhpFileCache results for the name pool are compared with the model; the property itself
(frame, base-visible, non-interference against the purged history) is evaluated on the
implementation's outputs."""
import itertools
import json
import subprocess
import threading
import vcheck
import vworker
from vcheck import coq_string, coq_list, coq_z

HEADER = "From V.C12 Require Import Spec Model Run.\nOpen Scope string_scope.\n"

# autoload files (namespace App): P = class, Q = interface, R = a file that does not declare R,
# S = class S + interface SI
CP = [{"name": "P", "kind": "c"}, {"name": "Q", "kind": "i"}, {"name": "R", "kind": "x"}, {"name": "S", "kind": "ci"}]
CPDEFS = {"c": lambda n: [(True, "App\\" + n)], "i": lambda n: [(False, "App\\" + n)],
          "x": lambda n: [(True, "App\\" + n + "Other")],
          "ci": lambda n: [(True, "App\\" + n), (False, "App\\" + n + "I")]}
# registration pool (8 names, deliberate collisions: case variants, class/interface/function sharing names)
REG = ["A", "a", "Ab", "aB", "f", "App\\P", "App\\Q", "App\\R", "App\\S"]
SIMPLE = ["A", "a", "Ab", "aB", "f"]          # names a declaration can be parsed under
# lookup pool: the registration pool, backslash-prefixed and case variants, names declared by files
LOOK = REG + ["AB", "ab", "\\A", "\\f", "App\\p", "\\App\\P", "App\\SI", "App\\ROther", ""]   # AB/ab: a third spelling of two registered keys (minimum-key rule)
CONSTS = ["K", "\\K", "L"]
SMALL_LOOK = ["A", "a", "\\A", "App\\P", "App\\Q", "App\\p"]


# "define via a script statement" routes of op add (a script run on the VM declares the thing): eval() of a declaration,
# include / require_once of a declaring file, a declaration inside a function body / a conditional block
SCRIPT_ROUTES = ["eval", "include", "require_once", "infunc", "cond"]


def normalize(c, obs):
    """An op of a script-statement route that FAILED and changed no lookup on any VM (eval() refuses to run on a
    TempVM at HEAD: `eval 需要 runtime.VM`) is removed from the history before the comparison with the model: the
    model has no "refused" outcome for OAdd.  A refused op that changes anything, or one that succeeds, stays and
    is compared as OAdd on the VM it ran on."""
    steps = obs["steps"]
    if len(steps) != len(c["ops"]) + 1:
        return c, obs, 0
    ops2, steps2 = [], [steps[0]]
    prev = steps[0]
    dropped = 0
    pings = 0
    for o, s in zip(c["ops"], steps[1:]):
        if o["op"] == "add" and o.get("route") in SCRIPT_ROUTES and s["r"] == 1 and s["look"] == prev["look"]:
            dropped += 1
            continue
        # objcall ping: an ordinary method of the shared object that resolves nothing; it has no counterpart in the model
        # and is removed when it answered 1 and changed no lookup (anything else stays and fails the comparison)
        if o["op"] == "objcall" and o.get("route") == "ping" and s["r"] == 5 and s["d"] == 1 and s["look"] == prev["look"]:
            pings += 1
            continue
        # TempVM.LoadPkg does not consult the spl autoload callbacks (GetOrLoadClass / GetOrLoadInterface and the base's
        # LoadPkg do): a LoadPkg on a TempVM of a callback-only name that finds nothing and changes no lookup on any VM
        # is removed as well; one that finds the class, or changes anything, is compared as OLoadPkg on that TempVM
        if o["op"] == "pkg" and o["vm"] >= 0 and o["name"] in (c.get("callbacks") or []) and s["look"] == prev["look"] and \
                (s["r"] == 1 or (s["r"] == 0 and s["d"] == -1)):
            dropped += 1
            continue
        ops2.append(o)
        steps2.append(s)
        prev = s
    if not dropped and not pings:
        return c, obs, 0
    return dict(c, ops=ops2), dict(obs, steps=steps2), dropped


def ident_class(route):
    """how the interpreter identifies the SOURCE of a definition made through a route: a bare script name ("dN.php":
    direct / parse / infunc / cond), the path of a file on disk (parsefile / include / require_once) or an eval
    location ("dN.php(1) : eval()'d code").  The model identifies a definition by its file id N, so a file id is
    re-used (same-file re-declaration) only among routes of one class: across classes the interpreter sees two
    different sources for the same N and rejects the second declaration, which is not what the history means."""
    return "file" if route in ("parsefile", "include", "require_once") else ("eval" if route == "eval" else "plain")


def stale_own_after_base_add(c, obs):
    """the one-entry resolution cache of a shared AST node (node/vm_cache.go): TempVM v ran `new N` of a base function
    body while only v defined N; the BASE then defines N (base definitions take precedence in GetClass); the same node
    run on v again still instantiates v's own N"""
    steps = obs.get("steps") or []
    ops = c["ops"]
    if len(steps) != len(ops) + 1:
        return False
    for i, a in enumerate(ops):
        if a["op"] != "callfn" or a["vm"] < 0 or steps[i + 1]["d"] < 0:
            continue
        based = False
        for k in range(i + 1, len(ops)):
            b = ops[k]
            if b["op"] == "discard" and b.get("t") == a["vm"]:
                break
            if b["op"] == "add" and b["vm"] == -1 and b.get("kind") == "c" and b["name"] == a["name"] and steps[k + 1]["r"] == 0:
                based = True
            if based and b["op"] == "callfn" and b["vm"] == a["vm"] and b["name"] == a["name"] and steps[k + 1]["d"] == steps[i + 1]["d"]:
                return True
    return False


def scoped_to(t, o):
    k = o["op"]
    if k in ("retemp", "prepare"):
        return o["t"] == t
    if k in ("add", "goc", "goi", "pkg", "cexists", "iexists", "new", "newshort", "callfn", "newchild", "callcall", "objcall"):
        return o["vm"] == t
    return False


def purge(t, ops):
    return [o for o in ops if not scoped_to(t, o)]


def coq_vm(v):
    return "Base" if v < 0 else "(Temp %d)" % v


def coq_ops(ops):
    """Coq terms for a history; req_begin = the request-level TempVM is created (ONewTemp),
    req_end = it is dropped (ODiscard of that TempVM)"""
    out = []
    ntemps = 0
    cur = None
    for o in ops:
        if o["op"] == "req_begin":
            cur = ntemps
            ntemps += 1
            out.append("XO ONewTemp")
        elif o["op"] == "req_end":
            out.append("XO (ODiscard %d)" % cur)
        elif o["op"] == "objcall":
            # entering a base-created shared object from the VM: its body resolves `new N` on the object's own VM (the base)
            out.append("XObjCall %s %s" % (coq_vm(o["vm"]), coq_string(o["name"])))
        elif o["op"] == "callcall":
            # a base function body calling the function named N, run on the VM: a pure function lookup on that VM
            out.append("XCallFn %s %s" % (coq_vm(o["vm"]), coq_string(o["name"])))
        elif o["op"] == "newshort":
            # `namespace NS; new Short()` on the VM: which full name it stands for is computed by the model (ShortNames.v)
            out.append("XNewShort %s %s %s" % (coq_vm(o["vm"]), coq_string(o["ns"]), coq_string(o["name"])))
        else:
            if o["op"] == "newtemp":
                ntemps += 1
            out.append("XO (%s)" % coq_op(o))
    return out


def coq_op(o):
    k = o["op"]
    if k == "newtemp":
        return "ONewTemp"
    if k == "discard":
        return "ODiscard %d" % o["t"]
    if k == "retemp":
        return "OReTemp %d" % o["t"]
    if k == "prepare":
        return "OPrepare %d" % o["t"]
    if k == "add":
        return "OAdd %s %s %s %d" % (coq_vm(o["vm"]), {"c": "KC", "i": "KI", "f": "KF"}[o["kind"]], coq_string(o["name"]), o["file"])
    if k in ("callfn", "newchild"):
        # code defined on the base (a function body doing `new N`, a class extending N) run on the VM: N is resolved
        # through GetOrLoadClass of the VM it runs on, every time
        return "OGetOrLoadClass %s %s" % (coq_vm(o["vm"]), coq_string(o["name"]))
    if k in ("goc", "cexists", "new"):
        # script-level class_exists(N) and `new N` resolve through GetClass/GetOrLoadClass of the context's VM
        return "OGetOrLoadClass %s %s" % (coq_vm(o["vm"]), coq_string(o["name"]))
    if k == "iexists":
        return "OGetOrLoadIface %s %s" % (coq_vm(o["vm"]), coq_string(o["name"]))
    if k == "goi":
        return "OGetOrLoadIface %s %s" % (coq_vm(o["vm"]), coq_string(o["name"]))
    if k == "pkg":
        return "OLoadPkg %s %s" % (coq_vm(o["vm"]), coq_string(o["name"]))
    if k == "const":
        return "OConst %s %s %d" % (coq_vm(o["vm"]), coq_string(o["name"]), o["val"])
    raise ValueError(k)


def seg_width(c):
    return 3 * len(c["names"]) + len(c["consts"]) + len(c["cp"])


def coq_steps(c, steps):
    """delta + sparse encoding of the per-step lookup vectors (decoded by Run.mk_obs)"""
    w = seg_width(c)
    na, nf = w - len(c["cp"]), len(c["cp"])
    out = []
    prev = []
    for s in steps:
        look = s["look"]
        segs = [look[i:i + w] for i in range(0, len(look), w)]
        enc = []
        for k, seg in enumerate(segs):
            if k < len(prev) and prev[k] == seg:
                enc.append("SSame")
            elif seg and all(x == -2 for x in seg):
                enc.append("SDead")
            else:
                sp = ["(%d,%s)" % (j, coq_z(x)) for j, x in enumerate(seg) if x != (-1 if j < na else 0)]
                enc.append("SSet " + coq_list(sp))
        prev = segs
        out.append("(%d,%s,%s)" % (s["r"], coq_z(s["d"]), coq_list(enc)))
    return "(mk_obs %d %d [] %s)" % (na, nf, coq_list(out))


def coq_case(c, obs, pt, pobs):
    cpl = []
    for nm, idx in zip(c["names"], obs["cpfind"]):
        if idx >= 0:
            e = c["cp"][idx]
            defs = coq_list("(%s, %s)" % ("true" if b else "false", coq_string(n)) for b, n in CPDEFS[e["kind"]](e["name"]))
            cpl.append("(%s, {| cfile := %d; cdefs := %s |})" % (coq_string(nm), 1000 + idx, defs))
    # a class provided by an spl autoload callback is, for the model, a class-path entry: asking for the name loads the
    # "file" 2000+k, which declares exactly that class, on the VM that asked
    for k, nm in enumerate(c.get("callbacks") or []):
        cpl.append("(%s, {| cfile := %d; cdefs := [(true, %s)] |})" % (coq_string(nm), 2000 + k, coq_string(nm)))
    pur = "None" if pobs is None else "(Some (%d%%nat, %s))" % (pt, coq_steps(c, pobs["steps"]))
    return ("{| c_cp := %s; c_names := %s; c_consts := %s; c_files := %s; c_ops := %s; c_obs := %s; c_purge := %s |}" % (
        coq_list(cpl), coq_list(coq_string(n) for n in c["names"]), coq_list(coq_string(n) for n in c["consts"]),
        coq_list(str(1000 + i) for i in range(len(c["cp"]))), coq_list(coq_ops(c["ops"])),
        coq_steps(c, obs["steps"]), pur))


def run_impl(binary, cases):
    """a worker that dies or hangs is attributed to the case in flight ({"worker_death": ...}) and restarted;
    the histories are independent of each other: 8 engine processes share them (interleaved, results in case order)"""
    nw = 8 if len(cases) >= 64 else 1
    parts = [cases[k::nw] for k in range(nw)]
    outs = [None] * nw

    def work(k):
        outs[k] = vworker.run_worker([binary], parts[k], per_case_timeout=60)
    ths = [threading.Thread(target=work, args=(k,)) for k in range(nw)]
    for t in ths:
        t.start()
    for t in ths:
        t.join()
    res = [None] * len(cases)
    for k in range(nw):
        got = outs[k] or [{"worker_death": {"signature": "driver-thread-failed"}}] * len(parts[k])
        for j, o in enumerate(got):
            res[k + j * nw] = o
    return res, 0, ""


def mk(ops, names=LOOK, consts=CONSTS, shared=None, gc=False, callbacks=None, sharedfn=None, sharedobj=None):
    c = {"names": names, "consts": consts, "cp": CP, "ops": ops}
    if sharedobj:
        c["sharedobj"] = sharedobj
        c["scripts"] = True
    if sharedfn:
        c["sharedfn"] = sharedfn
        c["scripts"] = True
    if callbacks:
        c["callbacks"] = callbacks
    if shared:
        c["shared"] = shared
        c["scripts"] = True
    if gc:
        c["gc"] = True
    if any(o["op"] in ("cexists", "iexists", "new", "newshort", "callfn", "newchild", "callcall", "objcall") or o.get("route") == "eval" for o in ops):
        c["scripts"] = True
    return c


def rand_case(rng, maxlen):
    n = rng.randint(1, maxlen)
    ops = []
    ntemps = 0
    nextfile = [1]
    used = []

    def vm():
        if ntemps == 0 or rng.random() < 0.3:
            return -1
        if rng.random() < 0.04:
            return ntemps  # a VM that does not exist (yet)
        return rng.randrange(ntemps)

    def one_op(forced_vm=None):
        r = rng.uniform(0.12, 0.91)
        v = vm() if forced_vm is None else (forced_vm if rng.random() < 0.8 else -1)
        if r < 0.55:
            route = rng.choice(["parse", "parse", "parsefile", "direct", "direct"] + SCRIPT_ROUTES)
            name = rng.choice(SIMPLE if route != "direct" else REG)
            same = [x for x, cl in used if cl == ident_class(route)]
            if same and rng.random() < 0.2 and route not in ("include", "require_once"):
                f = rng.choice(same)
            else:
                f = nextfile[0]
                nextfile[0] += 1
                used.append((f, ident_class(route)))
            return {"op": "add", "vm": v, "kind": rng.choice("ccif"), "name": name, "file": f, "route": route}
        if r < 0.64:
            # script level: class_exists / interface_exists / new on the VM's own context
            k = rng.choice(["cexists", "iexists", "new"])
            pool = (["A", "a", "AB", "Ab", "App\\P", "App\\S", "App\\R"] if k != "iexists" else ["A", "a", "App\\Q", "App\\SI", "App\\P"])
            return {"op": k, "vm": v, "name": rng.choice(pool)}
        if r < 0.85:
            return {"op": rng.choice(["goc", "goc", "goi", "pkg"]), "vm": v,
                    "name": rng.choice(LOOK if rng.random() < 0.5 else ["App\\P", "App\\Q", "App\\R", "App\\S", "App\\p", "App\\SI"])}
        return {"op": "const", "vm": v, "name": rng.choice(["K", "L"]), "val": rng.randint(1, 9)}

    nreq = 0
    while len(ops) < n:
        r = rng.random()
        if nreq < 6 and r < 0.10:
            # one request served by the real HotHandler: its TempVM is created by ServeHTTP
            t = ntemps
            ntemps += 1
            nreq += 1
            ops.append({"op": "req_begin"})
            for _ in range(rng.randint(0, 5)):
                ops.append(one_op(forced_vm=t))
            ops.append({"op": "req_end"})
        elif ntemps - nreq < 3 and (r < 0.20 or (ntemps == 0 and r < 0.5)):
            ops.append({"op": "newtemp"})
            ntemps += 1
        elif r < 0.55:
            route = rng.choice(["parse", "parse", "parsefile", "direct", "direct", "direct"] + SCRIPT_ROUTES)
            name = rng.choice(SIMPLE if route != "direct" else REG)
            same = [x for x, cl in used if cl == ident_class(route)]
            if same and rng.random() < 0.2 and route not in ("include", "require_once"):   # include is include_once: a fresh file
                f = rng.choice(same)      # the same file again (same-file re-declaration), within one identity class
            else:
                f = nextfile[0]
                nextfile[0] += 1
                used.append((f, ident_class(route)))
            ops.append({"op": "add", "vm": vm(), "kind": rng.choice("ccif"), "name": name, "file": f, "route": route})
        elif r < 0.85:
            ops.append({"op": rng.choice(["goc", "goc", "goi", "pkg"]), "vm": vm(),
                        "name": rng.choice(LOOK if rng.random() < 0.5 else ["App\\P", "App\\Q", "App\\R", "App\\S", "App\\p", "App\\SI"])})
        elif r < 0.91:
            ops.append({"op": "const", "vm": vm(), "name": rng.choice(["K", "L"]), "val": rng.randint(1, 9)})
        elif r < 0.95 and ntemps:
            ops.append({"op": "discard", "t": rng.randrange(ntemps)})
        elif ntemps:
            ops.append({"op": rng.choice(["prepare", "retemp"]), "t": rng.randrange(ntemps)})
    return mk(ops)


def alphabet():
    """reduced alphabet for the exhaustive part: worlds start with two TempVMs"""
    return [
        {"op": "add", "vm": -1, "kind": "c", "name": "A", "file": 1, "route": "direct"},
        {"op": "add", "vm": 0, "kind": "c", "name": "A", "file": 2, "route": "parse"},
        {"op": "add", "vm": 1, "kind": "f", "name": "A", "file": 3, "route": "parsefile"},
        {"op": "add", "vm": 0, "kind": "i", "name": "a", "file": 4, "route": "direct"},
        {"op": "add", "vm": -1, "kind": "i", "name": "a", "file": 5, "route": "parse"},
        {"op": "goc", "vm": 0, "name": "App\\P"},
        {"op": "goc", "vm": 1, "name": "App\\P"},
        {"op": "pkg", "vm": 0, "name": "App\\P"},
        {"op": "goi", "vm": 1, "name": "App\\Q"},
        {"op": "goc", "vm": -1, "name": "App\\p"},
        {"op": "discard", "t": 0},
        {"op": "const", "vm": 0, "name": "K", "val": 5},
    ]


def main(ck):
    rng = ck.rng
    ck.trusted += [
        "Go maps modelled as association lists with unique keys; a case-insensitive class lookup yields the set of candidates (map order not modelled)",
        "strings.EqualFold modelled as ASCII case folding (names in the pools are ASCII)",
        "FindClassFile is an environment parameter of the model, read back from the real class path manager on every case",
        "a definition is identified by its source file (GetFrom().GetSource())",
        "harness/cmd/c12 (Go) and checks/C12.py (generators, Coq term printer)",
        "not modelled: spl autoload callbacks, CompileMode, implements/extends pre-loading, functions declared in autoloaded files, globals/exception handler/shutdown callbacks (delegated to the base by design)",
    ]
    ck.prove()
    binary, out = ck.go_build("c12")
    if binary is None:
        ck.broken.append("harness-build")
        ck.finish(evaluations=0, distinct_nontrivial=0, rule="harness did not build")

    cases = []      # (case, purge_t or None)
    if ck.replay:
        rp = json.load(open(ck.replay))
        if "case" in rp:
            cases.append((rp["case"], rp.get("purge_t")))
    else:
        alpha = alphabet()
        maxlen = 3 if ck.tier == "quick" else 4
        pre = [{"op": "newtemp"}, {"op": "newtemp"}]
        for n in range(0, maxlen + 1):
            for seq in itertools.product(alpha, repeat=n):
                ops = pre + list(seq)
                t = 0 if any(scoped_to(0, o) for o in ops) else (1 if any(scoped_to(1, o) for o in ops) else None)
                cases.append((mk(ops, names=SMALL_LOOK, consts=["K"]), t))
        if ck.tier == "quick":
            # length 4: a seeded sample of the 12^4 sequences
            for _ in range(1000):
                ops = pre + [rng.choice(alpha) for _ in range(4)]
                t = rng.choice([0, 1])
                cases.append((mk(ops, names=SMALL_LOOK, consts=["K"]), t if any(scoped_to(t, o) for o in ops) else None))
        # requests through the real HotHandler: all pairs (quick) / triples (thorough) of requests with <= 2 ops each
        ralpha = [lambda t: {"op": "add", "vm": t, "kind": "c", "name": "A", "file": 10 + t, "route": "parse"},
                  lambda t: {"op": "add", "vm": t, "kind": "f", "name": "A", "file": 20 + t, "route": "parse"},
                  lambda t: {"op": "add", "vm": t, "kind": "i", "name": "a", "file": 30 + t, "route": "direct"},
                  lambda t: {"op": "goc", "vm": t, "name": "App\\P"},
                  lambda t: {"op": "pkg", "vm": t, "name": "App\\Q"},
                  lambda t: {"op": "cexists", "vm": t, "name": "A"},
                  lambda t: {"op": "new", "vm": t, "name": "App\\P"}]
        bodies = [()] + [(a,) for a in ralpha] + [(a, b) for a in ralpha for b in ralpha]
        nreqs = 2 if ck.tier == "quick" else 3
        for combo in itertools.product(bodies, repeat=nreqs):
            if rng.random() > (0.2 if nreqs == 2 else 0.05):
                continue
            ops = []
            for t, body in enumerate(combo):
                ops.append({"op": "req_begin"})
                ops += [f(t) for f in body]
                ops.append({"op": "req_end"})
            tt = rng.randrange(nreqs)
            cases.append((mk(ops, names=SMALL_LOOK, consts=["K"]), tt if any(scoped_to(tt, o) for o in ops) else None))
        # "define via a script statement" family (seeded change C12-4: eval() on a TempVM delegated to the base VM):
        # every route x kind x VM, followed by a probe / a competing definition on another VM / a TempVM created later
        for route in SCRIPT_ROUTES:
            for kind in "cif":
                for v in (-1, 0, 1):
                    d = {"op": "add", "vm": v, "kind": kind, "name": "A", "file": 1, "route": route}
                    others = [u for u in (-1, 0, 1) if u != v]
                    tails = [[],
                             [{"op": "goc" if kind != "i" else "goi", "vm": others[0], "name": "A"}],
                             [{"op": "cexists" if kind != "i" else "iexists", "vm": others[1], "name": "a"}],
                             [{"op": "add", "vm": others[0], "kind": kind, "name": "A", "file": 2, "route": "parse"}],
                             [{"op": "add", "vm": others[1], "kind": "c" if kind == "i" else "i", "name": "A", "file": 2, "route": rng.choice(SCRIPT_ROUTES)}],
                             [{"op": "newtemp"}, {"op": "new" if kind == "c" else "goi", "vm": 2, "name": "A"}],
                             [{"op": "discard", "t": max(v, 0)}, {"op": "newtemp"}, {"op": "cexists", "vm": 2, "name": "A"}]]
                    for tail in tails:
                        ops = pre + [d] + tail
                        cases.append((mk(ops, names=SMALL_LOOK, consts=["K"]), v if v >= 0 else None))
            # inside a request served by the real HotHandler, then a second request probing
            for kind in "cif":
                ops = [{"op": "req_begin"}, {"op": "add", "vm": 0, "kind": kind, "name": "A", "file": 1, "route": route}, {"op": "req_end"},
                       {"op": "req_begin"}, {"op": "cexists" if kind != "i" else "iexists", "vm": 1, "name": "A"}, {"op": "req_end"}]
                cases.append((mk(ops, names=SMALL_LOOK, consts=["K"]), 0))
        # namespaced code using SHORT class names (seeded change C12-5: a memo of short-name resolutions shared by all
        # parser clones): global Widget/Gadget on the base, App\Widget / App\Gadget declared on one TempVM (parse-time
        # registration through the parser bound to it, a parsed file, an included file), `namespace App; new Widget()`
        # probes on every VM; App\P / App\Q exist as autoload files (class / interface)
        NSNAMES = ["Widget", "App\\Widget", "Gadget", "App\\Gadget", "P", "App\\P", "Q", "App\\Q"]
        nfile = [100]

        def ns_alpha(vms):
            nfile[0] += 1
            f = nfile[0]
            a = [{"op": "add", "vm": -1, "kind": "c", "name": "Widget", "file": f, "route": "parse"},
                 {"op": "add", "vm": -1, "kind": "c", "name": "Gadget", "file": f, "route": "direct"},
                 {"op": "add", "vm": -1, "kind": "c", "name": "App\\Gadget", "file": f, "route": "parse"}]
            for v in vms:
                a += [{"op": "add", "vm": v, "kind": "c", "name": "App\\Widget", "file": f, "route": "parse"},
                      {"op": "add", "vm": v, "kind": "c", "name": "App\\Widget", "file": f, "route": rng.choice(["parsefile", "include", "require_once"])},
                      {"op": "add", "vm": v, "kind": "i", "name": "App\\Gadget", "file": f, "route": "parse"},
                      {"op": "add", "vm": v, "kind": "c", "name": "Widget", "file": f, "route": rng.choice(["parse", "cond", "infunc"])}]
            for v in [-1] + list(vms):
                a += [{"op": "newshort", "vm": v, "ns": "App", "name": "Widget"},
                      {"op": "newshort", "vm": v, "ns": "App", "name": "Gadget"},
                      {"op": "newshort", "vm": v, "ns": "App", "name": rng.choice(["P", "Q", "Nope"])}]
            return a

        def fresh(ops):
            # every add gets a file of its own (include is include_once; one declaration per file)
            out = []
            for o in ops:
                if o["op"] == "add":
                    nfile[0] += 1
                    o = dict(o, file=nfile[0])
                out.append(o)
            return out
        base_w = {"op": "add", "vm": -1, "kind": "c", "name": "Widget", "file": 1, "route": "parse"}
        al = ns_alpha((0, 1))
        for a in al:
            for b in al:
                for head in ([], [base_w]):
                    ops = fresh(pre + head + [a, b])
                    t = rng.choice([0, 1])
                    cases.append((mk(ops, names=NSNAMES, consts=["K"]), t if any(scoped_to(t, o) for o in ops) else None))
        for _ in range(500 if ck.tier == "quick" else 2000):
            al = ns_alpha((0, 1, 2))
            ops = fresh(pre + [{"op": "newtemp"}] + ([base_w] if rng.random() < 0.7 else []) + [rng.choice(al) for _ in range(rng.randint(3, 9))])
            t = rng.choice([0, 1, 2])
            cases.append((mk(ops, names=NSNAMES, consts=["K"]), t if any(scoped_to(t, o) for o in ops) else None))
        # the same through requests served by the real HotHandler: request 1 declares App\Widget and uses the short name,
        # request 2 (and the base in between) use the short name
        for r1 in (["parse"], ["include"], []):
            for first in (True, False):
                ops = [base_w]
                if first:
                    ops += [{"op": "newshort", "vm": -1, "ns": "App", "name": "Widget"}]
                ops += [{"op": "req_begin"}] + [{"op": "add", "vm": 0, "kind": "c", "name": "App\\Widget", "file": 2, "route": r} for r in r1] + \
                       [{"op": "newshort", "vm": 0, "ns": "App", "name": "Widget"}, {"op": "req_end"},
                        {"op": "newshort", "vm": -1, "ns": "App", "name": "Widget"},
                        {"op": "req_begin"}, {"op": "newshort", "vm": 1, "ns": "App", "name": "Widget"}, {"op": "req_end"}]
                cases.append((mk(fresh(ops), names=NSNAMES, consts=["K"]), 0))
        # code defined on the BASE whose class names resolve per request VM (seeded changes C12-7: resolution cache of
        # an AST node keyed by the VM's address; C12-8: a base class caching the parent it resolved first): the base has
        # function c12new_Theme() { new Theme() ... } and class c12child_Theme extends Theme; Theme is defined (or not)
        # per TempVM with a marker telling the definitions apart; `callfn` / `newchild` run the shared code on a VM
        SHNAMES = ["Theme", "Tint", "A"]

        def sh_alpha(vms):
            a = []
            for v in [-1] + list(vms):
                for n in ("Theme", "Tint"):
                    a += [{"op": "callfn", "vm": v, "name": n}, {"op": "newchild", "vm": v, "name": n}]
                a += [{"op": "add", "vm": v, "kind": "c", "name": "Theme", "file": 0, "route": rng.choice(["parse", "parsefile", "include", "cond"])},
                      {"op": "add", "vm": v, "kind": "c", "name": "Tint", "file": 0, "route": "parse"}]
            for v in vms:
                a += [{"op": "add", "vm": v, "kind": "c", "name": "Theme", "file": 0, "route": "parse"}]
            return a
        # the collision sequence on every ordered pair of VMs: define on x, use on x, define on y, use on y, use on x again
        for x in (-1, 0, 1, 2):
            for y in (-1, 0, 1, 2):
                if x == y:
                    continue
                for use in ("callfn", "newchild"):
                    for ydef in (True, False):
                        ops = pre + [{"op": "newtemp"}, {"op": "add", "vm": x, "kind": "c", "name": "Theme", "file": 0, "route": "parse"}, {"op": use, "vm": x, "name": "Theme"}] + \
                              ([{"op": "add", "vm": y, "kind": "c", "name": "Theme", "file": 0, "route": "parse"}] if ydef else []) + \
                              [{"op": use, "vm": y, "name": "Theme"}, {"op": use, "vm": x, "name": "Theme"}, {"op": "newchild" if use == "callfn" else "callfn", "vm": y, "name": "Theme"}]
                        ops = fresh(ops)
                        t = x if x >= 0 else y
                        cases.append((mk(ops, names=SHNAMES, consts=["K"], shared=["Theme", "Tint"]), t if t >= 0 and any(scoped_to(t, o) for o in ops) else None))
        for _ in range(400 if ck.tier == "quick" else 2000):
            al = sh_alpha((0, 1, 2))
            ops = pre + [{"op": "newtemp"}] + [rng.choice(al) for _ in range(rng.randint(3, 10))]
            if rng.random() < 0.3:
                k = rng.randrange(3, len(ops))
                ops[k:k] = [{"op": "discard", "t": rng.randrange(3)}, {"op": "newtemp"}, {"op": rng.choice(["callfn", "newchild"]), "vm": 3, "name": "Theme"}]
            ops = fresh(ops)
            t = rng.choice([0, 1, 2])
            cases.append((mk(ops, names=SHNAMES, consts=["K"], shared=["Theme", "Tint"]), t if any(scoped_to(t, o) for o in ops) else None))
        # a request's VM is discarded and COLLECTED, later VMs may be allocated at its address: the shared code runs on a
        # batch of fresh TempVMs afterwards (the engine calls runtime.GC() after a discard when "gc" is set)
        for use in ("callfn", "newchild"):
            for owndef in (0, 1, 2):
                for rounds in (1, 2):
                    ops = []
                    nt = 0
                    for rd in range(rounds):
                        a = nt
                        ops += [{"op": "newtemp"}, {"op": "add", "vm": a, "kind": "c", "name": "Theme", "file": 0, "route": "parse"},
                                {"op": use, "vm": a, "name": "Theme"}, {"op": "discard", "t": a}]
                        nt += 1
                        batch = list(range(nt, nt + 12))
                        ops += [{"op": "newtemp"} for _ in batch]
                        nt += 12
                        for j, b in enumerate(batch):
                            if owndef == 1 and j % 3 == 0 or owndef == 2:
                                ops.append({"op": "add", "vm": b, "kind": "c", "name": "Theme", "file": 0, "route": "parse"})
                            ops.append({"op": use, "vm": b, "name": "Theme"})
                        ops += [{"op": "discard", "t": b} for b in batch]
                    cases.append((mk(fresh(ops), names=["Theme"], consts=["K"], shared=["Theme"], gc=True), None))
        # the same through requests served by the real HotHandler: every request defines its own Theme and runs the shared code
        for use in ("callfn", "newchild"):
            for nreq in (2, 3, 6):
                ops = []
                for t in range(nreq):
                    ops += [{"op": "req_begin"}] + ([{"op": "add", "vm": t, "kind": "c", "name": "Theme", "file": 0, "route": "parse"}] if t != 1 else []) + \
                           [{"op": use, "vm": t, "name": "Theme"}, {"op": "req_end"}]
                cases.append((mk(fresh(ops), names=SHNAMES, consts=["K"], shared=["Theme", "Tint"], gc=True), 0))
        # SHARED OBJECTS (seeded change C12-16: a method call rebinding a base-created object to the caller's VM): the base
        # creates one object per class name N, kept in a static property; its bodies (ordinary method, __invoke, __get,
        # __call) do `new N`.  It is entered from every VM through every route; the name is resolved by the object's own VM
        # -- the base -- whoever calls, and an ordinary method call (ping) changes nothing for later entries
        VIAS = ["method", "invoke", "get", "call"]

        def obj_alpha(vms):
            a = []
            for v in [-1] + list(vms):
                a += [{"op": "objcall", "vm": v, "name": "Theme", "route": via} for via in VIAS + ["ping", "ping"]]
                a += [{"op": "add", "vm": v, "kind": "c", "name": "Theme", "file": 0, "route": "parse"}]
            return a
        for x in (0, 1):
            for y in (-1, 1 - x, 2):
                for via in VIAS:
                    for first in ("ping", "method"):
                        for basedef in (False, True):
                            ops = pre + [{"op": "newtemp"}, {"op": "add", "vm": x, "kind": "c", "name": "Theme", "file": 0, "route": "parse"},
                                         {"op": "objcall", "vm": x, "name": "Theme", "route": first},
                                         {"op": "objcall", "vm": y, "name": "Theme", "route": via}] + \
                                  ([{"op": "add", "vm": -1, "kind": "c", "name": "Theme", "file": 0, "route": "parse"}] if basedef else []) + \
                                  [{"op": "objcall", "vm": x, "name": "Theme", "route": via}, {"op": "objcall", "vm": -1, "name": "Theme", "route": via}]
                            ops = fresh(ops)
                            cases.append((mk(ops, names=["Theme", "A"], consts=["K"], sharedobj=["Theme"]), x))
        for _ in range(150 if ck.tier == "quick" else 1200):
            al = obj_alpha((0, 1, 2))
            ops = fresh(pre + [{"op": "newtemp"}] + [rng.choice(al) for _ in range(rng.randint(3, 9))])
            t = rng.choice([0, 1, 2])
            cases.append((mk(ops, names=["Theme", "A"], consts=["K"], sharedobj=["Theme"]), t if any(scoped_to(t, o) for o in ops) else None))
        for via in VIAS:
            ops = [{"op": "req_begin"}, {"op": "add", "vm": 0, "kind": "c", "name": "Theme", "file": 0, "route": "parse"}, {"op": "objcall", "vm": 0, "name": "Theme", "route": "ping"}, {"op": "req_end"},
                   {"op": "objcall", "vm": -1, "name": "Theme", "route": via},
                   {"op": "req_begin"}, {"op": "objcall", "vm": 1, "name": "Theme", "route": via}, {"op": "req_end"}]
            cases.append((mk(fresh(ops), names=["Theme", "A"], consts=["K"], sharedobj=["Theme"]), 0))
        # the function side of the shared-code family: the base defines c12call_tf() { return tf(); } (tf undefined when the
        # body is parsed: a late-bound call node in a shared AST); tf is defined per VM, returning its definition's marker
        FNNAMES = ["tf", "tg", "A"]

        def fn_alpha(vms):
            a = []
            for v in [-1] + list(vms):
                a += [{"op": "callcall", "vm": v, "name": "tf"}, {"op": "callcall", "vm": v, "name": "tg"},
                      {"op": "add", "vm": v, "kind": "f", "name": "tf", "file": 0, "route": rng.choice(["parse", "parsefile", "include", "cond", "infunc"])},
                      {"op": "add", "vm": v, "kind": "f", "name": "tg", "file": 0, "route": "parse"}]
            return a
        for x in (-1, 0, 1, 2):
            for y in (-1, 0, 1, 2):
                if x == y:
                    continue
                for ydef in (True, False):
                    ops = pre + [{"op": "newtemp"}, {"op": "add", "vm": x, "kind": "f", "name": "tf", "file": 0, "route": "parse"}, {"op": "callcall", "vm": x, "name": "tf"}] + \
                          ([{"op": "add", "vm": y, "kind": "f", "name": "tf", "file": 0, "route": "parse"}] if ydef else []) + \
                          [{"op": "callcall", "vm": y, "name": "tf"}, {"op": "callcall", "vm": x, "name": "tf"}]
                    ops = fresh(ops)
                    t = x if x >= 0 else y
                    cases.append((mk(ops, names=FNNAMES, consts=["K"], sharedfn=["tf", "tg"]), t if t >= 0 and any(scoped_to(t, o) for o in ops) else None))
        for _ in range(200 if ck.tier == "quick" else 1200):
            al = fn_alpha((0, 1, 2))
            ops = pre + [{"op": "newtemp"}] + [rng.choice(al) for _ in range(rng.randint(3, 9))]
            if rng.random() < 0.3:
                k = rng.randrange(3, len(ops))
                ops[k:k] = [{"op": "discard", "t": rng.randrange(3)}, {"op": "newtemp"}, {"op": "callcall", "vm": 3, "name": "tf"}]
            ops = fresh(ops)
            t = rng.choice([0, 1, 2])
            cases.append((mk(ops, names=FNNAMES, consts=["K"], sharedfn=["tf", "tg"]), t if any(scoped_to(t, o) for o in ops) else None))
        for nreq in (2, 3):
            ops = []
            for t in range(nreq):
                ops += [{"op": "req_begin"}] + ([{"op": "add", "vm": t, "kind": "f", "name": "tf", "file": 0, "route": "parse"}] if t != 1 else []) + \
                       [{"op": "callcall", "vm": t, "name": "tf"}, {"op": "req_end"}]
            cases.append((mk(fresh(ops), names=FNNAMES, consts=["K"], sharedfn=["tf", "tg"]), 0))
        # classes that only an spl autoload callback provides (composer classmap / legacy autoloader; seeded change C12-10:
        # TempVM.LoadPkg calling the callbacks on a context bound to the BASE VM): every lookup route on every VM
        CBNAMES = ["Legacy", "LegacyB", "A", "App\\P"]

        def cb_alpha(vms):
            a = []
            for v in [-1] + list(vms):
                for n in ("Legacy", "LegacyB"):
                    a += [{"op": "pkg", "vm": v, "name": n}, {"op": "goc", "vm": v, "name": n}, {"op": "pkg", "vm": v, "name": n}]
                a += [{"op": "goi", "vm": v, "name": "Legacy"}, {"op": "cexists", "vm": v, "name": "Legacy"}, {"op": "new", "vm": v, "name": "LegacyB"},
                      {"op": "pkg", "vm": v, "name": "App\\P"}, {"op": "add", "vm": v, "kind": "c", "name": "A", "file": 0, "route": "parse"}]
                # (no direct definition of a callback-provided name: a callback is re-run on every miss and overwrites a
                # TempVM's own class of that name, which the class-path-file model of callbacks -- loaded once -- does not do)
            return a
        cal = cb_alpha((0, 1))
        for a in cal:
            for b in cal:
                if ck.tier == "quick" and rng.random() > 0.3:
                    continue          # quick: a seeded third of the ordered pairs
                ops = fresh(pre + [a, b])
                t = rng.choice([0, 1])
                cases.append((mk(ops, names=CBNAMES, consts=["K"], callbacks=["Legacy", "LegacyB"]), t if any(scoped_to(t, o) for o in ops) else None))
        for _ in range(200 if ck.tier == "quick" else 1500):
            cal3 = cb_alpha((0, 1, 2))
            ops = pre + [{"op": "newtemp"}] + [rng.choice(cal3) for _ in range(rng.randint(3, 9))]
            if rng.random() < 0.3:
                k = rng.randrange(3, len(ops))
                ops[k:k] = [{"op": "discard", "t": rng.randrange(3)}, {"op": "newtemp"}, {"op": rng.choice(["pkg", "goc"]), "vm": 3, "name": "Legacy"}]
            ops = fresh(ops)
            t = rng.choice([0, 1, 2])
            cases.append((mk(ops, names=CBNAMES, consts=["K"], callbacks=["Legacy", "LegacyB"]), t if any(scoped_to(t, o) for o in ops) else None))
        for nreq in (2, 3):
            for look in ("pkg", "goc"):
                ops = []
                for t in range(nreq):
                    ops += [{"op": "req_begin"}, {"op": look, "vm": t, "name": "Legacy"}, {"op": "pkg", "vm": t, "name": "LegacyB"}, {"op": "req_end"}]
                cases.append((mk(ops, names=CBNAMES, consts=["K"], callbacks=["Legacy", "LegacyB"]), 0))
        nrand = 400 if ck.tier == "quick" else 5000
        for _ in range(nrand):
            c = rand_case(rng, 40)
            ts = sorted(set(o["vm"] for o in c["ops"] if o["op"] in ("add", "goc", "goi", "pkg", "cexists", "iexists", "new", "newshort", "callfn", "newchild", "callcall", "objcall") and o["vm"] >= 0))
            cases.append((c, rng.choice(ts) if ts else None))

    # WHERE the files of a history live (the files of routes parsefile / include / require_once and the class-path
    # directory of namespace App) is not part of the property: half of the histories get a path shape (seeded change
    # C12-15: files whose path contains /vendor/ handed to the base VM)
    SHAPES = ["vendor", "vendor/acme/lib/src", "app/vendor/x", "src", "My.Dir/UPPER", "lib/v1.2/inc", "dots:vendor", "dots:src"]
    if not ck.replay:
        for c, _ in cases:
            if "hot" not in c and rng.random() < 0.5:
                c["pathshape"] = rng.choice(SHAPES)
    shapes_used = {}
    for c, _ in cases:
        shapes_used[c.get("pathshape", "")] = shapes_used.get(c.get("pathshape", ""), 0) + 1
    ck.cov["path_shape_distribution"] = shapes_used
    # run every history, and for the chosen t the purged history, on the implementation
    jobs = []
    for c, t in cases:
        jobs.append(c)
        if t is not None:
            jobs.append(dict(c, ops=purge(t, c["ops"])))
    # deduplicate identical histories (the purged history of an exhaustive case is itself a case)
    uniq = {}
    order = []
    for j in jobs:
        k = json.dumps(j, sort_keys=True)
        if k not in uniq:
            uniq[k] = len(order)
            order.append(j)
    ck.log('running %d histories on the implementation' % len(order))
    outs, rc, err = run_impl(binary, order)
    ck.log('implementation done')
    if len(outs) != len(order):
        ck.log("harness returned %d results for %d cases rc=%d\n%s" % (len(outs), len(order), rc, err[-2000:]))
        ck.broken.append("harness-run")
        ck.finish(evaluations=len(outs), distinct_nontrivial=0, rule="harness crashed")

    def obs_of(c):
        return outs[uniq[json.dumps(c, sort_keys=True)]]

    terms, idx = [], []
    ndropped = 0
    for i, (c, t) in enumerate(cases):
        o = obs_of(c)
        if "worker_death" in o:
            ck.violation("worker-death:" + str(o["worker_death"].get("signature")),
                         {"case": c, "purge_t": t, "impl_out": o["worker_death"], "clause": "the engine process died or hung while running this history"})
            continue
        if o.get("err"):
            ck.violation("impl-error", {"case": c, "impl_out": o, "clause": "harness/implementation error"})
            continue
        po = obs_of(dict(c, ops=purge(t, c["ops"]))) if t is not None else None
        if po is not None and (po.get("err") or "worker_death" in po):
            po = None
        cn, on, nd = normalize(c, o)
        ndropped += nd
        if po is not None:
            _, po, _ = normalize(dict(c, ops=purge(t, c["ops"])), po)
        terms.append(coq_case(cn, on, t, po))
        idx.append(i)
    # spread the long random histories evenly over the shards
    perm = list(range(len(terms)))
    ck.rng.shuffle(perm)
    terms = [terms[i] for i in perm]
    idx = [idx[i] for i in perm]
    ck.log('evaluating %d cases in Coq' % len(terms))
    # shards of at most 400 histories: a coqc process evaluating 1 500 long histories at once grows to several GB and was
    # killed on the loaded machine in the thorough tier (empty output, reported as a broken evaluation)
    bad = ck.eval_cases("cases", HEADER, terms, "check_case", shard=min(400, max(100, len(terms) // 32 + 1)))
    names = {1: "tie: op result model-vs-impl", 2: "tie: lookups model-vs-impl", 3: "temp_op_frame(impl)",
             4: "base_visible_in_temps/base_stays_resolvable(impl)", 5: "temp_isolation_results/lookups(impl, purged history)",
             6: "implementation panicked"}
    for j, cls in sorted(bad.items(), key=lambda kv: len(cases[idx[kv[0]]][0]["ops"])):
        c, t = cases[idx[j]]
        o = obs_of(c)
        kinds = sorted(set(x["op"] for x in c["ops"] if t is not None and scoped_to(t, x)))
        key = "c12:clauses=%s:scoped=%s" % ("".join(map(str, cls)), "+".join(kinds))
        stale = cls == [1] and stale_own_after_base_add(c, o)
        if stale:
            key = "c12:shared-ast:own-definition-kept-after-base-add"
        if not (set(cls) & {3, 4, 5, 6}) and not stale:
            ck.broken.append("correspondence:C12.ops")
        rep = {"case": c, "purge_t": t, "impl_out": o, "clause": [names[x] for x in cls]}
        if t is not None:
            rep["impl_out_purged"] = obs_of(dict(c, ops=purge(t, c["ops"])))
        ck.violation(key, rep)

    ck.log('evaluation done')
    # ---- hot reload through ONE shared handler AST (audit finding C12-1): a script handler served by the real HotHandler
    # several times, the autoload file App/P.php rewritten before every request: request k runs on its own TempVM and
    # must see version k of the class through every access path that resolves a class name in the AST.
    hot_bodies = {
        "new": "$o = new App\\P(); $w->write($o->v());",
        "static-method": "$w->write(App\\P::s());",
        "new-twice": "$a = new App\\P(); $b = new App\\P(); $w->write($a->v() + $b->v() - $a->v());",
        "class_exists+new": "if (class_exists(\"App\\\\P\")) { $o = new App\\P(); $w->write($o->v()); }",
    }
    nhot = 0
    if not ck.replay or json.load(open(ck.replay)).get("mode") == "hot":
        hcases = [{"hot": {"body": b, "requests": 3}, "_kind": k} for k, b in sorted(hot_bodies.items())]
        if ck.replay:
            hcases = [json.load(open(ck.replay))["case"]]
        houts, _, _ = run_impl(binary, hcases)
        for c, o in zip(hcases, houts):
            nhot += 1
            if "worker_death" in o:
                ck.violation("worker-death:" + str(o["worker_death"].get("signature")), {"mode": "hot", "case": c, "impl_out": o["worker_death"], "clause": "engine died"})
                continue
            got = [(st.get("r"), st.get("out")) for st in o.get("steps") or []]
            want = [(0, str(k)) for k in range(1, c["hot"]["requests"] + 1)]
            if o.get("err") or got != want:
                ck.violation("hot-reload:" + c.get("_kind", "?"), {"mode": "hot", "case": c, "impl_out": o,
                             "clause": "request k (own TempVM, class file rewritten before it) must see version k of App\\P: a definition resolved by an earlier request leaked through the shared handler AST"})
    ck.cov["hot_reload_cases"] = nhot

    # ---- what a request declares THROUGH THE REQUEST MACHINERY stays in the request (seeded changes C12-11: shutdown
    # callbacks registered in a request run on a base-VM context when the request ends; C12-12: methods of $r / $w run on
    # frames bound to the base VM): a script handler served by the real HotHandler several times; the handler declares
    # things only at run time -- directly, through $w->view() of a template with a text/zy script block, through a
    # shutdown callback registered in the request, through included files.  After EVERY request (i.e. after ServeHTTP
    # returned, deferred clean-up included) the base VM and a fresh TempVM resolve none of the probe names, and every
    # request answers the same.
    TPL = ('<!DOCTYPE html><html><head><script type="text/zy">\nfunction c12_tpl_helper($s) { return \'[\' . $s . \']\'; }\n'
           'class C12TplBox { public $v = 7; }\n$label = c12_tpl_helper($name);\n$b = new C12TplBox();\n</script></head><body><p>{$label}</p><i>{$b->v}</i></body></html>')
    TPLF = ('<!DOCTYPE html><html><head><script type="text/zy">\nfunction c12_tplf($s) { return \'(\' . $s . \')\'; }\n$x = c12_tplf($name);\n'
            '</script></head><body><b>{$x}</b></body></html>')
    DECL = "<?php\nclass C12SdBox { public $v = 4; }\ninterface C12SdI {}\nfunction c12sd_inc() { return 2; }\n"
    req_bodies = {
        "view-template(function+class)": ("$w->view('DIR/page.html', ['name' => 'bob']);", {"page.html": TPL}, ["c12_tpl_helper", "C12TplBox"]),
        "view-template(function)": ("$w->view('DIR/f.html', ['name' => 'al']);", {"f.html": TPLF}, ["c12_tplf"]),
        "view-twice-different-templates": ("$w->view('DIR/f.html', ['name' => 'al']); $w->view('DIR/page.html', ['name' => 'bob']);", {"f.html": TPLF, "page.html": TPL}, ["c12_tplf", "c12_tpl_helper", "C12TplBox"]),
        "body-function+include": ("function c12body_helper() { return 5; }\ninclude 'DIR/decl.php';\n$o = new C12SdBox();\n$w->write(c12body_helper() + $o->v + c12sd_inc());", {"decl.php": DECL}, ["c12body_helper", "C12SdBox", "C12SdI", "c12sd_inc"]),
        "shutdown-callback-declares-function": ("register_shutdown_function(function() { function c12sd_helper() { return 1; } });\n$w->write('ok');", {}, ["c12sd_helper"]),
        "shutdown-callback-requires-file": ("register_shutdown_function(function() { require_once 'DIR/decl.php'; });\n$w->write('ok');", {"decl.php": DECL}, ["C12SdBox", "C12SdI", "c12sd_inc"]),
        "shutdown-callback-autoloads": ("register_shutdown_function(function() { $o = new App\\P(); });\n$w->write('ok');", {}, ["App\\P"]),
        "shutdown-callback-evals": ("register_shutdown_function(function() { if (1 == 1) { function c12sd_cond() { return 1; } } c12sd_cond(); });\n$w->write('ok');", {}, ["c12sd_cond"]),
        "two-shutdown-callbacks": ("register_shutdown_function(function() { function c12sd_a() { return 1; } });\nregister_shutdown_function(function() { require_once 'DIR/decl.php'; });\n$w->write('ok');", {"decl.php": DECL}, ["c12sd_a", "C12SdBox", "c12sd_inc"]),
        "view+shutdown": ("register_shutdown_function(function() { function c12sd_helper() { return 1; } });\n$w->view('DIR/f.html', ['name' => 'al']);", {"f.html": TPLF}, ["c12sd_helper", "c12_tplf"]),
    }
    nreqm = 0
    if not ck.replay or json.load(open(ck.replay)).get("mode") == "request-machinery":
        rcases = [{"hot": {"body": b, "requests": 3, "files": f, "probe": pr, "norewrite": kind != "shutdown-callback-autoloads"}, "_kind": kind} for kind, (b, f, pr) in sorted(req_bodies.items())]
        if ck.replay:
            rcases = [json.load(open(ck.replay))["case"]]
        routs, _, _ = run_impl(binary, rcases)
        for c, o in zip(rcases, routs):
            nreqm += 1
            kind = c.get("_kind", "?")
            if "worker_death" in o:
                ck.violation("worker-death:" + str(o["worker_death"].get("signature")), {"mode": "request-machinery", "case": c, "impl_out": o["worker_death"], "clause": "engine died"})
                continue
            steps = o.get("steps") or []
            leaks = sorted(set(l for st in steps for l in (st.get("leak") or [])))
            outs_ = [st.get("out") for st in steps]
            if o.get("err") or len(steps) != c["hot"]["requests"]:
                ck.violation("request-machinery:%s:engine" % kind, {"mode": "request-machinery", "case": c, "impl_out": o, "clause": "harness/implementation error"})
            elif leaks:
                ck.violation("request-machinery:%s:leak" % kind, {"mode": "request-machinery", "case": c, "impl_out": o,
                             "clause": "discard_frame/temp_op_frame(impl): after a request served by HotHandler the base VM / a fresh TempVM resolves a name only the request declared: " + ", ".join(leaks)})
            elif any(st.get("r") != 0 for st in steps) or len(set(outs_)) != 1 or not outs_[0]:
                ck.violation("request-machinery:%s:requests-differ" % kind, {"mode": "request-machinery", "case": c, "impl_out": o,
                             "clause": "every request (own TempVM) must succeed and answer the same: a later request failed or answered differently (a definition of an earlier request is in its way)"})
    ck.cov["request_machinery_cases"] = nreqm

    # ---- coverage numbers (measured)
    dist, lens, routes = {}, {}, {}
    nontriv = 0
    seen = set()
    for c, t in cases:
        k = json.dumps(c["ops"], sort_keys=True)
        if k in seen:
            continue
        seen.add(k)
        ops = c["ops"]
        for o in ops:
            dist[o["op"]] = dist.get(o["op"], 0) + 1
            if o["op"] == "add":
                routes[o.get("route", "direct")] = routes.get(o.get("route", "direct"), 0) + 1
        if any(o["op"] == "req_begin" for o in ops):
            dist["histories_with_HotHandler_requests"] = dist.get("histories_with_HotHandler_requests", 0) + 1
        b = min(len(ops) // 5 * 5, 40)
        lens[str(b)] = lens.get(str(b), 0) + 1
        # non-trivial: some TempVM operation and some operation on a different VM
        tv = set(o["vm"] for o in ops if o["op"] in ("add", "goc", "goi", "pkg", "cexists", "iexists", "new", "newshort", "callfn", "newchild", "callcall", "objcall"))
        if len(tv) >= 2 and any(v >= 0 for v in tv):
            nontriv += 1
    res = {}
    for o in outs:
        for s in (o.get("steps") or []):
            res[str(s["r"])] = res.get(str(s["r"]), 0) + 1
    ck.cov["op_kind_distribution"] = dist
    ck.cov["add_route_distribution"] = routes
    ck.cov["ops_refused_without_effect(eval-route definitions on a TempVM, LoadPkg of callback-only names on a TempVM; removed before the model comparison)"] = ndropped
    ck.cov["length_distribution_by_5"] = lens
    ck.cov["impl_result_codes(0 ok,1 throw,2 panic,3 dead vm)"] = res
    ck.cov["histories_with_purged_twin"] = sum(1 for _, t in cases if t is not None)
    ck.cov["exhaustive_len"] = 3 if ck.tier == "quick" else 4
    ck.samples = [cases[len(cases) // 2][0], cases[-1][0]] if cases else []
    ck.finish(level="proof", evaluations=len(order), distinct_nontrivial=nontriv,
              rule="histories over 1 base + <=4 TempVMs: all sequences up to the stated length over a 12-op alphabet after two NewTempVM (plus a seeded sample of length 4 in the quick tier), seeded random histories of length 1..40 over an 8-name pool with case/backslash variants, same-file re-declarations, direct and parse-time registration, autoload files; definitions made by script statements (eval / include / require_once / inside a function body / inside a conditional) for every route x kind x VM with 7 tails, namespaced code with short class names (all ordered pairs of a 21-op alphabet with and without a global Widget on the base + seeded random histories over three TempVMs + HotHandler requests); code defined on the base whose class names resolve per VM (shared function body / base class extending a per-VM parent, incl. garbage-collected TempVMs), classes provided only by spl autoload callbacks (a third of the ordered pairs of a 33-op alphabet + random + requests); each with the history purged of one TempVM's operations; plus, evaluated on the implementation only, 4 hot-reload bodies and 10 request-machinery bodies served 3 times by the real HotHandler; non-trivial = distinct history with operations on at least two VMs one of which is a TempVM",
              traces=len(terms))
