"""Statement-level tie for C01's parser core: generated core programs and their token-level mutants are lexed and
parsed by the real parser (harness/cmd/stmt); the Coq statement model (coq/Stmt) parses the same token stream;
trees are compared.  This module converts the engine's observations into Coq terms."""
import json
import re
import subprocess
import threading

BIN = {"??": "OCoal", ".": "ODot", "||": "OLor", "&&": "OLand", "|": "OBor", "^": "OBxor", "&": "OBand", "==": "OEq",
       "!=": "ONe", "===": "OEqS", "!==": "ONeS", "<": "OLt", "<=": "OLe", ">": "OGt", ">=": "OGe", "<=>": "OCmp",
       "<<": "OShl", ">>": "OShr", "+": "OAdd", "-": "OSub", "*": "OMul", "/": "ODiv", "%": "ORem", "**": "OPow"}
ASG = {"=": "AEq", "+=": "AAdd", "-=": "ASub", "*=": "AMul", "/=": "ADiv", "%=": "ARem", ".=": "ADot", "??=": "ACoal",
       "|=": "ABor", "&=": "ABand", "^=": "ABxor", "<<=": "AShl", ">>=": "AShr", "**=": "APow"}
KW = {"if": "KIf", "else": "KElse", "elseif": "KElseIf", "while": "KWhile", "do": "KDo", "for": "KFor",
      "foreach": "KForeach", "as": "KAs", "switch": "KSwitch", "case": "KCase", "default": "KDefault", "break": "KBreak",
      "continue": "KContinue", "return": "KReturn", "echo": "KEcho", "try": "KTry", "catch": "KCatch",
      "finally": "KFinally", "throw": "KThrow", "new": "KNew", "function": "KFunction"}
PUNCT = {"!": "SNot", "~": "SBnot", "?": "SQ", ":": "SColon", "?:": "SElvis", "(": "SLp", ")": "SRp", ";": "SSemi",
         "[": "SLb", "]": "SRb", "{": "SLbrace", "}": "SRbrace", ",": "SComma", "=>": "SArrow", "++": "SIncr", "--": "SDecr"}
FIXED_IDENTS = ["int", "string", "bool", "float", "strlen", "count", "abs", "f", "Exception"]


class Names:
    """per-case numbering of variables, strings and identifiers (the model only compares them)"""

    def __init__(self):
        self.vars = {}
        self.strs = {}
        self.idents = {n: i for i, n in enumerate(FIXED_IDENTS)}
        self.ident_tok = set()
        self.str_tok = set()

    def var(self, n):
        return self.vars.setdefault(n, len(self.vars))

    def string(self, n):
        return self.strs.setdefault(n, len(self.strs))

    def ident(self, n):
        return self.idents.setdefault(n, len(self.idents))


def unquote(lit):
    return lit[1:-1] if len(lit) >= 2 and lit[0] in "\"'`" and lit[-1] == lit[0] else lit


def coq_stok(c, t, nm):
    if c == "var":
        if not t.startswith("$"):
            return "SOther"      # an identifier that the lexer's pass 4 turned into a variable (`f = 1; f(2)`): outside the model
        return "SAtom (AVar %d%%nat)" % nm.var(t[1:])
    if c == "int":
        if t.startswith("-") and t[1:].isdigit():
            return "SAtom (ANum true %s)" % t[1:]
        return "SAtom (ANum false %s)" % t if t.isdigit() and len(t) < 15 else "SOther"
    if c == "str":
        body = unquote(t)
        if "\\" in body or "$" in body or "{" in body:
            return "SOther"
        nm.str_tok.add(body)
        return "SAtom (AStr %d%%nat)" % nm.string(body)
    if c == "true":
        return "SAtom ATrue"
    if c == "false":
        return "SAtom AFalse"
    if c == "null":
        return "SAtom ANull"
    if c == "ident":
        if "\\" in t:
            return "SOther"
        nm.ident_tok.add(t)
        return "SIdent %d%%nat" % nm.ident(t)
    if c == "kw":
        return "SKw " + KW[t] if t in KW else "SOther"
    if c == "op":
        if t in BIN:
            return "SBin " + BIN[t]
        if t in ASG:
            return "SAsg " + ASG[t]
        return PUNCT.get(t, "SOther")
    return "SOther"


def sexp_parse(s):
    pos = 0
    n = len(s)

    def skip():
        nonlocal pos
        while pos < n and s[pos] == " ":
            pos += 1

    def item():
        nonlocal pos
        skip()
        if s[pos] == "(":
            pos += 1
            out = []
            while True:
                skip()
                if s[pos] == ")":
                    pos += 1
                    return out
                out.append(item())
        if s[pos] == '"':
            j = pos + 1
            while s[j] != '"':
                j += 2 if s[j] == "\\" else 1
            tok = s[pos:j + 1]
            pos = j + 1
            return tok
        j = pos
        while j < n and s[j] not in " ()":
            j += 1
        tok = s[pos:j]
        pos = j
        return tok
    return item()


class Unrepresentable(Exception):
    pass


def clist(items):
    return "[" + "; ".join(items) + "]"


def coq_ast(x, nm):
    """engine s-expression -> Coq term of type Stmt.Model.ast; raises Unrepresentable for nodes outside the model"""
    if not isinstance(x, list) or not x:
        raise Unrepresentable(str(x))
    h = x[0]
    A = lambda y: coq_ast(y, nm)
    L = lambda ys: clist(A(y) for y in ys)
    if h == "nil":
        return "ENil"
    if h == "var":
        return "(EAtom (AVar %d%%nat))" % nm.var(x[1])
    if h == "int":
        v = int(x[1])
        return "(EAtom (ANum %s %d))" % ("true" if v < 0 else "false", abs(v))
    if h == "str":
        body = json.loads(x[1])
        if body in nm.ident_tok and body not in nm.str_tok:
            return "(EIdentStr %d%%nat)" % nm.ident(body)
        if body in nm.str_tok and body not in nm.ident_tok:
            return "(EAtom (AStr %d%%nat))" % nm.string(body)
        raise Unrepresentable("ambiguous string " + body)
    if h == "true":
        return "(EAtom ATrue)"
    if h == "false":
        return "(EAtom AFalse)"
    if h == "null":
        return "ENullLit" if len(x) == 1 else "(EAtom ANull)"
    if h == "nullval":
        return "ENullVal"
    if h == "=":
        return "(EAsg AEq %s %s)" % (A(x[1]), A(x[2]))
    if h in BIN and len(x) == 3:
        return "(EBin %s %s %s)" % (BIN[h], A(x[1]), A(x[2]))
    if h in ("un-", "un!", "un~"):
        return "(EUn %s %s)" % ({"-": "UNeg", "!": "UNot", "~": "UBnot"}[h[2]], A(x[1]))
    if h == "?:":
        return "(ETern %s %s %s)" % (A(x[1]), A(x[2]), A(x[3]))
    if h in ("preinc", "predec", "postinc", "postdec"):
        return "(%s %s %s)" % ("EPreInc" if h.startswith("pre") else "EPostInc", "true" if h.endswith("inc") else "false", A(x[1]))
    if h == "index":
        return "(EIndex %s %s)" % (A(x[1]), A(x[2]))
    if h in ("call", "cast"):
        return "(ECallFn %d%%nat %s)" % (nm.ident(x[1]), L(x[2:]))
    if h == "callexpr":
        return "(ECallExpr %s %s)" % (A(x[1]), L(x[2:]))
    if h == "new":
        return "(ENew %d%%nat %s)" % (nm.ident(x[1]), L(x[2:]))
    if h == "array":
        return "(EArray %s)" % L(x[1:])
    if h == "kv":
        return "(EKv %s)" % clist("(%s, %s)" % (A(p[0]), A(p[1])) for p in x[1:])
    if h == "varlist":
        return "(EVarList %s)" % L(x[1:])
    if h == "echo":
        return "(SEcho %s)" % L(x[1:])
    B = lambda b: L(b[1:])          # (block ...)
    if h == "if":
        elifs = clist("(%s, %s)" % (A(p[0]), B(p[1])) for p in x[3][1:])
        return "(SIf %s %s %s %s)" % (A(x[1]), B(x[2]), elifs, B(x[4]))
    if h == "while":
        return "(SWhile %s %s)" % (A(x[1]), B(x[2]))
    if h == "dowhile":
        return "(SDoWhile %s %s)" % (A(x[1]), B(x[2]))
    if h == "for":
        return "(SFor %s %s %s %s)" % (B(x[1]), A(x[2]), B(x[3]), B(x[4]))
    if h == "foreach":
        return "(SForeach %s %s %s %s)" % (A(x[1]), A(x[2]), A(x[3]), B(x[4]))
    if h == "switch":
        cases = clist("(%s, %s)" % (A(p[0]), B(p[1])) for p in x[2][1:])
        return "(SSwitch %s %s %s)" % (A(x[1]), cases, B(x[3]))
    if h == "break":
        return "(SBreak %d)" % max(0, int(x[1]))
    if h == "continue":
        return "(SContinue %d)" % max(0, int(x[1]))
    if h == "return":
        return "(SReturn %s)" % A(x[1])
    if h == "returns":
        return "(SReturns %s)" % L(x[1:])
    if h == "throw":
        return "(SThrow %s)" % A(x[1])
    if h == "try":
        cs = []
        for c in x[2][1:]:
            tys = [t for t in json.loads(c[0][1]).split("|") if t]
            cs.append("(%s, %s, %s)" % (clist("%d%%nat" % nm.ident(t) for t in tys), A(c[1]), B(c[2])))
        return "(STry %s %s %s)" % (B(x[1]), clist(cs), B(x[3]))
    if h == "function":
        ps = clist("(%d%%nat, %s)" % (nm.var(p[0]), A(p[1])) for p in x[2][1:])
        return "(SFunc %d%%nat %s %s)" % (nm.ident(x[1]), ps, B(x[3]))
    raise Unrepresentable(h)


HEADER = ("From Coq Require Import List NArith Bool.\nImport ListNotations.\n"
          "From V.C04 Require Import Model.\nFrom V.Stmt Require Import Model Run.\nOpen Scope N_scope.\n")


def coq_case(o):
    """returns a Coq term of type Stmt.Run.case, or None when the observation cannot be represented"""
    nm = Names()
    toks = clist(coq_stok(c, t, nm) for c, t in (o.get("toks") or []))
    if o.get("panic"):
        real = "RBad"
    elif o.get("perr"):
        real = "RErr"
    elif o.get("tree"):
        try:
            tree = sexp_parse(o["tree"])
            real = "(ROk %s)" % clist(coq_ast(y, nm) for y in tree[1:])
        except (Unrepresentable, ValueError, IndexError, KeyError):
            return None
    else:
        real = "RBad"
    return "{| rtoks := %s; real := %s |}" % (toks, real)


def run_engine(binary, srcs, nproc=8):
    if not srcs:
        return []
    size = (len(srcs) + nproc - 1) // nproc
    chunks = [srcs[i:i + size] for i in range(0, len(srcs), size)]
    results = [None] * len(chunks)

    def work(i):
        inp = "\n".join(json.dumps({"src": s, "eval": False}) for s in chunks[i]) + "\n"
        p = subprocess.run([binary], input=inp, stdout=subprocess.PIPE, stderr=subprocess.DEVNULL, text=True, timeout=900)
        outs = []
        for l in p.stdout.splitlines():
            if l.startswith("{"):
                try:
                    outs.append(json.loads(l))
                except ValueError:
                    pass
        while len(outs) < len(chunks[i]):
            outs.append({"panic": "worker died"})
        results[i] = outs
    ths = [threading.Thread(target=work, args=(i,)) for i in range(len(chunks))]
    for t in ths:
        t.start()
    for t in ths:
        t.join()
    return [o for r in results for o in r]
