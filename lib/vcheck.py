"""Shared machinery for every property check under /verif (python3, stdlib only).

One check run (see DESIGN.md section 3):
  1. build the Go harness from /repo's *current working tree* with -tags verif
  2. regenerate the property's generated Coq tables (if any)
  3. proof obligations: make the property's cone, then re-run coqc on Properties.v
     and Examples.v unconditionally, count theorems and collect Print Assumptions
  4. correspondence: run generated cases on the implementation, evaluate the Coq
     model (and spec) on the same cases with vm_compute, diff
  5. report: KNOWN-FINDING lines, VIOLATION lines, evidence/<id>.json
"""
import fcntl
import hashlib
import json
import os
import random
import re
import shutil
import subprocess
import sys
import time

VERIF = os.path.dirname(os.path.dirname(os.path.abspath(__file__)))
REPO = os.environ.get("VERIF_REPO", "/repo")
BUILD = os.path.join(VERIF, ".build")
COQ = os.path.join(VERIF, "coq")
HARNESS = os.path.join(VERIF, "harness")
NCPU = int(os.environ.get("VERIF_JOBS", "0")) or os.cpu_count() or 4


def mem_available_gb():
    try:
        for l in open("/proc/meminfo"):
            if l.startswith("MemAvailable:"):
                return int(l.split()[1]) / 2**20
    except OSError:
        pass
    return 1e9

FORBIDDEN = re.compile(
    r"\b(Admitted|admit|Axiom|Axioms|Parameter|Parameters|Conjecture|Conjectures|"
    r"Admit\s+Obligations|Unset\s+Guard\s+Checking|Unset\s+Positivity\s+Checking|"
    r"Unset\s+Universe\s+Checking|bypass_check|native_compute)\b")


def go_env():
    env = dict(os.environ)
    env["GOFLAGS"] = "-mod=mod"
    env["GOPROXY"] = "off"
    env.pop("GOTOOLCHAIN", None) if env.get("GOTOOLCHAIN") == "local" else None
    # the repository needs the cached go1.25 toolchain: GOTOOLCHAIN must not be "local",
    # and GOSUMDB must not be "off" (see DESIGN.md section 5)
    if env.get("GOSUMDB") == "off":
        env.pop("GOSUMDB")
    return env


def sh(cmd, cwd=None, timeout=1200, env=None, input=None):
    """run a command, return (rc, stdout+stderr)"""
    try:
        p = subprocess.run(cmd, cwd=cwd, timeout=timeout, env=env, input=input,
                           stdout=subprocess.PIPE, stderr=subprocess.STDOUT,
                           shell=isinstance(cmd, str), text=True, errors="replace")
        return p.returncode, p.stdout
    except subprocess.TimeoutExpired as e:
        out = e.stdout or ""
        if isinstance(out, bytes):
            out = out.decode("utf-8", "replace")
        return 124, out + "\n[timeout after %ss]" % timeout


def disk_guard(min_free_gb=25):
    """the Go build cache grows by gigabytes per scratch worktree / -race build: when the disk runs
    low, drop it (it is only a cache) and this run's stale scratch directories"""
    try:
        st = os.statvfs(VERIF)
        free = st.f_bavail * st.f_frsize / 2**30
        if free < min_free_gb:
            with Lock("diskguard"):
                sh("go clean -cache", timeout=600, env=go_env())
                # only scratch directories no run has touched for 20 minutes (a concurrent run may be building in one)
                sh("find %s -maxdepth 1 -name '*-alt-*' -mmin +20 -exec rm -rf {} +" % BUILD)
    except OSError:
        pass


class Lock:
    def __init__(self, name):
        os.makedirs(BUILD, exist_ok=True)
        self.path = os.path.join(BUILD, name + ".lock")

    def __enter__(self):
        self.f = open(self.path, "w")
        fcntl.flock(self.f, fcntl.LOCK_EX)
        return self

    def __exit__(self, *a):
        fcntl.flock(self.f, fcntl.LOCK_UN)
        self.f.close()


def coq_string(s):
    """Coq string literal for a python str of bytes 0..255 (latin-1)."""
    out = []
    for ch in s:
        if ch == '"':
            out.append('""')
        else:
            out.append(ch)
    return '"' + "".join(out) + '"'


def coq_bytes(bs):
    """Coq term of type list N / list Z (numerals) for a bytes object."""
    return "[" + "; ".join(str(b) for b in bs) + "]"


def coq_list(items):
    return "[" + "; ".join(items) + "]"


def coq_z(n):
    return "(%d)" % n if n < 0 else "%d" % n


def coq_bool(b):
    return "true" if b else "false"


def coq_option(x):
    return "None" if x is None else "(Some %s)" % x


class Check:
    def __init__(self, pid, tier="quick", seed=None, replay=None):
        self.pid = pid
        self.tier = tier
        if seed is None:
            seed = int(os.environ.get("VERIF_SEED", "20260925"))
        self.seed = seed
        self.replay = replay
        self.rng = random.Random(seed * 1000003 + sum(map(ord, pid)))
        self.t0 = time.time()
        # a run against a scratch worktree (VERIF_REPO) gets its own scratch directory: otherwise it overwrites
        # the harness binaries and case files of a concurrent run of the same check against /repo
        sub = pid
        if os.path.realpath(REPO) != "/repo":
            sub = "%s-alt-%s" % (pid, hashlib.sha1(os.path.realpath(REPO).encode()).hexdigest()[:6])
        self.bdir = os.path.join(BUILD, sub)
        os.makedirs(self.bdir, exist_ok=True)
        os.makedirs(os.path.join(VERIF, "evidence"), exist_ok=True)
        os.makedirs(os.path.join(VERIF, "replays"), exist_ok=True)
        self.violations = []          # (key, replay_path, no_failing_input)
        self.known_hits = {}          # key -> (description, count)
        self.obligations = 0
        self.discharged = 0
        self.assumptions = []         # from Print Assumptions
        self.theorems = []
        self.cov = {}
        self.samples = []
        self.notes = []
        self.trusted = []
        self.checker_cmds = []
        self.broken = []              # names of theorems / correspondences that no longer check
        self.known = self._load_known()

    # ---------------------------------------------------------------- known findings
    def _load_known(self):
        """KNOWN_FINDINGS lines:
             known: property=C13 key=<key> <free text>
             fixed: property=C13 <commit> <free text>        (suppresses nothing)"""
        res = {}
        path = os.path.join(VERIF, "KNOWN_FINDINGS")
        if not os.path.exists(path):
            return res
        for line in open(path, encoding="utf-8"):
            line = line.strip()
            m = re.match(r"known:\s+property=(\S+)\s+key=(\S+)\s*(.*)$", line)
            if m and m.group(1) == self.pid:
                res[m.group(2)] = m.group(3)
        return res

    def log(self, *a):
        print("[%s %6.1fs]" % (self.pid, time.time() - self.t0), *a, flush=True)

    # ---------------------------------------------------------------- builds
    def go_build(self, pkg, out=None, tags="verif", race=False, extra=None, timeout=1500):
        """build ./cmd/<pkg> of the harness module against /repo's working tree"""
        disk_guard()
        out = out or os.path.join(self.bdir, pkg + ("-race" if race else ""))
        with Lock("gosum"):
            try:
                shutil.copyfile(os.path.join(REPO, "go.sum"), os.path.join(HARNESS, "go.sum"))
            except OSError:
                pass
        cmd = ["go", "build"]
        if os.path.realpath(REPO) != "/repo":
            # VERIF_REPO=<scratch worktree>: same harness, module replaced by that tree
            alt = os.path.join(self.bdir, "go.alt.mod")
            txt = open(os.path.join(HARNESS, "go.mod")).read().replace("=> /repo", "=> " + os.path.realpath(REPO))
            open(alt, "w").write(txt)
            shutil.copyfile(os.path.join(REPO, "go.sum"), os.path.join(self.bdir, "go.alt.sum"))
            cmd += ["-modfile", alt]
        if tags:
            cmd += ["-tags", tags]
        if race:
            cmd += ["-race"]
        cmd += (extra or [])
        cmd += ["-o", out, "./cmd/" + pkg]
        rc, o = sh(cmd, cwd=HARNESS, env=go_env(), timeout=timeout)
        if rc != 0:
            self.log("go build failed:\n" + o[-3000:])
            return None, o
        return out, o

    def build_origami(self, out=None, tags=None, race=False):
        out = out or os.path.join(self.bdir, "origami" + ("-race" if race else ""))
        cmd = ["go", "build"]
        if tags:
            cmd += ["-tags", tags]
        if race:
            cmd += ["-race"]
        cmd += ["-o", out, "."]
        rc, o = sh(cmd, cwd=REPO, env=go_env(), timeout=1500)
        if rc != 0:
            self.log("origami build failed:\n" + o[-3000:])
            return None, o
        return out, o

    # ---------------------------------------------------------------- coq
    def coq_make(self, targets, timeout=3000, clean=False, dirs=None):
        """(re)build .vo targets (paths relative to coq/); full .vo, never -vos.
        Each property has its own makefile (Makefile.<pid>) generated from the .v files of
        Common/, gen/ and the property's directories `dirs`, so that several checks (or several
        people editing different properties) can build at the same time. Common/ and gen/ are
        built under a global lock, property directories under a per-directory lock."""
        dirs = dirs or [self.pid]
        def listv(d):
            root = os.path.join(COQ, d)
            if not os.path.isdir(root):
                return []
            return sorted(os.path.join(d, f) for f in os.listdir(root) if f.endswith(".v"))
        common = listv("Common")
        files = list(common)
        for d in dirs:
            files += listv(d)
        proj = os.path.join(COQ, "_CoqProject." + self.pid)
        content = "-Q . V\n" + "\n".join(files) + "\n"
        mk = "Makefile." + self.pid
        with Lock("coq-" + self.pid):
            if not os.path.exists(proj) or open(proj).read() != content or not os.path.exists(os.path.join(COQ, mk)):
                open(proj, "w").write(content)
                rc, o = sh(["coq_makefile", "-f", "_CoqProject." + self.pid, "-o", mk], cwd=COQ)
                if rc != 0:
                    return False, o
            if clean:
                for d in dirs:
                    sh("rm -f *.vo *.vok *.vos *.glob .*.aux", cwd=os.path.join(COQ, d))
            with Lock("coq-common"):
                ctargets = [f[:-2] + ".vo" for f in common]
                if ctargets:
                    rc, o = sh(["make", "-f", mk, "-j%d" % NCPU] + ctargets, cwd=COQ, timeout=timeout)
                    if rc != 0:
                        return False, o
            locks = [Lock("coq-dir-" + d.replace("/", "_")) for d in sorted(dirs)]
            for l in locks:
                l.__enter__()
            try:
                rc, o = sh(["make", "-f", mk, "-j%d" % NCPU] + list(targets), cwd=COQ, timeout=timeout)
            finally:
                for l in reversed(locks):
                    l.__exit__()
            return rc == 0, o

    def coqc(self, vfile, timeout=1200, cwd=None):
        """compile one file outside the makefile (cases, generated obligations); returns (rc, output)"""
        cmd = ["coqc", "-Q", COQ, "V", vfile]
        return sh(cmd, cwd=cwd or os.path.dirname(vfile), timeout=timeout)

    def scan_forbidden(self, dirs):
        """grep the development for anything that would declare an axiom or switch a check off"""
        bad = []
        for d in dirs:
            root = os.path.join(COQ, d)
            for dp, _, fs in os.walk(root):
                for f in fs:
                    if not f.endswith(".v"):
                        continue
                    txt = open(os.path.join(dp, f), encoding="utf-8").read()
                    txt_nc = strip_coq_comments(txt)
                    for m in FORBIDDEN.finditer(txt_nc):
                        bad.append("%s: %s" % (os.path.relpath(os.path.join(dp, f), COQ), m.group(0)))
        return bad

    def prove(self, pdir=None, extra_targets=(), extra_dirs=(), deps=()):
        """Step 3. Build the cone of coq/<pid>/, then re-check Properties.v and Examples.v
        unconditionally and parse theorem names + Print Assumptions. Returns True when every
        obligation was discharged."""
        pdir = pdir or self.pid
        t0 = time.time()
        bad = self.scan_forbidden([pdir, "Common"] + list(extra_dirs) + list(deps))
        if bad:
            self.log("forbidden constructs:", bad)
            self.broken.append("forbidden-construct:" + ";".join(bad[:5]))
        vfiles = sorted(f for f in os.listdir(os.path.join(COQ, pdir)) if f.endswith(".v"))
        targets = [os.path.join(pdir, f[:-2] + ".vo") for f in vfiles] + list(extra_targets)
        # force re-check of the files that state the property
        for f in ("Properties", "Examples"):
            for ext in (".vo", ".vok", ".vos", ".glob"):
                p = os.path.join(COQ, pdir, f + ext)
                if os.path.exists(p):
                    os.remove(p)
        ok, out = self.coq_make(targets, clean=(self.tier == "thorough"), dirs=[pdir] + list(deps) + list(extra_dirs))
        self.checker_cmds.append("make -f Makefile.<pid> -j%d %s (coqc 8.16.1, full .vo)" % (NCPU, " ".join(targets)))
        props_src = strip_coq_comments(open(os.path.join(COQ, pdir, "Properties.v"), encoding="utf-8").read())
        names = re.findall(r"^\s*(?:Theorem|Corollary)\s+([A-Za-z0-9_']+)", props_src, re.M)
        ex_names = []
        ex_path = os.path.join(COQ, pdir, "Examples.v")
        if os.path.exists(ex_path):
            ex_src = strip_coq_comments(open(ex_path, encoding="utf-8").read())
            ex_names = re.findall(r"^\s*(?:Example|Theorem|Lemma)\s+([A-Za-z0-9_']+)", ex_src, re.M)
        self.theorems = names
        self.examples = ex_names
        self.obligations += len(names) + len(ex_names)
        if ok:
            self.discharged += len(names) + len(ex_names)
        else:
            # which ones still compile?  find the failing file/theorem from the log
            self.log("coq build failed:\n" + out[-4000:])
            m = re.search(r'File "\./([^"]+)", line (\d+)', out)
            where = "%s:%s" % (m.group(1), m.group(2)) if m else "unknown"
            self.broken.append("proof:" + where)
            self.coq_log_tail = out[-3000:]
        # Print Assumptions output
        ass = parse_assumptions(out)
        self.assumptions = ass
        self.cov["proof_wall_s"] = round(time.time() - t0, 1)
        if self.tier == "thorough" and ok:
            self.coqchk(pdir)
        return ok

    def coqchk(self, pdir):
        t0 = time.time()
        mods = []
        for f in sorted(os.listdir(os.path.join(COQ, pdir))):
            if f.endswith(".vo"):
                mods.append("V.%s.%s" % (pdir.replace("/", "."), f[:-3]))
        cmd = ["coqchk", "-silent", "-o", "-Q", COQ, "V"] + mods
        rc, out = sh(cmd, cwd=COQ, timeout=3000)
        self.checker_cmds.append(" ".join(cmd))
        self.cov["coqchk_rc"] = rc
        self.cov["coqchk_wall_s"] = round(time.time() - t0, 1)
        tail = out.strip().splitlines()[-40:]
        self.cov["coqchk_tail"] = tail
        if rc != 0:
            self.broken.append("coqchk")
            self.log("coqchk failed:\n" + "\n".join(tail))

    def eval_cases(self, name, header, case_terms, check_fn, shard=400, timeout=1200):
        """Step 4. Evaluate `check_fn : case -> list nat` (list of failing clause numbers; [] = agree)
        on every case term with vm_compute.  Returns {case_index: [clause numbers]} of failures.
        `header` is the Require/Import prelude."""
        results = {}
        jobs = []
        for si in range(0, len(case_terms), shard):
            chunk = case_terms[si:si + shard]
            path = os.path.join(self.bdir, "%s_%d.v" % (name, si // shard))
            with open(path, "w", encoding="latin-1") as f:
                f.write(header + "\n")
                f.write("Definition cases := [\n  " + ";\n  ".join(chunk) + "\n].\n")
                f.write("Definition bad := Eval vm_compute in\n"
                        "  (fix go (i : nat) (cs : list _) : list (nat * list nat) :=\n"
                        "     match cs with [] => [] | c :: r =>\n"
                        "       match %s c with [] => go (S i) r | l => (i, l) :: go (S i) r end end) 0%%nat cases.\n" % check_fn)
                f.write("Set Printing Width 1000000.\nSet Printing Depth 1000000.\nPrint bad.\n")
            jobs.append((si, path))
        procs = []
        failures = []
        # run up to NCPU coqc in parallel
        pending = list(jobs)
        running = []
        while pending or running:
            while pending and len(running) < NCPU:
                # a shard can need 1-5 GB: when other checks run beside this one, do not start another
                # shard while memory is short (a shard killed by the kernel would be a broken evaluation)
                if running and mem_available_gb() < 8:
                    break
                si, path = pending.pop(0)
                p = subprocess.Popen(["timeout", str(timeout), "coqc", "-Q", COQ, "V", path],
                                     cwd=self.bdir, stdout=subprocess.PIPE, stderr=subprocess.STDOUT, text=True,
                                     errors="replace")
                running.append((si, path, p))
            si, path, p = running.pop(0)
            out, _ = p.communicate()
            if p.returncode != 0:
                failures.append((path, out[-2000:]))
                continue
            m = re.search(r"bad\s*=\s*(.*?)\s*:\s*list \(nat \* list nat\)", out, re.S)
            if not m:
                failures.append((path, out[-2000:]))
                continue
            body = m.group(1).replace("%nat", "")
            nfound = 0
            for mm in re.finditer(r"\((\d+),\s*\[([0-9;\s]*)\]\)", body):
                idx = int(mm.group(1)) + si
                cl = [int(x) for x in mm.group(2).replace(" ", "").split(";") if x]
                results[idx] = cl
                nfound += 1
            if nfound == 0 and body.strip() != "[]":
                failures.append((path, "unparsed result: " + body[:500]))
        if failures:
            for path, out in failures:
                self.log("coqc failed on %s:\n%s" % (path, out))
            self.broken.append("correspondence-eval:" + name)
        return results

    def eval_print(self, header, term, timeout=300):
        """evaluate one closed term with vm_compute and return Coq's printed text (for replays)"""
        path = os.path.join(self.bdir, "print_%d.v" % (abs(hash(term)) % 10**8))
        with open(path, "w", encoding="latin-1") as f:
            f.write(header + "\nSet Printing Width 1000000.\nSet Printing Depth 1000000.\n")
            f.write("Definition it := Eval vm_compute in (%s).\nPrint it.\n" % term)
        rc, out = self.coqc(path, timeout=timeout, cwd=self.bdir)
        m = re.search(r"it\s*=\s*(.*)\s*:\s", out, re.S)
        return (m.group(1).strip() if m else out[-1500:])

    # ---------------------------------------------------------------- reporting
    def known_finding(self, key, detail=None):
        """returns True when `key` is listed in KNOWN_FINDINGS (prefix match on the listed key)"""
        for k, desc in self.known.items():
            if key == k or key.startswith(k + ":"):
                d, n, first = self.known_hits.get(k, (desc, 0, detail))
                self.known_hits[k] = (desc, n + 1, first)
                return True
        return False

    def violation(self, key, replay_obj, no_failing_input=False):
        """record a violation unless `key` is a known finding; writes the replay file"""
        if not no_failing_input and self.known_finding(key, replay_obj):
            return False
        self.vcount = getattr(self, "vcount", {})
        self.vcount[key] = self.vcount.get(key, 0) + 1
        if self.vcount[key] > 2 or (len(self.violations) >= 30 and self.vcount[key] > 1):
            # same failing class already reported twice: count it, do not write another replay
            self.suppressed = getattr(self, "suppressed", 0) + 1
            return True
        h = hashlib.sha1(json.dumps(replay_obj, sort_keys=True, default=str).encode()).hexdigest()[:10]
        path = os.path.join(VERIF, "replays", "%s-%s.json" % (self.pid, h))
        replay_obj = dict(replay_obj)
        replay_obj.setdefault("property", self.pid)
        replay_obj.setdefault("key", key)
        replay_obj.setdefault("seed", self.seed)
        replay_obj["kind"] = "no-failing-input-found" if no_failing_input else "input"
        with open(path, "w") as f:
            json.dump(replay_obj, f, indent=1, default=str)
        self.violations.append((key, path, no_failing_input))
        return True

    def finish(self, level="proof", evaluations=None, distinct_nontrivial=None, rule=None,
               traces=None, extra=None):
        """write evidence, print KNOWN-FINDING / VIOLATION lines, exit"""
        # a broken proof / tie with no concrete failing input is still a violation
        if self.broken and not any(not nf for _, _, nf in self.violations):
            self.violation("broken:" + ",".join(self.broken),
                           {"broken": self.broken,
                            "coqc_log_tail": getattr(self, "coq_log_tail", ""),
                            "notes": self.notes}, no_failing_input=True)
        for k, (desc, n, first) in sorted(self.known_hits.items()):
            print("KNOWN-FINDING: property=%s %s %s (%d cases this run)" % (self.pid, k, desc, n))
        seen = set()
        for key, path, nf in self.violations:
            if key in seen and len(seen) > 20:
                continue
            seen.add(key)
            print("VIOLATION property=%s replay=%s%s" % (self.pid, path, " no-failing-input-found" if nf else ""))
        cov = dict(self.cov)
        # schema: typed keys must keep their types; a descriptive value moves to a *_scope key
        if "exhaustive" in cov and not isinstance(cov["exhaustive"], bool):
            cov["exhaustive_scope"] = cov.pop("exhaustive")
        for k in ("states", "transitions", "traces_validated_against_impl"):
            if k in cov and not (isinstance(cov[k], int) and not isinstance(cov[k], bool) and cov[k] >= 0):
                cov[k + "_detail"] = cov.pop(k)
        cov["obligations"] = self.obligations
        cov["discharged"] = self.discharged
        cov["checker_cmd"] = "; ".join(self.checker_cmds) or "none"
        cov["theorems"] = self.theorems
        cov["examples"] = getattr(self, "examples", [])
        cov["print_assumptions"] = self.assumptions
        cov["trusted_base"] = self.trusted + ["Coq 8.16.1 kernel + vm_compute (no native_compute)",
                                             "lib/vcheck.py driver"]
        if evaluations is not None:
            cov["evaluations"] = evaluations
        if distinct_nontrivial is not None:
            cov["distinct_nontrivial"] = distinct_nontrivial
        if rule:
            cov["rule"] = rule
        if traces is not None:
            cov["traces_validated_against_impl"] = traces
        cov["samples"] = self.samples[:8] if self.samples else ["(none)"]
        cov["known_findings_hit"] = {k: n for k, (d, n, f) in self.known_hits.items()}
        # listed known findings that this run did not reproduce: either the sample did not reach
        # them or the entry is stale (the defect was repaired) — reported, never silently kept
        not_hit = sorted(k for k in self.known if k not in self.known_hits)
        cov["known_findings_not_reproduced"] = not_hit
        for k in not_hit:
            print("NOTE: property=%s known finding %s was not reproduced by this run (stale entry or not sampled)" % (self.pid, k))
        cov["broken"] = self.broken
        cov["violations_not_written"] = getattr(self, "suppressed", 0)
        if extra:
            cov.update(extra)
        ev = {
            "property_id": self.pid,
            "tier": self.tier if self.tier in ("quick", "thorough") else "quick",
            "seed": self.seed,
            "level": level,
            "coverage": cov,
            "assumptions": self.notes,
            "wall_s": round(time.time() - self.t0, 1),
            "violations": len(self.violations),
        }
        with open(os.path.join(VERIF, "evidence", self.pid + ".json"), "w") as f:
            json.dump(ev, f, indent=1, default=str)
        self.log("done: obligations %d/%d, violations %d, known %d, wall %.1fs" % (
            self.discharged, self.obligations, len(self.violations), len(self.known_hits), time.time() - self.t0))
        sys.exit(1 if self.violations else 0)


def strip_coq_comments(txt):
    out = []
    depth = 0
    i = 0
    n = len(txt)
    instr = False
    while i < n:
        if not instr and txt.startswith("(*", i):
            depth += 1
            i += 2
            continue
        if not instr and depth > 0 and txt.startswith("*)", i):
            depth -= 1
            i += 2
            continue
        ch = txt[i]
        if depth == 0:
            if ch == '"':
                instr = not instr
            out.append(ch)
        i += 1
    return "".join(out)


def parse_assumptions(out):
    """collect the axioms Print Assumptions reported in a make/coqc log"""
    res = []
    closed = len(re.findall(r"Closed under the global context", out))
    if closed:
        res.append("Closed under the global context x%d" % closed)
    for m in re.finditer(r"Axioms:\n((?:.+\n)+?)(?=\S.*\n(?!\s)|\Z)", out):
        pass
    # simple line-based scan: after a line 'Axioms:' collect 'name : type' lines
    lines = out.splitlines()
    i = 0
    axs = set()
    while i < len(lines):
        if lines[i].strip() == "Axioms:":
            i += 1
            while i < len(lines) and (lines[i].startswith(" ") or re.match(r"^[A-Za-z_][\w.']*\s*(:|$)", lines[i])):
                mm = re.match(r"^([A-Za-z_][\w.']*)\s*:", lines[i])
                if mm:
                    axs.add(mm.group(1))
                else:
                    # a long type puts the name alone on its line and ": type" on the next one
                    mm = re.match(r"^([A-Za-z_][\w.']*)\s*$", lines[i])
                    if mm and i + 1 < len(lines) and re.match(r"^\s+:", lines[i + 1]):
                        axs.add(mm.group(1))
                i += 1
            continue
        i += 1
    res.extend(sorted(axs))
    return res


def parse_args(argv):
    import argparse
    ap = argparse.ArgumentParser()
    ap.add_argument("pid")
    ap.add_argument("--tier", default=os.environ.get("VERIF_TIER", "quick"))
    ap.add_argument("--replay", default=None)
    ap.add_argument("--seed", type=int, default=None)
    return ap.parse_args(argv)
