"""Robust line-oriented worker driver (builder E; used by checks/C09.py, C10.py, C12.py).

run_worker(cmd, cases) feeds one JSON case per line to a worker process that answers one JSON line per
case.  When the worker dies (fatal error: concurrent map writes, `all goroutines are asleep - deadlock!`,
an unrecovered panic, os.Exit) or stops answering (hang), the death is ATTRIBUTED to the case that was in
flight: its result is {"worker_death": {...}} and a fresh worker is started for the remaining cases.  No
exception escapes: a worker death is data for the check (-> VIOLATION with that case), never a crash of
the driver."""
import json
import os
import re
import select
import subprocess
import threading
import time


def _signature(stderr, rc, hung):
    if hung:
        return "hang"
    m = re.search(r"fatal error: ([^\n]+)", stderr)
    if m:
        return "fatal-error:" + re.sub(r"[^A-Za-z0-9]+", "-", m.group(1).strip())[:60]
    if "WARNING: DATA RACE" in stderr:
        return "data-race"
    m = re.search(r"panic: ([^\n]+)", stderr)
    if m:
        return "panic:" + re.sub(r"[^A-Za-z0-9]+", "-", m.group(1).strip())[:60]
    return "exit-%s" % rc


def run_worker(cmd, cases, per_case_timeout=60, env=None, max_restarts=25, cwd=None, restart_exit_codes=()):
    """returns a list aligned with `cases`: parsed JSON answers, or {"worker_death": {...}}.
    restart_exit_codes: exit statuses with which a worker may leave on purpose right AFTER answering a case (its
    process state is no longer trustworthy); the next case is then not blamed, a fresh worker simply continues."""
    results = [None] * len(cases)
    nxt = 0
    restarts = 0
    while nxt < len(cases):
        if restarts > max_restarts:
            for k in range(nxt, len(cases)):
                results[k] = {"worker_death": {"signature": "not-run:too-many-worker-deaths", "stderr_tail": "", "exit": None}}
            break
        batch = cases[nxt:]
        try:
            p = subprocess.Popen(cmd, stdin=subprocess.PIPE, stdout=subprocess.PIPE, stderr=subprocess.PIPE, env=env, cwd=cwd)
        except OSError as e:
            for k in range(nxt, len(cases)):
                results[k] = {"worker_death": {"signature": "cannot-start-worker", "stderr_tail": str(e), "exit": None}}
            break
        err_chunks = []

        def _drain_err(pipe=p.stderr, acc=err_chunks):
            try:
                for chunk in iter(lambda: pipe.read(65536), b""):
                    acc.append(chunk)
                    if sum(map(len, acc)) > 4 << 20:
                        del acc[:-8]
            except (OSError, ValueError):
                pass

        def _feed(pipe=p.stdin, items=batch):
            try:
                for c in items:
                    pipe.write((json.dumps(c) + "\n").encode())
                pipe.close()
            except (OSError, ValueError):
                pass

        te = threading.Thread(target=_drain_err, daemon=True)
        tf = threading.Thread(target=_feed, daemon=True)
        te.start()
        tf.start()
        got = 0
        buf = b""
        hung = False
        fd = p.stdout.fileno()
        deadline = time.time() + per_case_timeout
        eof = False
        while got < len(batch) and not eof:
            wait = deadline - time.time()
            if wait <= 0:
                hung = True
                break
            r, _, _ = select.select([fd], [], [], min(wait, 1.0))
            if not r:
                continue
            chunk = os.read(fd, 1 << 20)
            if not chunk:
                eof = True
                break
            buf += chunk
            while b"\n" in buf and got < len(batch):
                line, buf = buf.split(b"\n", 1)
                if not line.strip():
                    continue
                try:
                    results[nxt + got] = json.loads(line.decode("utf-8", "replace"))
                except ValueError:
                    results[nxt + got] = {"worker_death": {"signature": "unparsable-answer", "stderr_tail": line[:500].decode("utf-8", "replace"), "exit": None}}
                got += 1
                deadline = time.time() + per_case_timeout
        if got >= len(batch):
            try:
                p.wait(timeout=30)
            except subprocess.TimeoutExpired:
                p.kill()
            te.join(timeout=5)
            nxt += got
            break
        # the worker died or hangs with case nxt+got in flight
        try:
            p.kill()
        except OSError:
            pass
        try:
            rc = p.wait(timeout=10)
        except subprocess.TimeoutExpired:
            rc = None
        te.join(timeout=5)
        if not hung and got > 0 and rc in restart_exit_codes:
            nxt += got
            restarts += 1
            continue
        stderr = b"".join(err_chunks).decode("utf-8", "replace")
        keep = [l for l in stderr.splitlines() if re.search(r"fatal error|panic:|DATA RACE|origami/|goroutine \d+ \[", l)][:30]
        results[nxt + got] = {"worker_death": {"signature": _signature(stderr, rc, hung), "exit": rc, "hung": hung,
                                               "stderr_tail": "\n".join(keep) or stderr[-1500:]}}
        nxt += got + 1
        restarts += 1
    return results


def deaths(cases, results):
    """[(case, death_info)] for the cases whose worker died"""
    return [(c, r["worker_death"]) for c, r in zip(cases, results) if isinstance(r, dict) and "worker_death" in r]
