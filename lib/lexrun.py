"""Run cases on harness/cmd/lex in worker processes with attribution of worker deaths (fatal errors, stack
overflow, runaway parses): a case whose worker died without answering is reported as {"dead": true}; the
remaining cases of that chunk are re-run in a fresh worker."""
import json
import subprocess
import threading


def _run_chunk(binary, chunk, timeout):
    outs = []
    todo = list(chunk)
    while todo:
        inp = "\n".join(json.dumps(c) for c in todo) + "\n"
        p = subprocess.Popen([binary], stdin=subprocess.PIPE, stdout=subprocess.PIPE, stderr=subprocess.PIPE, text=True,
                             errors="replace")
        try:
            so, se = p.communicate(inp, timeout=timeout)
        except subprocess.TimeoutExpired:
            p.kill()
            so, se = p.communicate()
        got = []
        for l in so.splitlines():
            if l.startswith("{"):
                try:
                    got.append(json.loads(l))
                except ValueError:
                    break
        outs += got
        todo = todo[len(got):]
        if not todo:
            break
        if got and (got[-1].get("parse") == "timeout" or got[-1].get("run") == "timeout"):
            continue            # the worker exited on purpose after a timeout; nothing died
        # the worker died on todo[0] (or produced garbage): attribute and skip it
        # a script that exits the process on purpose (exit(), a CLI application booted by an annotation at parse
        # time) is not a crash: only a Go fatal error / unrecovered panic / signal counts as a death
        tail = (se or "")[-3000:]
        crashed = (p.returncode is None or p.returncode < 0 or p.returncode == 2 or
                   any(k in tail for k in ("fatal error:", "panic:", "SIGSEGV", "stack overflow", "goroutine ")))
        if crashed:
            outs.append({"dead": True, "rc": p.returncode, "stderr": tail[-600:]})
        else:
            outs.append({"exited": True, "rc": p.returncode, "toks": [], "parse": "exit"})
        todo = todo[1:]
    return outs


def run(binary, cases, nproc=8, timeout=900):
    if not cases:
        return []
    size = (len(cases) + nproc - 1) // nproc
    chunks = [cases[i:i + size] for i in range(0, len(cases), size)]
    results = [None] * len(chunks)

    def work(i):
        # a failure of the runner itself (not of a case) must not take the whole check down: the chunk's cases are
        # reported as unanswered, with the exception text
        try:
            results[i] = _run_chunk(binary, chunks[i], timeout)
        except BaseException as e:  # noqa: BLE001
            import traceback
            results[i] = [{"dead": True, "rc": None, "stderr": "lexrun: " + repr(e) + " " + traceback.format_exc()[-400:]}
                          for _ in chunks[i]]
        if len(results[i]) < len(chunks[i]):
            results[i] += [{"dead": True, "rc": None, "stderr": "lexrun: no answer"}] * (len(chunks[i]) - len(results[i]))
    ths = [threading.Thread(target=work, args=(i,)) for i in range(len(chunks))]
    for t in ths:
        t.start()
    for t in ths:
        t.join()
    return [o for r in results for o in r]
