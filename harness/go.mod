module verif/harness

go 1.25.0

require (
	github.com/php-any/origami v0.0.0
	google.golang.org/protobuf v1.36.11
)

require (
	filippo.io/edwards25519 v1.1.0 // indirect
	github.com/dlclark/regexp2 v1.11.5 // indirect
	github.com/go-sql-driver/mysql v1.9.3 // indirect
	github.com/ncruces/go-strftime v1.0.0 // indirect
	github.com/spf13/cobra v1.10.2 // indirect
	github.com/spf13/pflag v1.0.9 // indirect
)

replace github.com/php-any/origami => /repo
