// c02: runs whole programs on the real interpreter, in-process, one fresh VM per program.
// stdin: one JSON case per line {"src": "<?php ..."}; stdout: one JSON observation per line
// {"out": "...", "outcome": "ok"|"throw"|"parse"|"panic"|"control"|"timeout", "detail": "..."}.
// Every observation line starts with the marker "@@R@@ " so that anything the interpreter writes to
// the real stdout behind data.WriteOutput's back cannot be mistaken for (or corrupt) a result.
// A program that does not finish within the per-case budget is reported as "timeout" and the
// process exits (the goroutine cannot be killed); the driver restarts the engine after it.
package main

import (
	"encoding/json"
	"fmt"
	"os"
	"time"

	"verif/harness/vrun"
)

type Case struct {
	Src string `json:"src"`
}

type Obs struct {
	Out     string `json:"out"`
	Outcome string `json:"outcome"`
	Detail  string `json:"detail,omitempty"`
}

func main() {
	emit := func(o Obs) {
		b, _ := json.Marshal(o)
		os.Stdout.WriteString("\n@@R@@ " + string(b) + "\n")
	}
	vrun.Lines(func(line string) {
		if line == "" {
			return
		}
		var c Case
		if err := json.Unmarshal([]byte(line), &c); err != nil {
			emit(Obs{Outcome: "bad-case", Detail: err.Error()})
			return
		}
		done := make(chan vrun.Result, 1)
		go func() { done <- vrun.RunString(c.Src, "c02.php") }()
		select {
		case r := <-done:
			d := r.Detail
			if len(d) > 300 {
				d = d[:300]
			}
			emit(Obs{Out: r.Out, Outcome: r.Outcome, Detail: d})
		case <-time.After(10 * time.Second):
			emit(Obs{Outcome: "timeout"})
			fmt.Fprintln(os.Stderr, "c02: case timed out, exiting")
			os.Exit(3)
		}
	})
}
