// stmt: drives the real lexer + parser on statement-level sources (C01 parser core) and dumps tokens and the
// whole program tree. Derived from cmd/c04 (same case / observation format; no trailing ";" is added).
// stdin: one JSON case per line {"src":"<expression>", "pre":"<statements run before>", "eval":true}
// stdout: one JSON observation per line:
//
//	toks   token stream of `src;` as the real lexer (incl. preprocessor) produced it, projected to
//	       [class, text] pairs (class: var int float num str true false null op ident other)
//	tree   s-expression of the parsed statement (only when the program has exactly one statement)
//	nstmt  number of top-level statements the parser produced
//	perr   parse error text (not compared), panic text if the parser panicked
//	val    outcome of running  pre; $r = src; var_dump($r, vars...)  on a fresh VM (when eval)
package main

import (
	"encoding/json"
	"fmt"
	"os"
	"strconv"
	"strings"

	"verif/harness/vrun"

	"github.com/php-any/origami/data"
	"github.com/php-any/origami/lexer"
	"github.com/php-any/origami/node"
	"github.com/php-any/origami/token"
)

type Case struct {
	Src  string `json:"src"`
	Pre  string `json:"pre"`
	Post string `json:"post"`
	Eval bool   `json:"eval"`
}

type Obs struct {
	Toks  [][2]string `json:"toks"`
	Tree  string      `json:"tree,omitempty"`
	Nstmt int         `json:"nstmt"`
	Perr  string      `json:"perr,omitempty"`
	Panic string      `json:"panic,omitempty"`
	Val   string      `json:"val,omitempty"`
	Vout  string      `json:"vout,omitempty"`
}

func tokClass(t lexer.Token) [2]string {
	switch t.Type() {
	case token.VARIABLE:
		return [2]string{"var", t.Literal()}
	case token.INT:
		return [2]string{"int", t.Literal()}
	case token.FLOAT:
		return [2]string{"float", t.Literal()}
	case token.NUMBER:
		return [2]string{"num", t.Literal()}
	case token.STRING:
		return [2]string{"str", t.Literal()}
	case token.TRUE:
		return [2]string{"true", ""}
	case token.FALSE:
		return [2]string{"false", ""}
	case token.NULL:
		return [2]string{"null", ""}
	case token.IDENTIFIER, token.BOOL:
		return [2]string{"ident", t.Literal()}
	}
	ty := t.Type()
	if ty > token.KEYWORD_START && ty < token.KEYWORD_END {
		return [2]string{"kw", token.GetLiteralByType(ty)}
	}
	if ty > token.KEYWORD_END && ty < token.INTERPOLATION_TOKEN {
		// operator / punctuation from the token table: identified by its table literal
		return [2]string{"op", token.GetLiteralByType(ty)}
	}
	return [2]string{"other", fmt.Sprintf("%d:%s", int(ty), t.Literal())}
}

// dump renders the expression nodes the C04 model knows; anything else is (other <GoType>).
func dump(v data.GetValue) string {
	if v == nil {
		return "(nil)"
	}
	bin := func(op string, l, r data.GetValue) string { return "(" + op + " " + dump(l) + " " + dump(r) + ")" }
	switch n := v.(type) {
	case *node.VariableExpression:
		return "(var " + n.Name + ")"
	case *node.IntLiteral:
		if iv, ok := n.V.(*data.IntValue); ok {
			return "(int " + strconv.Itoa(iv.Value) + ")"
		}
		return "(int ?)"
	case *node.FloatLiteral:
		return "(float " + n.V.AsString() + ")"
	case *node.StringLiteral:
		return "(str " + strconv.Quote(n.Value) + ")"
	case *node.BooleanLiteral:
		if n.Value {
			return "(true)"
		}
		return "(false)"
	case *node.NullLiteral:
		return "(null)"
	case *node.BinaryAdd:
		return bin("+", n.Left, n.Right)
	case *node.BinarySub:
		return bin("-", n.Left, n.Right)
	case *node.BinaryMul:
		return bin("*", n.Left, n.Right)
	case *node.BinaryQuo:
		return bin("/", n.Left, n.Right)
	case *node.BinaryRem:
		return bin("%", n.Left, n.Right)
	case *node.BinaryPow:
		return bin("**", n.Left, n.Right)
	case *node.BinaryDot:
		return bin(".", n.Left, n.Right)
	case *node.BinaryEq:
		return bin("==", n.Left, n.Right)
	case *node.BinaryNe:
		return bin("!=", n.Left, n.Right)
	case *node.BinaryEqStrict:
		return bin("===", n.Left, n.Right)
	case *node.BinaryNeStrict:
		return bin("!==", n.Left, n.Right)
	case *node.BinaryLt:
		return bin("<", n.Left, n.Right)
	case *node.BinaryLe:
		return bin("<=", n.Left, n.Right)
	case *node.VarIntLe: // fast path built by NewBinaryLe for `$v <= int`; keeps the plain node in Le
		return dump(n.Le)
	case *node.BinaryGt:
		return bin(">", n.Left, n.Right)
	case *node.BinaryGe:
		return bin(">=", n.Left, n.Right)
	case *node.BinarySpaceship:
		return bin("<=>", n.Left, n.Right)
	case *node.BinaryLand:
		return bin("&&", n.Left, n.Right)
	case *node.BinaryLor:
		return bin("||", n.Left, n.Right)
	case *node.BinaryBitAnd:
		return bin("&", n.Left, n.Right)
	case *node.BinaryBitXor:
		return bin("^", n.Left, n.Right)
	case *node.BinaryBitOr:
		return bin("|", n.Left, n.Right)
	case *node.BinaryShl:
		return bin("<<", n.Left, n.Right)
	case *node.BinaryShr:
		return bin(">>", n.Left, n.Right)
	case *node.NullCoalesceExpression:
		return bin("??", n.Left, n.Right)
	case *node.BinaryAssign:
		return bin("=", n.Left, n.Right)
	case *node.BinaryAssignVariable:
		return bin("=", n.Left, n.Right)
	case *node.VarFastAssign:
		return bin("=", n.Dst, n.Slow)
	case *node.UnaryExpression:
		return "(un" + n.Operator + " " + dump(n.Right) + ")"
	case *node.TernaryExpression:
		return "(?: " + dump(n.Condition) + " " + dump(n.TrueValue) + " " + dump(n.FalseValue) + ")"
	case *node.CallLater:
		return dump(n.CallExpression)
	case *node.CallExpression:
		return "(call " + n.FunName + dumpList(n.Args) + ")"
	case *node.CallMethod:
		return "(callexpr " + dump(n.Method) + dumpList(n.Args) + ")"
	case *node.IndexExpression:
		return "(index " + dump(n.Array) + " " + dump(n.Index) + ")"
	case *data.NullValue:
		return "(nullval)"
	case *data.IntValue:
		return "(int " + strconv.Itoa(n.Value) + ")"
	case *node.UnaryIncr:
		return "(preinc " + dump(n.Right) + ")"
	case *node.UnaryDecr:
		return "(predec " + dump(n.Right) + ")"
	case *node.PostfixIncr:
		return "(postinc " + dump(n.Left) + ")"
	case *node.PostfixDecr:
		return "(postdec " + dump(n.Left) + ")"
	case *node.VarPostIncr:
		return dump(n.Fallback)
	case *node.VarPostDecr:
		return dump(n.Fallback)
	case *node.VarStmtIncr:
		return dump(n.Fallback)
	case *node.NewExpression:
		return "(new " + n.ClassName + dumpList(n.Arguments) + ")"
	case *node.Array:
		if len(n.Keys) == 0 {
			return "(array" + dumpList(n.V) + ")"
		}
	case *node.Kv:
		s := "(kv"
		for _, p := range n.V {
			s += " (" + dump(p.Key) + " " + dump(p.Value) + ")"
		}
		return s + ")"
	case *node.VariableList:
		s := "(varlist"
		for _, v := range n.Vars {
			s += " " + dump(v)
		}
		return s + ")"
	case *node.BinaryAssignVariableList:
		return "(= " + dump(n.Left) + " " + dump(n.Right) + ")"
	case *node.EchoStatement:
		return "(echo" + dumpList(n.Expressions) + ")"
	case *node.IfStatement:
		s := "(if " + dump(n.Condition) + " (block" + dumpList(n.ThenBranch) + ") (elifs"
		for _, e := range n.ElseIf {
			s += " (" + dump(e.Condition) + " (block" + dumpList(e.ThenBranch) + "))"
		}
		return s + ") (block" + dumpList(n.ElseBranch) + "))"
	case *node.WhileStatement:
		return "(while " + dump(n.Condition) + " (block" + dumpList(n.Body) + "))"
	case *node.DoWhileStatement:
		return "(dowhile " + dump(n.Condition) + " (block" + dumpList(n.Body) + "))"
	case *node.ForStatement:
		return "(for (block" + dumpList(n.Initializers) + ") " + dump(n.Condition) + " (block" + dumpList(n.Increments) + ") (block" + dumpList(n.Body) + "))"
	case *node.ForeachStatement:
		k, v := "(nil)", "(nil)"
		if n.Key != nil {
			k = dump(n.Key)
		}
		if n.Value != nil {
			v = dump(n.Value)
		}
		return "(foreach " + dump(n.Array) + " " + k + " " + v + " (block" + dumpList(n.Body) + "))"
	case *node.SwitchStatement:
		s := "(switch " + dump(n.Condition) + " (cases"
		for _, c := range n.Cases {
			s += " (" + dump(c.CaseValue) + " (block" + dumpList(c.Statements) + "))"
		}
		return s + ") (block" + dumpList(n.DefaultCase) + "))"
	case *node.BreakStatement:
		return "(break " + strconv.Itoa(n.Level) + ")"
	case *node.ContinueStatement:
		return "(continue " + strconv.Itoa(n.Level) + ")"
	case *node.ReturnStatement:
		return "(return " + dump(n.Value) + ")"
	case *node.ReturnsStatement:
		return "(returns" + dumpList(n.Values) + ")"
	case *node.ThrowStatement:
		return "(throw " + dump(n.Value) + ")"
	case *node.TryStatement:
		s := "(try (block" + dumpList(n.TryBlock) + ") (catches"
		for _, c := range n.CatchBlocks {
			ty := ""
			if c.ExceptionType != nil {
				ty = c.ExceptionType.String()
			}
			v := "(nil)"
			if c.Variable != nil {
				v = dump(c.Variable)
			}
			s += " ((types " + strconv.Quote(ty) + ") " + v + " (block" + dumpList(c.Body) + "))"
		}
		return s + ") (block" + dumpList(n.FinallyBlock) + "))"
	case *node.FunctionStatement:
		s := "(function " + n.Name + " (params"
		for _, p := range n.Params {
			if pp, ok := p.(*node.Parameter); ok {
				s += " (" + pp.Name + " " + dump(pp.DefaultValue) + ")"
			} else {
				s += fmt.Sprintf(" (other %T)", p)
			}
		}
		return s + ") (block" + dumpList(n.Body) + "))"
	}
	return fmt.Sprintf("(other %T)", v)
}

func dumpList(l []data.GetValue) string {
	s := ""
	for _, x := range l {
		s += " " + dump(x)
	}
	return s
}

func observe(c Case) (o Obs) {
	func() {
		defer func() {
			if r := recover(); r != nil {
				o.Panic = "lex: " + fmt.Sprint(r)
			}
		}()
		for _, t := range lexer.NewLexer().Tokenize(c.Src) {
			o.Toks = append(o.Toks, tokClass(t))
		}
	}()
	func() {
		defer func() {
			if r := recover(); r != nil {
				o.Panic = "parse: " + fmt.Sprint(r)
			}
		}()
		_, p := vrun.NewVM()
		prog, acl := p.ParseString(c.Src, "stmt.zy")
		if acl != nil {
			o.Perr = acl.AsString()
			if o.Perr == "" {
				o.Perr = "error"
			}
			return
		}
		o.Nstmt = len(prog.Statements)
		o.Tree = "(program" + dumpList(prog.Statements) + ")"
	}()
	if c.Eval {
		r := vrun.RunString(c.Pre+"\n$r = "+c.Src+";\n"+c.Post, "c04run.zy")
		o.Val = r.Outcome
		o.Vout = r.Out
	}
	return o
}

func main() {
	w := json.NewEncoder(os.Stdout)
	vrun.Lines(func(line string) {
		if strings.TrimSpace(line) == "" {
			return
		}
		var c Case
		if err := json.Unmarshal([]byte(line), &c); err != nil {
			w.Encode(Obs{Panic: "bad case: " + err.Error()})
			return
		}
		w.Encode(observe(c))
	})
}
