// c11: engine for property C11 (concurrent HTTP requests do not interfere).
//
//	c11 gated   stdin: JSON cases; N requests are served by the REAL std/net/http Handler.ServeHTTP (one shared
//	            Handler value, as the server has one per route) on N goroutines; the handler script stops at
//	            gates (a registered Go function) between its segments, and the engine releases one request at
//	            a time following the case's schedule.  Output: per request status, X-Id header and the fields of
//	            the body (who owns the data each read returned).
//	            {"segs":[["_GET"],["_GET","_SERVER"]],"nreq":2,"schedule":[0,0,1,1,1,0],"route":"handler"|"mux"}
//	c11 load    stdin: JSON configs {"nreq":16,"segs":[[...]],"gomaxprocs":4,"rounds":5}: free-running parallel
//	            requests, each in a child process (race detector exit attributed)
//	c11 child   (internal)
package main

import (
	"bytes"
	"encoding/json"
	"fmt"
	"net/http"
	"net/http/httptest"
	"os"
	"os/exec"
	"path/filepath"
	"runtime"
	"runtime/debug"
	"strings"
	"sync"
	"time"

	"verif/harness/vrun"

	"github.com/php-any/origami/data"
	"github.com/php-any/origami/node"
	"github.com/php-any/origami/std/net/annotation"
	ohttp "github.com/php-any/origami/std/net/http"
)

// verif_capture($server): hands the server's ServeMux to the engine (route "annot": the script is a file run with
// LoadAndRun, its variables are not reachable through the parser)
type captureFn struct{ mux *http.ServeMux }

func (f *captureFn) Call(ctx data.Context) (data.GetValue, data.Control) {
	v, _ := ctx.GetIndexValue(0)
	if pv, ok := v.(*data.ProxyValue); ok {
		if src, ok := pv.Class.(interface{ GetSource() any }); ok {
			if m, ok := src.GetSource().(*http.ServeMux); ok {
				f.mux = m
			}
		}
	}
	return nil, nil
}
func (f *captureFn) GetName() string { return "verif_capture" }
func (f *captureFn) GetParams() []data.GetValue {
	return []data.GetValue{node.NewParameter(nil, "s", 0, nil, nil)}
}
func (f *captureFn) GetVariables() []data.Variable {
	return []data.Variable{node.NewVariable(nil, "s", 0, nil)}
}

// route "annot": the application is mounted through the annotation router ($server->boot): a #[Controller] whose
// #[PostMapping] method runs the generated handler h(), wrapped by a #[Middleware] CLASS that keeps the id of the
// request it is serving on $this between its two halves (header X-Mw0 before $next, body marker m0b after it)
func mkAnnotHandler(c *Case, withGates bool, gs map[int]*gateState) (http.Handler, string) {
	vm, _ := vrun.NewVM()
	annotation.Load(vm)
	vm.SetThrowControl(func(acl data.Control) {})
	if ctl := vm.RegisterFunction("verif_gate", gateFnFor(gs)); ctl != nil {
		return nil, "register: " + ctl.AsString()
	}
	cf := &captureFn{}
	vm.AddFunc(cf)
	dir, err := os.MkdirTemp("", "c11annot")
	if err != nil {
		return nil, err.Error()
	}
	defer os.RemoveAll(dir)
	files := map[string]string{
		"index.php": "<?php\nuse Net\\Http\\Server;\n" + script(c.Segs, withGates, c.Quiet, false) +
			"require __DIR__ . '/src/C11App.php';\n$server = new Server();\n$server->boot(C11App::class);\nverif_capture($server);\n",
		"src/C11App.php": "<?php\nuse Net\\Annotation\\Application;\n#[Application(name: 'c11', scan: __DIR__)]\nclass C11App { public static function boot(): void {} }\n",
		"src/C11Audit.php": "<?php\nclass C11Audit {\n  private $mid = 'nobody';\n  public function handle($request, $response, $next) {\n" +
			"    $this->mid = $request->input('id');\n    $response->header('X-Mw0', $this->mid);\n    $next($request, $response);\n" +
			"    $response->write('m0b=' . $this->mid . ';');\n  }\n}\n",
		"src/C11Controller.php": "<?php\nuse Net\\Annotation\\Controller;\nuse Net\\Annotation\\Route;\nuse Net\\Annotation\\PostMapping;\nuse Net\\Annotation\\Middleware;\n" +
			"#[Middleware(C11Audit::class)]\n#[Controller]\n#[Route(prefix: \"/api\")]\nclass C11Controller {\n  #[PostMapping(path: \"/h\")]\n" +
			"  public function item($request, $response) { h($request, $response); }\n}\n",
	}
	for name, src := range files {
		full := filepath.Join(dir, name)
		if err := os.MkdirAll(filepath.Dir(full), 0o755); err != nil {
			return nil, err.Error()
		}
		if err := os.WriteFile(full, []byte(src), 0o644); err != nil {
			return nil, err.Error()
		}
	}
	if _, acl := vm.LoadAndRun(filepath.Join(dir, "index.php")); acl != nil {
		return nil, "run: " + acl.AsString()
	}
	if cf.mux == nil {
		return nil, "server not captured"
	}
	return cf.mux, ""
}

type Case struct {
	Segs       [][]string `json:"segs"`
	NReq       int        `json:"nreq"`
	Schedule   []int      `json:"schedule"`
	Route      string     `json:"route"`
	GoMaxProcs int        `json:"gomaxprocs"`
	Rounds     int        `json:"rounds"`
	Mw         int        `json:"mw"`     // route "mux": number of middlewares in front of the handler (each sets a header before $next and writes to the body after it; a body write before $next would commit the response and make the handler's status/header inert, see C13)
	MwSG       bool       `json:"mwsg"`   // the outermost middleware parks at a gate, then reads $_GET before $next (header X-MwG)
	Group      bool       `json:"group"`  // route "mux": register the route (and the middlewares) in a $server->group("/g")
	Warmup     bool       `json:"warmup"` // serve one request alone to completion before the interleaving
	Yields     bool       `json:"yields"` // park requests at the verif yield point inside the $_GET lazy fill too
	Quiet      bool       `json:"quiet"`  // the handler writes no body: its fields go into the X-Out header and its status stays pending, so that what a middleware does to $w AFTER $next (header X-MwA<j> from a local, then the body marker) still reaches the client
	OnFormat   bool       `json:"onformat"` // route "mux": the server registers an onFormat closure (and no onError): withResponseFormatter is then the outermost wrapper of every route
	PerReq     bool       `json:"perreq"`   // (read kinds clo_static / bind_*) see readExpr
	Cap        bool       `json:"cap"`    // route "mux": the route handler IS a closure that captured an array, a map and a counter by value with use (...) at registration and mutates them in place (read kinds cap_*)
	Gen        string     `json:"gen"`    // generator family (after 3 deadlocked cases of one family the rest of that family is skipped)
	StepMs     int        `json:"step_ms"` // watchdog: a released request must reach its next gate / finish within this time (default 2000)
}

type Resp struct {
	Status int               `json:"status"`
	XId    string            `json:"xid"`
	Mw     []string          `json:"mw,omitempty"` // X-Mw<j> header of each middleware (set before $next)
	MwA    []string          `json:"mwa,omitempty"` // X-MwA<j> header of each middleware (set AFTER $next, from a local of the middleware)
	MwG    string            `json:"mwg,omitempty"` // X-MwG: what the outermost middleware read from $_GET before $next
	Fields map[string]string `json:"fields"`
	Body   string            `json:"body,omitempty"`
	Panic  string            `json:"panic,omitempty"`
	At     []string          `json:"at,omitempty"`
}

// the expression that reads one thing; every read yields the id of the request whose data it is
var readExpr = map[string]string{
	"_GET":      `$_GET["id"]`,
	"_POST":     `$_POST["pid"]`,
	"_COOKIE":   `$_COOKIE["sid"]`,
	"_SERVER":   `$_SERVER["QUERY_STRING"]`,
	// a CONDITIONAL $_SERVER entry: only odd requests send the header X-Opt: <id>; when the entry is absent the read
	// answers the request's own id (used in serial shapes only: there the model says "own")
	"_SERVERH":  `(isset($_SERVER["HTTP_X_OPT"]) ? $_SERVER["HTTP_X_OPT"] : $id)`,
	"_REQUEST":  `$_REQUEST["id"]`,
	"_REQUESTP": `$_REQUEST["pid"]`,
	"_REQUESTC": `$_REQUEST["sid"]`,
	"rquery":    `$r->input("id")`,
	"rheader":   `$r->header("X-Tag")`,
	"local":     `$local`,
	"arr":       `$arr[1]`,
	"obj":       `$obj->v`,
	"clo":       `$f()`,
	"loop":      `$acc`,
	"ob_open":   `c11_ob_open($id)`,    // ob_start(); echo $id;  — the output buffer stack is process-wide
	"ob_close":  `ob_get_clean()`,
	// state captured BY VALUE by the handler closure at registration: every request must see it as it was then.
	// The read yields the request's id when the captured variable is exactly "registration state + this request's own
	// mutations so far", something that is no id otherwise
	"cap_arr": `((count($carr) == 1 + $capn && $carr[$capn] == $id) ? $id : "n" . count($carr))`,
	"cap_set": `$cmap["k"]`,
	"cap_get": `$cmap["k"]`,
	"cap_cnt": `($ccnt == $capc ? $id : "c" . $ccnt)`,
	// a closure CREATED BY THIS REQUEST with static locals (a counter and a memo table): its statics start fresh
	"clo_static": `($cs() == $csn . ":" . $csn . ":" . $id ? $id : "cs")`,
	// per-request data read through methods of the request object
	"rall":      `c11_field($r->all(), "id")`,
	"ronly":     `c11_field($r->only("id"), "id")`,
	"rexcept":   `c11_field($r->except("pid"), "id")`,
	"rqueryp":   `c11_field($r->query(), "id")`,
	"rcookie":   `c11_after($r->header("Cookie"), "sid=")`,
	"rformval":  `$r->formValue("pid")`,
	"rpostform": `$r->postFormValue("pid")`,
	"rurl":      `c11_after($r->fullUrl(), "id=")`,
	// bind(): a DTO with property defaults; odd requests send opt=<id>, even ones omit it and must get the default
	"rbind":     `c11_bind($r->bind("C11Dto"), $id)`,
	// the response is a JSON object written with $w->json([...]) (string keys and string values that carry the request's
	// id): the engine decodes the body and puts the verdict (the id, or what was wrong) in this read's place
	"jsonbody": `"JSON"`,
	// a process-wide (static) associative table that requests only READ: iterate it with foreach, parking inside the
	// loop body (inner gate 50: such steps are not reported in "order", the stage is merely split)
	"static_iter": `c11_iter($n, $id)`,
	// except() on a key that IS in the query string, then that key read through the request object
	"rexceptq": `c11_field($r->except("tok"), "id")`,
	"rtok":     `$r->input("tok")`,
	"rtokq":    `c11_field($r->query(), "tok")`,
	// a recursive plain function, parked 14 frames deep (inner gate 50)
	"deep": `c11_deep($n, $id, 14)`,
	// an object shared by all requests (captured by the handler closure), cloned per request; the clone's array
	// properties are modified element-wise: neither the prototype nor other clones may change
	"cap_clone": `c11_clone($cobj, $id)`,
	// a service object shared by all requests whose class has __get: the request parks INSIDE __get('greeting')
	"cap_magic": `c11_magic($csvc, $id)`,
}

func jsonMode(segs [][]string) bool {
	for _, s := range segs {
		for _, r := range s {
			if r == "jsonbody" {
				return true
			}
		}
	}
	return false
}

// statements run just before a read: the in-place mutation of the captured variable
var readPre = map[string]string{
	"cap_arr": `$carr[] = $id; $capn = $capn + 1;`,
	"cap_set": `$cmap["k"] = $id;`,
	"cap_cnt": `$ccnt = $ccnt + 1; $capc = $capc + 1;`,
	"clo_static": `$csn = $csn + 1;`,
}

func script(segs [][]string, gates bool, quiet bool, capt bool) string {
	var sb strings.Builder
	sb.WriteString("class C11Box { public $v; function __construct($v) { $this->v = $v; } }\n")
	sb.WriteString("function c11_ob_open($id) { ob_start(); echo $id; return $id; }\n")
	if gates {
		sb.WriteString("function c11_iter($n, $id) { static $tbl = [\"a\" => \"1\", \"b\" => \"2\", \"c\" => \"3\"]; $s = \"\"; foreach ($tbl as $k => $v) { verif_gate($n, 50); $s = $s . $k . $v; } return ($s == \"a1b2c3\") ? $id : \"it\" . $s; }\n")
	} else {
		// free-running load: 1200 passes per read over a 6-entry table (two requests must ENTER a foreach at the same moment)
		sb.WriteString("function c11_iter($n, $id) { static $tbl = [\"a\" => \"1\", \"b\" => \"2\", \"c\" => \"3\", \"d\" => \"4\", \"e\" => \"5\", \"f\" => \"6\"]; $bad = 0; for ($q = 0; $q < 1200; $q++) { $s = \"\"; foreach ($tbl as $k => $v) { $s = $s . $k . $v; } if ($s != \"a1b2c3d4e5f6\") { $bad = $bad + 1; } } return ($bad == 0) ? $id : \"it\" . $bad; }\n")
	}
	sb.WriteString("class C11Svc { public function __get($name) { verif_park(); return \"val-\" . $name; } }\n")
	sb.WriteString("function c11_magic($svc, $id) { $v = $svc->greeting; if ($v === \"val-greeting\") { return $id; } return \"mg\" . $v; }\n")
	sb.WriteString("class C11Proto { public $vars = [\"k\" => \"0\"]; public $list = [0]; public $name = \"proto\"; }\n")
	sb.WriteString("function c11_clone($proto, $id) { $cl = clone $proto; $cl->list[] = $id; $cl->vars[\"k\"] = $id; $cl->name = $id; if (count($cl->list) == 2 && $cl->list[1] == $id && $cl->vars[\"k\"] == $id && count($proto->list) == 1 && $proto->vars[\"k\"] == \"0\" && $proto->name == \"proto\") { return $id; } return \"cl\" . count($cl->list) . \"/\" . count($proto->list) . \"/\" . $proto->vars[\"k\"]; }\n")
	if gates {
		sb.WriteString("function c11_deep($n, $id, $k) { if ($k == 0) { verif_gate($n, 50); return $id; } return c11_deep($n, $id, $k - 1); }\n")
	} else {
		sb.WriteString("function c11_deep($n, $id, $k) { if ($k == 0) { return $id; } return c11_deep($n, $id, $k - 1); }\n")
	}
	sb.WriteString("class C11Dto { public $pid = \"none\"; public $opt = \"dflt\"; public $id = \"0\"; }\n")
	sb.WriteString("function c11_field($a, $k) { if (is_array($a)) { return $a[$k]; } return $a->{$k}; }\n")
	sb.WriteString("function c11_after($s, $m) { $p = strpos($s, $m); if ($p === false) { return \"?\"; } return substr($s, $p + strlen($m)); }\n")
	sb.WriteString("function c11_bind($d, $id) { $want = (((int)$id) % 2 == 1) ? $id : \"dflt\"; if ($d->pid == $id && $d->id == $id && $d->opt == $want) { return $id; } return \"b\" . $d->pid . \"/\" . $d->opt; }\n")
	if capt {
		sb.WriteString("$carr = [0]; $cmap = [\"k\" => \"0\"]; $ccnt = 0; $cobj = new C11Proto(); $csvc = new C11Svc();\n")
		sb.WriteString("$hcap = function($r, $w) use ($carr, $cmap, $ccnt, $cobj, $csvc) {\n  $capn = 0; $capc = 0;\n")
	} else {
		sb.WriteString("function h($r, $w) {\n")
	}
	sb.WriteString("  $id = $r->input(\"id\");\n  $n = (int)$id;\n  $local = $id;\n  $arr = [0, $id];\n  $obj = new C11Box($id);\n")
	sb.WriteString("  $f = function() use ($id) { return $id; };\n")
	sb.WriteString("  $acc = \"\"; $i = 0; while ($i < 3) { $acc = $id; $i = $i + 1; }\n")
	sb.WriteString("  $csn = 0; $cs = function() use ($id) { static $n = 0; static $memo = []; $n = $n + 1; $memo[] = $id; return $n . \":\" . count($memo) . \":\" . $memo[0]; };\n")
	sb.WriteString("  $out = \"\";\n")
	for k, seg := range segs {
		if gates {
			fmt.Fprintf(&sb, "  verif_gate($n, %d);\n", k+1)
		}
		for j, rd := range seg {
			if pre, ok := readPre[rd]; ok {
				fmt.Fprintf(&sb, "  %s\n", pre)
			}
			fmt.Fprintf(&sb, "  $out = $out . \"s%dr%d=\" . %s . \";\";\n", k, j, readExpr[rd])
		}
	}
	if jsonMode(segs) {
		sb.WriteString("  $w->header(\"X-Id\", $id);\n  $w->status(200 + $n);\n")
		sb.WriteString("  $w->json([\"k\" . $id => \"v\" . $id, \"out\" => $out, \"pad\" . $id => str_repeat(\"p\" . $id . \"-\", 6), \"name\" => \"req\" . $id, \"id\" => $id]);\n}")
	} else if quiet {
		sb.WriteString("  $w->header(\"X-Id\", $id);\n  $w->status(200 + $n);\n  $w->header(\"X-Out\", $out);\n}")
	} else {
		sb.WriteString("  $w->header(\"X-Id\", $id);\n  $w->status(200 + $n);\n  $w->write($out);\n}")
	}
	if capt {
		sb.WriteString(";\n")
	} else {
		sb.WriteString("\n")
	}
	return sb.String()
}

type gateState struct {
	arrive  chan int
	release chan struct{}
}

var (
	gmu   sync.Mutex
	gates map[int]*gateState
)

// the gate function of ONE case: it captures that case's gate table, so a goroutine left over from an abandoned
// (deadlocked) case can never park at, or wake, a gate of a later case
func gateFnFor(gs map[int]*gateState) func(id int, k int) int {
	return func(id int, k int) int {
		g := gs[id]
		if g == nil {
			return 0
		}
		g.arrive <- k
		<-g.release
		return 0
	}
}

// the request the scheduler has just released (gated mode runs one request at a time), -1 = none
var running = -1

// yieldFn is installed as node.VerifYieldHook: the running request parks exactly like at a gate
// (stage code -1) until the scheduler releases it again
func yieldFn(point string) {
	gmu.Lock()
	g := gates[running+1]
	gmu.Unlock()
	if g == nil {
		return
	}
	g.arrive <- -1
	<-g.release
}

// verif_park(): parks the request the scheduler has just released at an INNER gate (code 50: the stage is merely split,
// nothing is reported to the model) — for code that does not know which request it serves (a magic method of a shared object)
func parkFnFor(gs map[int]*gateState) func() int {
	return func() int {
		gmu.Lock()
		g := gs[running+1]
		gmu.Unlock()
		if g == nil {
			return 0
		}
		g.arrive <- 50
		<-g.release
		return 0
	}
}

var routePath = "/h"

func mkRequest(i int) *http.Request {
	form := fmt.Sprintf("pid=%d", i)
	if i%2 == 1 {
		form += fmt.Sprintf("&opt=%d", i) // an optional field only odd requests send (read kind rbind)
	}
	body := strings.NewReader(form)
	req := httptest.NewRequest("POST", fmt.Sprintf("%s?id=%d&tok=%d", routePath, i, i), body)
	req.Header.Set("Content-Type", "application/x-www-form-urlencoded")
	req.Header.Set("X-Tag", fmt.Sprint(i))
	if i%2 == 1 {
		req.Header.Set("X-Opt", fmt.Sprint(i))
	}
	req.AddCookie(&http.Cookie{Name: "sid", Value: fmt.Sprint(i)})
	_ = req.ParseForm()
	return req
}

func parseBody(b string) map[string]string {
	f := map[string]string{}
	for _, kv := range strings.Split(b, ";") {
		if i := strings.Index(kv, "="); i > 0 {
			f[kv[:i]] = kv[i+1:]
		}
	}
	return f
}

// build the handler: either the Handler value directly, or a real Server's ServeMux with the route registered by script
func mkHandler(c *Case, withGates bool, gs map[int]*gateState) (http.Handler, string) {
	if c.Route == "annot" {
		return mkAnnotHandler(c, withGates, gs)
	}
	vm, p := vrun.NewVM()
	vm.SetThrowControl(func(acl data.Control) {})
	if ctl := vm.RegisterFunction("verif_gate", gateFnFor(gs)); ctl != nil {
		return nil, "register: " + ctl.AsString()
	}
	if ctl := vm.RegisterFunction("verif_park", parkFnFor(gs)); ctl != nil {
		return nil, "register: " + ctl.AsString()
	}
	src := script(c.Segs, withGates, c.Quiet, c.Cap && c.Route == "mux")
	if c.Route == "mux" {
		src += "$server = new Net\\Http\\Server(\"127.0.0.1\", 0);\n$rt = $server;\n"
		if c.OnFormat {
			src += "$server->onFormat(function($code, $message, $data) { return [\"code\" => $code, \"message\" => $message, \"data\" => $data]; });\n"
		}
		if c.Group {
			src += "$rt = $server->group(\"/g\");\n"
		}
		// what a middleware does AFTER $next, from its local $mid: normally a body write (which commits the response);
		// with a quiet handler two headers (nothing is committed before the outermost layer returns)
		after := func(j int) string {
			if c.Quiet {
				return fmt.Sprintf("$w->header(\"X-MwA%d\", $mid); $w->header(\"X-MwB%d\", \"m%db=\" . $mid);", j, j, j)
			}
			return fmt.Sprintf("$w->write(\"m%db=\" . $mid . \";\");", j)
		}
		for j := 0; j < c.Mw; j++ {
			if j == 0 && c.MwSG {
				// registered first = outermost: a scheduling point, then a superglobal read BEFORE $next
				src += "$rt->middleware(function($r, $w, $next) { $mid = $r->input(\"id\"); verif_gate((int)$mid, 100); $w->header(\"X-MwG\", $_GET[\"id\"]); $w->header(\"X-Mw0\", $mid); $next($r, $w); " + after(0) + " });\n"
				continue
			}
			src += fmt.Sprintf("$rt->middleware(function($r, $w, $next) { $mid = $r->input(\"id\"); $w->header(\"X-Mw%d\", $mid); $next($r, $w); %s });\n", j, after(j))
		}
		if c.Cap {
			src += "$rt->post(\"/h\", $hcap);\n"
		} else {
			src += "$rt->post(\"/h\", function($r, $w) { h($r, $w); });\n"
		}
	}
	prog, acl := p.ParseString(src, "c11.zy")
	if acl != nil {
		return nil, "parse: " + acl.AsString()
	}
	ctx := vm.CreateContext(p.GetVariables())
	if _, ctl := prog.GetValue(ctx); ctl != nil {
		return nil, "run: " + ctl.AsString()
	}
	if c.Route == "mux" {
		for _, v := range p.GetVariables() {
			if v.GetName() != "server" {
				continue
			}
			val, _ := v.GetValue(ctx)
			if pv, ok := val.(*data.ProxyValue); ok {
				if src, ok := pv.Class.(interface{ GetSource() any }); ok {
					if mux, ok := src.GetSource().(*http.ServeMux); ok {
						return mux, ""
					}
				}
			}
		}
		return nil, "server object not found"
	}
	fn, ok := vm.GetFunc("h")
	if !ok {
		return nil, "no function h"
	}
	return ohttp.Handler{Value: fn, Ctx: ctx}, ""
}

func serve(h http.Handler, i int) (r Resp) {
	defer func() {
		if e := recover(); e != nil {
			r.Panic = fmt.Sprint(e)
			// where: the first origami frames of the panicking goroutine
			var at []string
			for _, l := range strings.Split(string(debug.Stack()), "\n") {
				if strings.HasPrefix(l, "github.com/php-any/origami/") {
					f := strings.TrimPrefix(l, "github.com/php-any/origami/")
					if i := strings.LastIndex(f, "("); i > 0 {
						f = f[:i]
					}
					at = append(at, f)
					if len(at) == 3 {
						break
					}
				}
			}
			r.At = at
		}
	}()
	rec := httptest.NewRecorder()
	h.ServeHTTP(rec, mkRequest(i))
	res := rec.Result()
	var mw, mwa []string
	for j := 0; j < 4; j++ {
		if v, ok := res.Header[fmt.Sprintf("X-Mw%d", j)]; ok && len(v) > 0 {
			mw = append(mw, v[0])
		} else {
			break
		}
	}
	extra := res.Header.Get("X-Out")
	for j := 0; j < 4; j++ {
		extra += ";" + res.Header.Get(fmt.Sprintf("X-MwB%d", j))
	}
	for j := 0; j < 4; j++ {
		// "-" keeps the positions aligned when a middleware's after-$next header is missing
		if v := res.Header.Get(fmt.Sprintf("X-MwA%d", j)); v != "" {
			mwa = append(mwa, v)
		} else if j < len(mw) {
			mwa = append(mwa, "-")
		}
	}
	bodyText := rec.Body.String()
	if t := strings.TrimSpace(bodyText); strings.HasPrefix(t, "{") {
		// JSON mode: decode, check every string key / value against this request's id, then read the fields from "out"
		verdict := fmt.Sprint(i)
		var m map[string]any
		dec := t
		if k := strings.LastIndex(dec, "}"); k >= 0 {
			dec = dec[:k+1] // a middleware may have appended its marker after the JSON document
		}
		if err := json.Unmarshal([]byte(dec), &m); err != nil {
			verdict = "unparsable"
		} else {
			id := fmt.Sprint(i)
			want := map[string]string{"k" + id: "v" + id, "pad" + id: strings.Repeat("p"+id+"-", 6), "name": "req" + id, "id": id}
			for k, v := range want {
				if got, _ := m[k].(string); got != v {
					verdict = "bad-" + k
				}
			}
			if len(m) != len(want)+1 {
				verdict = "keys"
			}
		}
		out, _ := m["out"].(string)
		bodyText = strings.ReplaceAll(out, "=JSON;", "="+verdict+";") + t[len(dec):]
		if m == nil {
			bodyText = "json=" + verdict + ";"
		}
	}
	return Resp{Status: res.StatusCode, XId: res.Header.Get("X-Id"), Mw: mw, MwA: mwa, MwG: res.Header.Get("X-MwG"), Fields: parseBody(bodyText + ";" + extra)}
}

func runGated() {
	out := json.NewEncoder(os.Stdout)
	deadlocks := map[string]int{}
	vrun.Lines(func(line string) {
		if strings.TrimSpace(line) == "" {
			return
		}
		var c Case
		if err := json.Unmarshal([]byte(line), &c); err != nil {
			out.Encode(map[string]any{"err": err.Error()})
			return
		}
		if deadlocks[c.Gen] >= 3 {
			// the run is failing already: do not spend the watchdog time on every further case of this family
			out.Encode(map[string]any{"skipped": "3 cases of family " + c.Gen + " deadlocked"})
			return
		}
		gs := map[int]*gateState{}
		for i := 1; i <= c.NReq; i++ {
			gs[i] = &gateState{arrive: make(chan int, 1), release: make(chan struct{})}
		}
		h, e := mkHandler(&c, true, gs)
		if e != "" {
			out.Encode(map[string]any{"err": e})
			return
		}
		stepMs := c.StepMs
		if stepMs <= 0 {
			stepMs = 2000
		}
		routePath = "/h"
		if c.Route == "mux" && c.Group {
			routePath = "/g/h"
		}
		if c.Route == "annot" {
			routePath = "/api/h"
		}
		if c.Yields {
			node.VerifYieldHook = yieldFn
		} else {
			node.VerifYieldHook = nil
		}
		gmu.Lock()
		gates = gs
		gmu.Unlock()
		var warm, warm2 *Resp
		if c.Warmup {
			// one request served alone first (no gate is armed for id 99: verif_gate returns at once)
			w := serve(h, 99)
			warm = &w
			// ... and once more, byte-identical (same id, same query string): it must get the same answer
			w2 := serve(h, 99)
			warm2 = &w2
		}
		resps := make([]Resp, c.NReq)
		start := make([]chan struct{}, c.NReq)
		done := make([]chan struct{}, c.NReq)
		stage := make([]int, c.NReq) // 0 not started, k at gate k, -1 finished
		for i := 0; i < c.NReq; i++ {
			start[i] = make(chan struct{})
			done[i] = make(chan struct{})
			go func(i int) {
				<-start[i]
				resps[i] = serve(h, i+1)
				close(done[i])
			}(i)
		}
		var order []int
		var dead map[string]any
		step := func(i int) bool {
			if stage[i] == -1 || dead != nil {
				return false
			}
			g := gs[i+1]
			gmu.Lock()
			running = i
			gmu.Unlock()
			if stage[i] == 0 {
				close(start[i])
			} else {
				g.release <- struct{}{}
			}
			select {
			case k := <-g.arrive:
				if k == -1 {
					k = -2 // parked at a yield point
				}
				stage[i] = k
				if k == 50 {
					return true // parked inside a loop body: the stage is not finished, nothing to report to the model
				}
			case <-done[i]:
				stage[i] = -1
			case <-time.After(time.Duration(stepMs) * time.Millisecond):
				// watchdog: the released request neither reached a gate of ITS OWN nor finished.  The case is
				// abandoned here (its goroutines stay parked at this case's private gates) and reported with
				// the interleaving executed so far and where every request stood.
				parked := map[string]int{}
				for id, og := range gs {
					select {
					case k := <-og.arrive:
						parked[fmt.Sprint(id)] = k // somebody arrived at the gate of request `id` although `i` was released
					default:
					}
				}
				dead = map[string]any{"released": i, "stage_before": stage[i], "stages": append([]int(nil), stage...),
					"unexpected_arrivals": parked, "after_ms": stepMs}
				order = append(order, i)
				return false
			}
			order = append(order, i)
			return true
		}
		for _, i := range c.Schedule {
			if i >= 0 && i < c.NReq {
				step(i)
			}
		}
		// finish whatever is left, request by request
		for i := 0; i < c.NReq; i++ {
			for stage[i] != -1 && dead == nil {
				step(i)
			}
		}
		node.VerifYieldHook = nil
		if dead != nil {
			deadlocks[c.Gen]++
			// responses of the requests that did finish (a response slot of an unfinished request is never written later:
			// resps is private to this case and is not read again)
			fin := map[string]Resp{}
			for i := 0; i < c.NReq; i++ {
				select {
				case <-done[i]:
					fin[fmt.Sprint(i)] = resps[i]
				default:
				}
			}
			out.Encode(map[string]any{"deadlock": dead, "order": order, "finished": fin, "warmup": warm})
			return
		}
		out.Encode(map[string]any{"resps": resps, "order": order, "warmup": warm, "warmup2": warm2})
	})
}

// free-running parallel load: every request's response is compared (by the check) with its own id
func runChild() {
	dec := json.NewDecoder(os.Stdin)
	out := json.NewEncoder(os.Stdout)
	for {
		var c Case
		if err := dec.Decode(&c); err != nil {
			return
		}
		if c.GoMaxProcs > 0 {
			runtime.GOMAXPROCS(c.GoMaxProcs)
		}
		h, e := mkHandler(&c, false, map[int]*gateState{})
		if e != "" {
			out.Encode(map[string]any{"err": e})
			continue
		}
		routePath = "/h"
		if c.Route == "mux" && c.Group {
			routePath = "/g/h"
		}
		if c.Route == "annot" {
			routePath = "/api/h"
		}
		if c.Warmup {
			serve(h, 99)
		}
		var all [][]Resp
		for r := 0; r < c.Rounds; r++ {
			resps := make([]Resp, c.NReq)
			var wg sync.WaitGroup
			var st sync.WaitGroup
			st.Add(1)
			wg.Add(c.NReq)
			for i := 0; i < c.NReq; i++ {
				go func(i int) {
					defer wg.Done()
					st.Wait()
					resps[i] = serve(h, i+1)
				}(i)
			}
			st.Done()
			wg.Wait()
			all = append(all, resps)
		}
		out.Encode(map[string]any{"rounds": all})
	}
}

func runLoad() {
	out := json.NewEncoder(os.Stdout)
	self, _ := os.Executable()
	vrun.Lines(func(line string) {
		if strings.TrimSpace(line) == "" {
			return
		}
		cmd := exec.Command(self, "child")
		cmd.Stdin = strings.NewReader(line)
		var so, se bytes.Buffer
		cmd.Stdout, cmd.Stderr = &so, &se
		cmd.Env = append(os.Environ(), "GORACE=halt_on_error=0")
		timer := time.AfterFunc(300*time.Second, func() { cmd.Process.Kill() })
		err := cmd.Run()
		timer.Stop()
		exit := 0
		if err != nil {
			exit = -1
			if ee, ok := err.(*exec.ExitError); ok {
				exit = ee.ExitCode()
			}
		}
		stderr := se.String()
		o := map[string]any{"exit": exit, "race": strings.Contains(stderr, "WARNING: DATA RACE")}
		if strings.Contains(stderr, "fatal error:") {
			o["fatal"] = true
		}
		// one entry per reported race: the first origami frame of each of the two access stacks
		if strings.Contains(stderr, "WARNING: DATA RACE") {
			pairs := map[string]int{}
			for _, blk := range strings.Split(stderr, "WARNING: DATA RACE")[1:] {
				var tops []string
				for _, part := range strings.Split(blk, "\n\n") {
					head := strings.TrimSpace(part)
					if !(strings.HasPrefix(head, "Write at") || strings.HasPrefix(head, "Read at") ||
						strings.HasPrefix(head, "Previous write at") || strings.HasPrefix(head, "Previous read at")) {
						continue
					}
					for _, l := range strings.Split(part, "\n") {
						l = strings.TrimSpace(l)
						if strings.HasPrefix(l, "github.com/php-any/origami/") {
							tops = append(tops, strings.TrimSuffix(strings.TrimPrefix(l, "github.com/php-any/origami/"), "()"))
							break
						}
					}
				}
				if len(tops) == 2 && tops[0] > tops[1] {
					tops[0], tops[1] = tops[1], tops[0]
				}
				key := strings.Join(tops, " | ")
				// does either stack pass through a superglobal cache function?
				if strings.Contains(blk, "node.ResetSuperglobals") || (strings.Contains(blk, "origami/node.(*") && strings.Contains(blk, "Variable).GetValue")) {
					key += " [sg]"
				}
				pairs[key]++
			}
			o["races"] = pairs
		}
		var parsed map[string]any
		if json.Unmarshal(so.Bytes(), &parsed) == nil {
			o["rounds"] = parsed["rounds"]
			if e, ok := parsed["err"]; ok {
				o["err"] = e
			}
		}
		out.Encode(o)
	})
}

func main() {
	if len(os.Args) < 2 {
		fmt.Fprintln(os.Stderr, "usage: c11 gated | load | child")
		os.Exit(2)
	}
	switch os.Args[1] {
	case "gated":
		runGated()
	case "load":
		runLoad()
	case "child":
		runChild()
	default:
		os.Exit(2)
	}
}
