package main

import (
	"bytes"
	"encoding/json"
	"fmt"
	"os"
	"os/exec"
	"path/filepath"
	"runtime"
	"strings"
	"sync"
	"sync/atomic"
	"time"

	"verif/harness/vrun"

	"github.com/php-any/origami/data"
	"github.com/php-any/origami/node"
	"github.com/php-any/origami/parser"
	ort "github.com/php-any/origami/runtime"
)

// one registry call
//
//	{"op":"add","kind":"c|i|f","name":"A","file":3} {"op":"get","kind":"c","name":"A"}
//	{"op":"setconst","name":"K","val":5} {"op":"getconst","name":"K"} {"op":"global","name":"g"}
//	{"op":"setfile","name":"/x/a.php"} {"op":"getfile","name":"/x/a.php"}
//	{"op":"depth"}  EnterCall+LeaveCall   {"op":"handler"} Set/GetExceptionHandler   (scalar state, stress only)
//	{"op":"goc"|"goi"|"pkg","name":"App\\P"}  GetOrLoadClass / GetOrLoadInterface / LoadPkg with autoload from the
//	    configuration's "autoload" files (namespace App): D = 1000+index of the file the definition came from
type Op struct {
	Op   string `json:"op"`
	Kind string `json:"kind,omitempty"`
	Name string `json:"name,omitempty"`
	File int    `json:"file,omitempty"`
	Val  int    `json:"val,omitempty"`
}

// result: R 0 ok / 1 error(throw) / 2 panic; D = definition id / constant value / cell id, -1 none
type Res struct {
	R  int   `json:"r"`
	D  int   `json:"d"`
	T0 int64 `json:"t0,omitempty"` // invocation stamp (hist mode)
	T1 int64 `json:"t1,omitempty"` // return stamp
	z  *data.ZVal
}

var withStd bool

func newVM() *ort.VM {
	var vm *ort.VM
	if withStd {
		vm, _ = vrun.NewVM()
	} else {
		vm = ort.NewVM(parser.NewParser()).(*ort.VM)
	}
	vm.SetThrowControl(func(acl data.Control) {})
	if autoDir != "" {
		vm.AddNamespace("App", autoDir)
	}
	return vm
}

// autoload files of the current configuration: <dir>/<Name>.php declaring class or interface App\<Name>
var (
	autoDir   string
	autoFiles = map[string]int{}
)

type AutoFile struct {
	Name string `json:"name"`
	Kind string `json:"kind"` // "c" class, "i" interface
}

func setupAutoload(files []AutoFile) {
	if autoDir != "" {
		os.RemoveAll(autoDir)
		autoDir = ""
	}
	autoFiles = map[string]int{}
	if len(files) == 0 {
		return
	}
	dir, err := os.MkdirTemp("", "c10-")
	if err != nil {
		return
	}
	dir, _ = filepath.EvalSymlinks(dir)
	for i, f := range files {
		// "Sub/Name": the class App\Sub\Name in the sub-directory Sub -- a sub-namespace that is never registered with
		// AddNamespace: the class-path manager discovers the directory on the first lookup (lazy insert into its tree)
		ns, short, rel := "App", f.Name, f.Name+".php"
		if k := strings.LastIndex(f.Name, "/"); k >= 0 {
			ns = "App\\" + strings.ReplaceAll(f.Name[:k], "/", "\\")
			short = f.Name[k+1:]
			os.MkdirAll(filepath.Join(dir, f.Name[:k]), 0o755)
		}
		body := "<?php\nnamespace " + ns + ";\n"
		// a body large enough for the load to take a while: the window between "file marked loaded" and
		// "class registered" is what concurrent autoloads fall into
		for k := 0; k < 60; k++ {
			body += fmt.Sprintf("function %s_helper%d() { return %d; }\n", strings.ToLower(short), k, k)
		}
		if f.Kind == "i" {
			body += "interface " + short + " {}\n"
		} else {
			body += "class " + short + " {}\n"
		}
		os.WriteFile(filepath.Join(dir, filepath.FromSlash(rel)), []byte(body), 0o644)
		autoFiles[rel] = 1000 + i
	}
	autoDir = dir
}

func srcID(from data.From) int {
	if from == nil {
		return -3
	}
	s := from.GetSource()
	if autoDir != "" && strings.HasPrefix(s, autoDir) {
		if id, ok := autoFiles[filepath.ToSlash(strings.TrimPrefix(strings.TrimPrefix(s, autoDir), string(filepath.Separator)))]; ok {
			return id
		}
	}
	var n int
	if _, err := fmt.Sscanf(s, "d%d.php", &n); err == nil {
		return n
	}
	return -4
}

func doOp(vm data.VM, o Op) (res Res) {
	res.D = -1
	defer func() {
		if r := recover(); r != nil {
			res.R = 2
		}
	}()
	switch o.Op {
	case "add":
		file := fmt.Sprintf("d%d.php", o.File)
		from := node.NewTokenFrom(&file, 0, 0, 0, 0)
		var acl data.Control
		switch o.Kind {
		case "c":
			acl = vm.AddClass(node.NewClassStatement(from, o.Name, "", nil, nil, map[string]data.Method{}))
		case "i":
			acl = vm.AddInterface(node.NewInterfaceStatement(from, o.Name, nil, nil))
		default:
			acl = vm.AddFunc(node.NewFunctionStatement(from, o.Name, nil, nil, nil, nil, false))
		}
		if acl != nil {
			res.R = 1
		}
	case "get":
		switch o.Kind {
		case "c":
			if c, ok := vm.GetClass(o.Name); ok {
				res.D = srcID(c.GetFrom())
			}
		case "i":
			if c, ok := vm.GetInterface(o.Name); ok {
				res.D = srcID(c.GetFrom())
			}
		default:
			if f, ok := vm.GetFunc(o.Name); ok {
				if g, ok := f.(node.GetFrom); ok {
					res.D = srcID(g.GetFrom())
				} else {
					res.D = -3
				}
			}
		}
	case "setconst":
		if acl := vm.SetConstant(o.Name, data.NewIntValue(o.Val)); acl != nil {
			res.R = 1
		}
	case "getconst":
		if v, ok := vm.GetConstant(o.Name); ok {
			if iv, ok := v.(data.AsInt); ok {
				n, _ := iv.AsInt()
				res.D = n
			}
		}
	case "global":
		res.z = vm.EnsureGlobalZVal(o.Name)
	case "setfile":
		vm.SetPhpFileCache(o.Name)
	case "getfile":
		if vm.GetPhpFileCache(o.Name) {
			res.D = 1
		}
	case "goc":
		c, acl := vm.GetOrLoadClass(o.Name)
		if acl != nil {
			res.R = 1
		} else if c != nil {
			res.D = srcID(c.GetFrom())
		}
	case "goi":
		c, acl := vm.GetOrLoadInterface(o.Name)
		if acl != nil {
			res.R = 1
		} else if c != nil {
			res.D = srcID(c.GetFrom())
		}
	case "pkg":
		c, acl := vm.LoadPkg(o.Name)
		if acl != nil {
			res.R = 1
		} else if c != nil {
			switch x := c.(type) {
			case data.ClassStmt:
				res.D = srcID(x.GetFrom())
			case data.InterfaceStmt:
				res.D = srcID(x.GetFrom())
			}
		}
	case "incwait":
		// include (LoadAndRun on this VM) of a file whose TOP-LEVEL code spawns two coroutines that instantiate the
		// autoloadable class o.Name and waits for both over a Channel: the include returns only if coroutines of the same
		// request can autoload while the including goroutine is running the file's code
		nIncwait := atomic.AddInt64(&incwaitSeq, 1)
		path := filepath.Join(autoDir, fmt.Sprintf("incwait%d.php", nIncwait))
		src := "<?php\n$c10ch = new Channel(0);\nfor ($c10i = 0; $c10i < 2; $c10i++) {\n    spawn(function() use ($c10ch) { $o = new \\" + o.Name + "(); $c10ch->send(1); });\n}\n$c10ch->receive();\n$c10ch->receive();\n"
		os.WriteFile(path, []byte(src), 0o644)
		if _, acl := vm.LoadAndRun(path); acl != nil {
			res.R = 1
		}
	case "alunreg":
		if o.Val >= 0 && o.Val < len(callbacks) {
			parser.RemoveAutoLoad(callbacks[o.Val])
		}
	case "alreg":
		if o.Val >= 0 && o.Val < len(callbacks) {
			parser.AddAutoLoad(callbacks[o.Val])
		}
	case "addns":
		// parser.DefaultClassPathManager.AddNamespace concurrently with FindClassFile/LoadClass
		if autoDir != "" {
			vm.AddNamespace(o.Name, autoDir)
		}
	case "depth":
		res.D = vm.EnterCall()
		vm.LeaveCall()
		res.D = -1
	case "shutdown":
		// register_shutdown_function reaches VM.AddShutdownCallback (a TempVM delegates to the base)
		vm.AddShutdownCallback(data.NewIntValue(o.Val))
	case "compiledfile":
		vm.RegisterCompiledFile(o.Name, func() (data.GetValue, []data.Variable) { return nil, nil })
	case "regglobal":
		// what loading a file with a top-level variable $<name> does: RegisterGlobalContext(vars, ctx) with the file's own
		// frame; the registry keeps the FIRST cell registered for a name (by `global $x` or by a file), for ever
		if b, ok := vm.(*ort.VM); ok {
			vars := []data.Variable{node.NewVariable(nil, o.Name, 0, nil)}
			b.RegisterGlobalContext(vars, b.CreateContext(vars))
		}
	case "globalctx":
		if b, ok := vm.(*ort.VM); ok {
			b.RegisterGlobalContext(nil, b.CreateContext(nil))
		}
	case "handler":
		if h, ok := vm.(interface {
			SetExceptionHandler(data.Value) data.Value
			GetExceptionHandler() data.Value
		}); ok {
			h.SetExceptionHandler(data.NewIntValue(o.Val))
			_ = h.GetExceptionHandler()
		}
	default:
		res.R = 2
	}
	return
}

// ---------------------------------------------------------------- seq: one goroutine, for the sequential tie
func runSeq() {
	out := json.NewEncoder(os.Stdout)
	vrun.Lines(func(line string) {
		if strings.TrimSpace(line) == "" {
			return
		}
		var c struct {
			Ops []Op `json:"ops"`
		}
		if err := json.Unmarshal([]byte(line), &c); err != nil {
			out.Encode(map[string]any{"err": err.Error()})
			return
		}
		vm := newVM()
		cells := map[*data.ZVal]int{}
		rs := make([]Res, 0, len(c.Ops))
		for i, o := range c.Ops {
			r := doOp(vm, o)
			if r.z != nil {
				id, ok := cells[r.z]
				if !ok {
					id = i
					cells[r.z] = id
				}
				r.D = id
			}
			rs = append(rs, r)
		}
		out.Encode(map[string]any{"res": rs})
	})
}

// ---------------------------------------------------------------- child: one concurrent run in this process
type Config struct {
	Autoload   []AutoFile `json:"autoload"`
	Threads    [][]Op     `json:"threads"`
	GoMaxProcs int        `json:"gomaxprocs"`
	Stamps     bool       `json:"stamps"`     // record invocation/return stamps (adds atomic operations between calls)
	Temps      []bool     `json:"temps"`      // Temps[t]: thread t runs on its own TempVM of the shared base (a request)
	SharedTemp bool       `json:"sharedtemp"` // the Temps threads all run on ONE TempVM (coroutines spawned inside one request)
	Repeat     int        `json:"repeat"`     // run the same programs on this many fresh VMs (race hunting)
	KeepAll    bool       `json:"keepall"`    // return the results of every repetition
	// Callbacks n: n spl-autoload callbacks are registered on the fresh VM (parser.AddAutoLoad): callback k < n-1
	// defines only classes named Dyn<k>_* and declines everything else, the LAST one defines every Dyn* class.
	// ops alunreg/alreg (val = k) unregister / register callback k while other goroutines look classes up.
	Callbacks int `json:"callbacks"`
	// Age n: before the first run of this child process n trivial goroutines are started and finished, so that the
	// goroutines of the run have ids above n (a server that has been up for a while: every connection and every spawn
	// is a goroutine; the re-entrant load lock identifies its owner by goroutine id)
	Age int `json:"age"`
	// Std: the VM gets the standard library (Channel, spawn ...): needed by op incwait
	Std bool `json:"std"`
}

// alCallback: a Go-implemented spl autoload callback ($name) -> defines class $name (from file d<5000+k>.php) when it is
// responsible for it, declines (null) otherwise
type alCallback struct {
	k    int
	last bool
}

func (c *alCallback) GetName() string { return fmt.Sprintf("c10autoload%d", c.k) }
func (c *alCallback) GetParams() []data.GetValue {
	return []data.GetValue{node.NewParameter(nil, "name", 0, nil, nil)}
}
func (c *alCallback) GetVariables() []data.Variable {
	return []data.Variable{node.NewVariable(nil, "name", 0, nil)}
}
func (c *alCallback) Call(ctx data.Context) (data.GetValue, data.Control) {
	v, _ := ctx.GetIndexValue(0)
	s, ok := v.(data.AsString)
	if !ok {
		return data.NewNullValue(), nil
	}
	name := s.AsString()
	if !(c.last && strings.HasPrefix(name, "Dyn")) && !strings.HasPrefix(name, fmt.Sprintf("Dyn%d_", c.k)) {
		return data.NewNullValue(), nil
	}
	file := fmt.Sprintf("d%d.php", 5000+c.k)
	from := node.NewTokenFrom(&file, 0, 0, 0, 0)
	if acl := ctx.GetVM().AddClass(node.NewClassStatement(from, name, "", nil, nil, map[string]data.Method{})); acl != nil {
		return nil, acl
	}
	return data.NewBoolValue(true), nil
}

var callbacks []*data.FuncValue
var incwaitSeq int64

// a run in which no op completes for this long is a hang
const hangAfter = 3 * time.Second

var aged int

func ageProcess(n int) {
	for aged < n {
		var wg sync.WaitGroup
		k := 10000
		wg.Add(k)
		for i := 0; i < k; i++ {
			go wg.Done()
		}
		wg.Wait()
		aged += k
	}
}

func runOnce(cfg *Config) [][]Res {
	ageProcess(cfg.Age)
	withStd = cfg.Std
	vm := newVM() // NewVM resets the process-wide autoload callback list
	callbacks = nil
	for k := 0; k < cfg.Callbacks; k++ {
		fv := data.NewFuncValue(&alCallback{k: k, last: k == cfg.Callbacks-1})
		callbacks = append(callbacks, fv)
		parser.AddAutoLoad(fv)
	}
	var shared data.VM
	if cfg.SharedTemp {
		shared = ort.NewTempVM(vm)
	}
	var clock int64
	n := len(cfg.Threads)
	res := make([][]Res, n)
	var ready, done sync.WaitGroup
	var start int32
	var progress int64
	pos := make([]int64, n)
	ready.Add(n)
	done.Add(n)
	for t := 0; t < n; t++ {
		go func(t int) {
			defer done.Done()
			ops := cfg.Threads[t]
			rs := make([]Res, len(ops))
			var vm data.VM = vm
			if t < len(cfg.Temps) && cfg.Temps[t] {
				if shared != nil {
					vm = shared
				} else {
					vm = ort.NewTempVM(vm) // request-level VM, as HotHandler.ServeHTTP creates one per request
				}
			}
			ready.Done()
			for atomic.LoadInt32(&start) == 0 {
				runtime.Gosched()
			}
			for i, o := range ops {
				atomic.StoreInt64(&pos[t], int64(i))
				if i > 0 {
					atomic.AddInt64(&progress, 1)
				}
				if cfg.Stamps {
					t0 := atomic.AddInt64(&clock, 1)
					r := doOp(vm, o)
					r.T0, r.T1 = t0, atomic.AddInt64(&clock, 1)
					rs[i] = r
				} else {
					rs[i] = doOp(vm, o)
				}
			}
			res[t] = rs
			atomic.StoreInt64(&pos[t], int64(len(ops)))
			atomic.AddInt64(&progress, 1)
		}(t)
	}
	ready.Wait()
	atomic.StoreInt32(&start, 1)
	// watchdog: every op of every thread program returns by itself; when NO op completes for hangAfter the run hangs
	// (deadlock inside the implementation: e.g. a re-entrant RLock behind a pending writer).  The child then reports
	// the op every unfinished thread is in and exits -- the parent attributes it to this configuration at once.
	fin := make(chan struct{})
	go func() { done.Wait(); close(fin) }()
	lastN, lastT := int64(-1), time.Now()
	for waiting := true; waiting; {
		select {
		case <-fin:
			waiting = false
		case <-time.After(200 * time.Millisecond):
			if n := atomic.LoadInt64(&progress); n != lastN {
				lastN, lastT = n, time.Now()
			} else if time.Since(lastT) > hangAfter {
				var stuck []map[string]any
				for t := range pos {
					if i := int(atomic.LoadInt64(&pos[t])); i < len(cfg.Threads[t]) {
						stuck = append(stuck, map[string]any{"thread": t, "index": i, "op": cfg.Threads[t][i]})
					}
				}
				json.NewEncoder(os.Stdout).Encode(map[string]any{"hang": stuck, "ops_completed": lastN})
				os.Exit(4)
			}
		}
	}
	// cell identities: number the distinct *ZVal pointers; the id of a cell is thread*100000+index of the
	// lexicographically first call that returned it (any injective naming works: the check only compares ids)
	cells := map[*data.ZVal]int{}
	for t := range res {
		for i := range res[t] {
			if z := res[t][i].z; z != nil {
				if _, ok := cells[z]; !ok {
					cells[z] = t*100000 + i
				}
				res[t][i].D = cells[z]
			}
		}
	}
	return res
}

// child: stdin = a stream of configurations (JSON documents); one result line per configuration.
// If the process dies (fatal error, race detector with halt_on_error) the parent attributes the death
// to the first configuration without a result line.
func runChild() {
	dec := json.NewDecoder(os.Stdin)
	out := json.NewEncoder(os.Stdout)
	for {
		var cfg Config
		if err := dec.Decode(&cfg); err != nil {
			return
		}
		if cfg.GoMaxProcs > 0 {
			runtime.GOMAXPROCS(cfg.GoMaxProcs)
		}
		setupAutoload(cfg.Autoload)
		rep := cfg.Repeat
		if rep < 1 {
			rep = 1
		}
		var last [][]Res
		var all [][][]Res
		for k := 0; k < rep; k++ {
			last = runOnce(&cfg)
			if cfg.KeepAll {
				all = append(all, last)
			}
		}
		out.Encode(map[string]any{"res": last, "all": all})
	}
}

// ---------------------------------------------------------------- stress: each configuration in a child process
func runStress() {
	out := json.NewEncoder(os.Stdout)
	self, _ := os.Executable()
	vrun.Lines(func(line string) {
		if strings.TrimSpace(line) == "" {
			return
		}
		var b struct {
			Batch []json.RawMessage `json:"batch"`
		}
		input := line
		nb := 1
		if json.Unmarshal([]byte(line), &b) == nil && len(b.Batch) > 0 {
			var sb strings.Builder
			for _, m := range b.Batch {
				sb.Write(m)
				sb.WriteByte('\n')
			}
			input = sb.String()
			nb = len(b.Batch)
		}
		cmd := exec.Command(self, "child")
		cmd.Stdin = strings.NewReader(input)
		var so, se bytes.Buffer
		cmd.Stdout, cmd.Stderr = &so, &se
		cmd.Env = append(os.Environ(), "GORACE=halt_on_error=1")
		timer := time.AfterFunc(120*time.Second, func() { cmd.Process.Kill() })
		err := cmd.Run()
		timer.Stop()
		exit := 0
		if err != nil {
			exit = -1
			if ee, ok := err.(*exec.ExitError); ok {
				exit = ee.ExitCode()
			}
		}
		stderr := se.String()
		o := map[string]any{"exit": exit}
		o["race"] = strings.Contains(stderr, "WARNING: DATA RACE")
		switch {
		case strings.Contains(stderr, "concurrent map writes"):
			o["fatal"] = "concurrent map writes"
		case strings.Contains(stderr, "concurrent map read and map write"):
			o["fatal"] = "concurrent map read and map write"
		case strings.Contains(stderr, "concurrent map iteration and map write"):
			o["fatal"] = "concurrent map iteration and map write"
		case strings.Contains(stderr, "fatal error:"):
			o["fatal"] = "other fatal error"
		}
		if exit != 0 {
			// keep the part of the report that names the functions involved
			var keep []string
			lines := strings.Split(stderr, "\n")
			for i, l := range lines {
				if strings.Contains(l, "runtime.(*VM)") || strings.Contains(l, "fatal error") || strings.Contains(l, "DATA RACE") {
					keep = append(keep, strings.TrimSpace(l))
				}
				// the function that performs each of the two racing accesses
				if (strings.HasPrefix(l, "Read at") || strings.HasPrefix(l, "Write at") || strings.HasPrefix(l, "Previous ")) && i+1 < len(lines) {
					// the innermost frames of the access (function lines are indented by two spaces, file lines by six)
					nf := 0
					for j := i + 1; j < len(lines) && strings.TrimSpace(lines[j]) != "" && nf < 4; j++ {
						if strings.HasPrefix(lines[j], "  ") && !strings.HasPrefix(lines[j], "    ") {
							keep = append(keep, "ACCESS "+strings.TrimSpace(lines[j]))
							nf++
						}
					}
				}
				if len(keep) > 24 {
					break
				}
			}
			o["report"] = keep
		}
		var results []any
		var alls []any
		for _, l := range strings.Split(so.String(), "\n") {
			var parsed map[string]any
			if strings.TrimSpace(l) != "" && json.Unmarshal([]byte(l), &parsed) == nil {
				if h, ok := parsed["hang"]; ok {
					o["hang"] = h
					o["ops_completed"] = parsed["ops_completed"]
					continue
				}
				results = append(results, parsed["res"])
				alls = append(alls, parsed["all"])
			}
		}
		o["alls"] = alls
		o["results"] = results // one per completed configuration; the next one (if any) was in flight at death
		o["n"] = nb
		out.Encode(o)
	})
}

// ---------------------------------------------------------------- script: real scripts with spawn (std/spawn.go)
// stdin: {"src":"...","repeat":n,"autoload":[...],"gomaxprocs":g}; each repetition runs the script in-process on a
// fresh VM with the standard library (vrun) and the autoload namespace App; run in a child process by `stress`-like
// attribution: this mode is itself the child (the driver restarts it when it dies).
func runScript() {
	out := json.NewEncoder(os.Stdout)
	vrun.Lines(func(line string) {
		if strings.TrimSpace(line) == "" {
			return
		}
		var c struct {
			Src        string     `json:"src"`
			Repeat     int        `json:"repeat"`
			Autoload   []AutoFile `json:"autoload"`
			GoMaxProcs int        `json:"gomaxprocs"`
		}
		if err := json.Unmarshal([]byte(line), &c); err != nil {
			out.Encode(map[string]any{"err": err.Error()})
			return
		}
		if c.GoMaxProcs > 0 {
			runtime.GOMAXPROCS(c.GoMaxProcs)
		}
		setupAutoload(c.Autoload)
		var outs []map[string]string
		for i := 0; i < c.Repeat; i++ {
			done := make(chan vrun.Result, 1)
			go func() {
				done <- vrun.RunStringSpawn(c.Src, "c10script.php", func(vm data.VM) {
					if autoDir != "" {
						vm.AddNamespace("App", autoDir)
					}
				})
			}()
			select {
			case r := <-done:
				outs = append(outs, map[string]string{"out": r.Out, "outcome": r.Outcome, "detail": r.Detail})
			case <-time.After(8 * time.Second):
				// every script of the check terminates by construction: a run that does not come back is a hang
				outs = append(outs, map[string]string{"out": "", "outcome": "hang", "detail": fmt.Sprintf("run %d of %d did not finish within 8 s", i+1, c.Repeat)})
				out.Encode(map[string]any{"runs": outs})
				os.Exit(3)
			}
		}
		out.Encode(map[string]any{"runs": outs})
	})
}
