package main

func runSeq()    {}
func runStress() {}
func runChild()  {}
