// Lock-discipline walker: reads runtime/vm.go of the repository under test with go/ast and prints,
// per method of *VM declared in that file, the ordered list of RWMutex operations and accesses to
// the VM's fields as a Coq table (consumer: coq/C10/Lock.v `well_locked`).
//
// Flattening rule (sound for `wl`): lock operations must be top-level statements of the method
// (or top-level `defer`s, which are placed at the end in LIFO order); every field access found
// anywhere in the body is emitted in source order, so every real path performs the same lock
// operations and a subset (loops: with repetition) of the emitted accesses.  Anything else —
// a lock operation inside a branch/loop/closure, a `return` between an explicit Lock and its
// Unlock, a guarded map escaping as a value, recursion — is emitted as AOpaque, on which
// `well_locked` is false (fails closed).
package main

import (
	"fmt"
	"go/ast"
	"go/parser"
	"go/token"
	"os"
	"path/filepath"
	"sort"
	"strings"
)

type walker struct {
	pathMode bool
	extNames map[string]bool
	noAccess bool
	pkgMode  bool
	muName   string
	extRefs  []string // unexported methods of the type referenced from outside its methods (exportedOnly mode)
	fset     *token.FileSet
	methods  map[string]*ast.FuncDecl // all methods with receiver *VM in the package
	inVMGo   []string                 // names of those declared in vm.go, in source order
	fields   []string                 // fields of struct VM in declaration order
	isMap    map[string]bool
	fieldID  map[string]int
	written  map[string]bool // fields written by some method (others are immutable after NewVM)
	selfSync map[string]bool // fields of a sync./atomic. type: their methods synchronise themselves
	atomic   map[string]bool // ... of a sync/atomic type: Load/Store/... are emitted as AARead/AAWrite
	// deep fields (walk ... deep=<field>): the data structure REACHABLE from the field is guarded state too (a tree of
	// nodes hanging off vm.root): an access through the field or through a local derived from it (current := m.root;
	// child := current.children[k]; for _, p := range child.paths ...) is an access to the field's region
	deep map[string]bool
}

type emitter struct {
	w        *walker
	recv     string
	acts     []string
	deferred [][]string
	explicit int // explicit (non-deferred) locks currently held
	stack    []string
	alias    map[string]string        // local variable -> deep field whose region it points into (sticky: never removed)
	retAlias string                   // deep field a returned value points into
	callRet  map[*ast.CallExpr]string // receiver-method call -> retAlias of the inlined callee
	returned bool                     // path mode: this path has executed a return
}

func (e *emitter) emit(a string) { e.acts = append(e.acts, a) }

// target of the walk: package directory, struct type, the file whose methods form the table, and the methods
// that are constructors (they run before the object is shared: their writes do not make a field "written")
type target struct {
	dir, typ, file string
	ctors          map[string]bool
	deep           map[string]bool
	// exportedOnly (walk ... entries=exported): the table has one entry per EXPORTED method; unexported helpers rely on
	// the caller's lock and appear inlined in their callers.  A reference to such a helper from code that is not a
	// method of the type (by name, anywhere in the package) gets an entry "external-call:<helper>" = [AOpaque].
	exportedOnly bool
	// package-level mode (type "-", walk ... vars=a,b mu=<mutex var>): the guarded state is a set of package-level
	// variables of the file, the "methods" are the package-level functions of the file
	vars   []string
	muName string
	// path mode (walk ... paths): an `if` whose arms contain a lock operation or a return is FORKED -- the method gets one
	// table entry per execution path "Name#k" (arms are walked as top-level code, a return ends the path, deferred
	// operations run at its end); every real execution follows one of the entries.  extNames (ext=a,b): exactly the
	// calls with these method names are call-outs (AExt), nothing else; noAccess: field accesses are not recorded
	// (a table about the SPAN of a lock, not about what it guards); only: entries for these methods only
	paths    bool
	extNames map[string]bool
	noAccess bool
	only     map[string]bool
}

func loadWalker(repo string, tg target) (*walker, error) {
	w := &walker{fset: token.NewFileSet(), methods: map[string]*ast.FuncDecl{}, isMap: map[string]bool{},
		fieldID: map[string]int{}, written: map[string]bool{}, selfSync: map[string]bool{}, atomic: map[string]bool{}, deep: tg.deep}
	var others []*ast.FuncDecl
	w.pathMode, w.extNames, w.noAccess = tg.paths, tg.extNames, tg.noAccess
	w.pkgMode = tg.typ == "-"
	w.muName = tg.muName
	if w.muName == "" {
		w.muName = "mu"
	}
	dir := filepath.Join(repo, tg.dir)
	ents, err := os.ReadDir(dir)
	if err != nil {
		return nil, err
	}
	for _, ent := range ents {
		n := ent.Name()
		if !strings.HasSuffix(n, ".go") || strings.HasSuffix(n, "_test.go") {
			continue
		}
		f, err := parser.ParseFile(w.fset, filepath.Join(dir, n), nil, 0)
		if err != nil {
			return nil, err
		}
		for _, d := range f.Decls {
			switch x := d.(type) {
			case *ast.GenDecl:
				if tg.typ == "-" && n == tg.file && x.Tok == token.VAR {
					for _, sp := range x.Specs {
						vs, ok := sp.(*ast.ValueSpec)
						if !ok {
							continue
						}
						for _, nm := range vs.Names {
							want := false
							for _, v := range tg.vars {
								want = want || v == nm.Name
							}
							if !want {
								continue
							}
							ss := false
							if se, ok := vs.Type.(*ast.SelectorExpr); ok {
								if pk, ok := se.X.(*ast.Ident); ok && (pk.Name == "sync" || pk.Name == "atomic") {
									ss = true
									w.atomic[nm.Name] = pk.Name == "atomic"
								}
							}
							w.selfSync[nm.Name] = ss
							w.fieldID[nm.Name] = len(w.fields)
							w.fields = append(w.fields, nm.Name)
						}
					}
				}
				for _, s := range x.Specs {
					ts, ok := s.(*ast.TypeSpec)
					if !ok || ts.Name.Name != tg.typ || n != tg.file {
						continue
					}
					st, ok := ts.Type.(*ast.StructType)
					if !ok {
						continue
					}
					for _, fl := range st.Fields.List {
						_, m := fl.Type.(*ast.MapType)
						ss, at := false, false
						if se, ok := fl.Type.(*ast.SelectorExpr); ok {
							if pk, ok := se.X.(*ast.Ident); ok && (pk.Name == "sync" || pk.Name == "atomic") {
								ss = true
								at = pk.Name == "atomic"
							}
						}
						for _, nm := range fl.Names {
							w.atomic[nm.Name] = at
							w.selfSync[nm.Name] = ss
							w.fieldID[nm.Name] = len(w.fields)
							w.fields = append(w.fields, nm.Name)
							w.isMap[nm.Name] = m
						}
					}
				}
			case *ast.FuncDecl:
				if x.Body == nil {
					continue
				}
				if tg.typ == "-" {
					if x.Recv == nil && n == tg.file {
						w.methods[x.Name.Name] = x
						w.inVMGo = append(w.inVMGo, x.Name.Name)
					} else {
						others = append(others, x)
					}
					continue
				}
				if x.Recv == nil || len(x.Recv.List) != 1 {
					others = append(others, x)
					continue
				}
				star, ok := x.Recv.List[0].Type.(*ast.StarExpr)
				if !ok {
					others = append(others, x)
					continue
				}
				id, ok := star.X.(*ast.Ident)
				if !ok || id.Name != tg.typ {
					others = append(others, x)
					continue
				}
				w.methods[x.Name.Name] = x
				// every method of the type in the whole package directory gets a table entry (shutdown.go,
				// reflect_register.go ... declare *VM methods too): a field written there is a written field
				if !tg.ctors[x.Name.Name] {
					w.inVMGo = append(w.inVMGo, x.Name.Name)
				}
			}
		}
	}
	if len(w.fields) == 0 {
		return nil, fmt.Errorf("struct %s not found in %s/%s", tg.typ, tg.dir, tg.file)
	}
	if tg.exportedOnly {
		seen := map[string]bool{}
		for _, fd := range others {
			ast.Inspect(fd, func(n ast.Node) bool {
				if se, ok := n.(*ast.SelectorExpr); ok {
					if _, isM := w.methods[se.Sel.Name]; isM && !ast.IsExported(se.Sel.Name) && !seen[se.Sel.Name] {
						seen[se.Sel.Name] = true
						w.extRefs = append(w.extRefs, se.Sel.Name)
					}
				}
				if id, ok := n.(*ast.Ident); ok && w.pkgMode {
					if _, isM := w.methods[id.Name]; isM && !ast.IsExported(id.Name) && !seen[id.Name] {
						seen[id.Name] = true
						w.extRefs = append(w.extRefs, id.Name)
					}
				}
				return true
			})
		}
		sort.Strings(w.extRefs)
	}
	return w, nil
}

func recvName(fd *ast.FuncDecl) string {
	if fd.Recv == nil {
		return ""
	}
	if len(fd.Recv.List[0].Names) == 1 {
		return fd.Recv.List[0].Names[0].Name
	}
	return "_"
}

// vmField: is x the expression recv.<field>?
func (e *emitter) vmField(x ast.Expr) (string, bool) {
	if e.w.pkgMode {
		if id, ok := x.(*ast.Ident); ok {
			if _, ok := e.w.fieldID[id.Name]; ok {
				if _, shadowed := e.alias["\x00local:"+id.Name]; !shadowed {
					return id.Name, true
				}
			}
		}
		return "", false
	}
	se, ok := x.(*ast.SelectorExpr)
	if !ok {
		return "", false
	}
	id, ok := se.X.(*ast.Ident)
	if !ok || id.Name != e.recv {
		return "", false
	}
	if _, ok := e.w.fieldID[se.Sel.Name]; !ok {
		return "", false
	}
	return se.Sel.Name, true
}

// muOp: is call recv.mu.<Lock|RLock|Unlock|RUnlock>()?
func (e *emitter) muOp(c *ast.CallExpr) (string, bool) {
	se, ok := c.Fun.(*ast.SelectorExpr)
	if !ok {
		return "", false
	}
	f, ok := e.vmField(se.X)
	if !ok || f != e.w.muName {
		return "", false
	}
	switch se.Sel.Name {
	case "Lock":
		return "ALock", true
	case "RLock":
		return "ARLock", true
	case "Unlock":
		return "AUnlock", true
	case "RUnlock":
		return "ARUnlock", true
	case "enter": // runtime.loadLock
		return "ALock", true
	case "leave":
		return "AUnlock", true
	}
	return "AOpaque", true
}

// regionOf: the deep field whose region the access path x leads into, and whether the path dereferences
// (selects / indexes / slices below the pointer): `current` alone is a pointer value in a local, `current.children`,
// `current.children[k]`, `*current` touch the region
func (e *emitter) regionOf(x ast.Expr) (string, bool) {
	if len(e.w.deep) == 0 {
		return "", false
	}
	depth := 0
	for {
		switch v := x.(type) {
		case *ast.ParenExpr:
			x = v.X
		case *ast.StarExpr:
			x = v.X
			depth++
		case *ast.UnaryExpr:
			if v.Op != token.AND {
				return "", false
			}
			x = v.X
		case *ast.IndexExpr:
			x = v.X
			depth++
		case *ast.SliceExpr:
			x = v.X
			depth++
		case *ast.TypeAssertExpr:
			x = v.X
		case *ast.SelectorExpr:
			if f, ok := e.vmField(v); ok {
				if e.w.deep[f] {
					return f, depth > 0
				}
				return "", false
			}
			x = v.X
			depth++
		case *ast.Ident:
			if f, ok := e.vmField(v); ok && e.w.deep[f] {
				return f, depth > 0
			}
			if f, ok := e.alias[v.Name]; ok {
				return f, depth > 0
			}
			return "", false
		default:
			return "", false
		}
	}
}

// pathIndexes: evaluate the index / bound expressions along an access path
func (e *emitter) pathIndexes(x ast.Expr, nested bool) {
	for {
		switch v := x.(type) {
		case *ast.ParenExpr:
			x = v.X
		case *ast.StarExpr:
			x = v.X
		case *ast.UnaryExpr:
			x = v.X
		case *ast.TypeAssertExpr:
			x = v.X
		case *ast.SelectorExpr:
			x = v.X
		case *ast.IndexExpr:
			e.expr(v.Index, nested)
			x = v.X
		case *ast.SliceExpr:
			e.expr(v.Low, nested)
			e.expr(v.High, nested)
			e.expr(v.Max, nested)
			x = v.X
		default:
			return
		}
	}
}

// valueRegion: the deep field a VALUE points into (the result of a receiver-method call: what the callee returns)
func (e *emitter) valueRegion(x ast.Expr) string {
	if len(e.w.deep) == 0 {
		return ""
	}
	if c, ok := x.(*ast.CallExpr); ok {
		return e.callRet[c]
	}
	f, _ := e.regionOf(x)
	return f
}

func (e *emitter) setAlias(l ast.Expr, f string) {
	if id, ok := l.(*ast.Ident); ok && f != "" && id.Name != "_" {
		if e.alias == nil {
			e.alias = map[string]string{}
		}
		e.alias[id.Name] = f
	}
}

func (e *emitter) read(f string) {
	if e.w.selfSync[f] || e.w.noAccess {
		return
	}
	e.emit(fmt.Sprintf("ARead %d", e.w.fieldID[f]))
}
func (e *emitter) write(f string) {
	if e.w.noAccess {
		return
	}
	e.w.written[f] = true
	e.emit(fmt.Sprintf("AWrite %d", e.w.fieldID[f]))
}

// mentionsVM: does the expression mention the receiver (other than through a plain field read)?
func (e *emitter) mentionsRecv(x ast.Node) bool {
	if e.recv == "" {
		return false
	}
	found := false
	ast.Inspect(x, func(n ast.Node) bool {
		if id, ok := n.(*ast.Ident); ok && id.Name == e.recv {
			found = true
		}
		return !found
	})
	return found
}

// expr walks an expression in evaluation order emitting reads; nested = inside branch/loop/closure
func (e *emitter) expr(x ast.Expr, nested bool) {
	if f, deref := e.regionOf(x); f != "" && deref {
		e.pathIndexes(x, nested)
		e.read(f)
		return
	}
	switch v := x.(type) {
	case nil:
	case *ast.Ident:
		if f, ok := e.vmField(v); ok { // package-level guarded variable
			e.read(f)
		}
	case *ast.BasicLit:
	case *ast.SelectorExpr:
		if f, ok := e.vmField(v); ok {
			if e.w.isMap[f] {
				// a guarded map used as a value (aliased, passed on): cannot be tracked
				e.emit("AOpaque")
			} else {
				e.read(f)
			}
			return
		}
		e.expr(v.X, nested)
	case *ast.IndexExpr:
		if f, ok := e.vmField(v.X); ok && e.w.isMap[f] {
			e.expr(v.Index, nested)
			e.read(f)
			return
		}
		e.expr(v.X, nested)
		e.expr(v.Index, nested)
	case *ast.CallExpr:
		e.call(v, nested)
	case *ast.FuncLit:
		e.block(v.Body.List, true)
	case *ast.ParenExpr:
		e.expr(v.X, nested)
	case *ast.StarExpr:
		e.expr(v.X, nested)
	case *ast.UnaryExpr:
		e.expr(v.X, nested)
	case *ast.BinaryExpr:
		// recv.mapField == nil / != nil reads the field (it does not alias the map)
		if f, ok := e.vmField(v.X); ok && e.w.isMap[f] {
			if id, ok := v.Y.(*ast.Ident); ok && id.Name == "nil" {
				e.read(f)
				return
			}
		}
		e.expr(v.X, nested)
		e.expr(v.Y, nested)
	case *ast.KeyValueExpr:
		e.expr(v.Key, nested)
		e.expr(v.Value, nested)
	case *ast.CompositeLit:
		for _, el := range v.Elts {
			e.expr(el, nested)
		}
	case *ast.TypeAssertExpr:
		e.expr(v.X, nested)
	case *ast.SliceExpr:
		e.expr(v.X, nested)
		e.expr(v.Low, nested)
		e.expr(v.High, nested)
		e.expr(v.Max, nested)
	case *ast.ArrayType, *ast.MapType, *ast.FuncType, *ast.InterfaceType, *ast.StructType, *ast.ChanType, *ast.Ellipsis:
	default:
		e.emit("AOpaque")
	}
}

func (e *emitter) call(c *ast.CallExpr, nested bool) {
	if op, ok := e.muOp(c); ok {
		// a lock operation reached through an expression (not a top-level statement): not understood
		_ = op
		e.emit("AOpaque")
		return
	}
	// builtins on a guarded map
	if id, ok := c.Fun.(*ast.Ident); ok && (id.Name == "len" || id.Name == "delete") && len(c.Args) >= 1 {
		if f, ok := e.vmField(c.Args[0]); ok && e.w.isMap[f] {
			for _, a := range c.Args[1:] {
				e.expr(a, nested)
			}
			if id.Name == "delete" {
				e.write(f)
			} else {
				e.read(f)
			}
			return
		}
	}
	if id, ok := c.Fun.(*ast.Ident); ok && id.Name == "delete" && len(c.Args) == 2 {
		if f, deref := e.regionOf(c.Args[0]); f != "" && deref {
			e.pathIndexes(c.Args[0], nested)
			e.expr(c.Args[1], nested)
			e.write(f)
			return
		}
	}
	if id, ok := c.Fun.(*ast.Ident); ok && e.w.pkgMode {
		if callee, ok := e.w.methods[id.Name]; ok {
			var roots []string
			for _, a := range c.Args {
				e.expr(a, nested)
				roots = append(roots, e.valueRegion(a))
			}
			if ret := e.inline(id.Name, callee, nested, roots); ret != "" {
				if e.callRet == nil {
					e.callRet = map[*ast.CallExpr]string{}
				}
				e.callRet[c] = ret
			}
			return
		}
	}
	// append(recv.field, ...) reads the field (the assignment around it writes it)
	// a call of another method of the receiver: inline it
	if se, ok := c.Fun.(*ast.SelectorExpr); ok {
		if id, ok := se.X.(*ast.Ident); ok && id.Name == e.recv {
			if callee, ok := e.w.methods[se.Sel.Name]; ok {
				var roots []string
				for _, a := range c.Args {
					e.expr(a, nested)
					roots = append(roots, e.valueRegion(a))
				}
				ret := e.inline(se.Sel.Name, callee, nested, roots)
				if ret != "" {
					if e.callRet == nil {
						e.callRet = map[*ast.CallExpr]string{}
					}
					e.callRet[c] = ret
				}
				return
			}
			if f, ok := e.vmField(se); ok {
				// call of a func-typed field (vm.acl(x)): reads the field, then runs foreign code
				for _, a := range c.Args {
					e.expr(a, nested)
				}
				e.read(f)
				e.emit("AExt")
				return
			}
		}
	}
	// a method of a self-synchronising field (atomic.Int64.Add, sync.Once.Do ...): no plain access
	if se, ok := c.Fun.(*ast.SelectorExpr); ok {
		if f, ok := e.vmField(se.X); ok && e.w.selfSync[f] {
			for _, a := range c.Args {
				e.expr(a, nested)
			}
			if e.w.atomic[f] {
				// an atomic access is race free anywhere, but WHERE it happens relative to the lock matters for
				// check-then-act sequences (a test of the flag that guards an action must sit in the same section)
				if se.Sel.Name == "Load" {
					e.emit(fmt.Sprintf("AARead %d", e.w.fieldID[f]))
				} else {
					e.emit(fmt.Sprintf("AAWrite %d", e.w.fieldID[f]))
				}
			}
			return
		}
	}
	if e.w.extNames != nil {
		// explicit call-out list: exactly the calls with these method / function names run foreign code
		name := ""
		switch f := c.Fun.(type) {
		case *ast.Ident:
			name = f.Name
		case *ast.SelectorExpr:
			e.expr(f.X, nested)
			name = f.Sel.Name
		default:
			e.expr(c.Fun, nested)
		}
		for _, a := range c.Args {
			e.expr(a, nested)
		}
		if e.w.extNames[name] {
			e.emit("AExt")
		}
		return
	}
	// any other call: evaluate receiver/function expression and arguments
	ext := false
	switch f := c.Fun.(type) {
	case *ast.Ident:
		// call of a local func value (fn()) or a package-level function
		if f.Obj != nil && f.Obj.Kind == ast.Var {
			ext = true
		}
	case *ast.SelectorExpr:
		e.expr(f.X, nested)
		// methods that run interpreter code and may re-enter the VM
		switch f.Sel.Name {
		case "GetValue", "Call", "LoadClass", "ParseFile", "ParseString", "ShowControl":
			ext = true
		}
		if e.mentionsRecv(f.X) {
			ext = true
		}
	case *ast.ArrayType, *ast.MapType, *ast.ChanType, *ast.FuncType, *ast.InterfaceType, *ast.StarExpr:
		// a conversion ([]T(x), (*T)(x)), not a call
	default:
		// a computed function value is called (vm.throwFallback()(acl), closures returned by calls): foreign code
		e.expr(c.Fun, nested)
		ext = true
	}
	for _, a := range c.Args {
		if id, ok := a.(*ast.Ident); ok && id.Name == e.recv {
			ext = true // the VM itself is handed to foreign code
			continue
		}
		e.expr(a, nested)
	}
	if ext {
		e.emit("AExt")
	}
}

func (e *emitter) inline(name string, callee *ast.FuncDecl, nested bool, argRoots []string) string {
	for _, s := range e.stack {
		if s == name {
			e.emit("AOpaque") // recursion
			return ""
		}
	}
	if len(e.stack) > 6 {
		e.emit("AOpaque")
		return ""
	}
	sub := &emitter{w: e.w, recv: recvName(callee), stack: append(append([]string{}, e.stack...), name)}
	// parameters that receive a pointer into a deep region are aliases of it inside the callee
	k := 0
	for _, fl := range callee.Type.Params.List {
		for _, nm := range fl.Names {
			if k < len(argRoots) && argRoots[k] != "" {
				sub.setAlias(nm, argRoots[k])
			}
			k++
		}
	}
	sub.block(callee.Body.List, false)
	sub.finish()
	if nested && hasLockOp(sub.acts) && !balanced(sub.acts) {
		// lock operations inside a branch/loop of the caller are only understood when the callee is a
		// complete balanced region (then a path runs the whole region or none of it: Lock.sub_skip_region)
		e.emit("AOpaque")
		return ""
	}
	e.acts = append(e.acts, sub.acts...)
	return sub.retAlias
}

func hasLockOp(acts []string) bool {
	for _, a := range acts {
		switch a {
		case "ALock", "ARLock", "AUnlock", "ARUnlock":
			return true
		}
	}
	return false
}

// balanced: starting with no lock held the region acquires/releases in matching pairs and ends with none held
func balanced(acts []string) bool {
	held := ""
	for _, a := range acts {
		switch a {
		case "ALock", "ARLock":
			if held != "" {
				return false
			}
			held = a
		case "AUnlock":
			if held != "ALock" {
				return false
			}
			held = ""
		case "ARUnlock":
			if held != "ARLock" {
				return false
			}
			held = ""
		case "AOpaque":
			return false
		}
	}
	return held == ""
}

func (e *emitter) finish() {
	for i := len(e.deferred) - 1; i >= 0; i-- {
		e.acts = append(e.acts, e.deferred[i]...)
	}
	e.deferred = nil
}

func (e *emitter) assignTarget(lhs ast.Expr, nested bool) {
	if f, deref := e.regionOf(lhs); f != "" && deref {
		e.pathIndexes(lhs, nested)
		e.write(f)
		return
	}
	switch v := lhs.(type) {
	case *ast.IndexExpr:
		if f, ok := e.vmField(v.X); ok {
			e.expr(v.Index, nested)
			e.write(f)
			return
		}
		e.expr(v.X, nested)
		e.expr(v.Index, nested)
	case *ast.SelectorExpr:
		if f, ok := e.vmField(v); ok {
			e.write(f)
			return
		}
		e.expr(v.X, nested)
	case *ast.Ident:
		if f, ok := e.vmField(v); ok { // package-level guarded variable
			e.write(f)
		}
	case *ast.StarExpr:
		e.expr(v.X, nested)
	default:
		e.emit("AOpaque")
	}
}

func (e *emitter) block(list []ast.Stmt, nested bool) {
	for _, s := range list {
		e.stmt(s, nested)
	}
}

func (e *emitter) stmt(s ast.Stmt, nested bool) {
	switch v := s.(type) {
	case nil:
	case *ast.ExprStmt:
		if c, ok := v.X.(*ast.CallExpr); ok {
			if op, ok := e.muOp(c); ok {
				if nested {
					e.emit("AOpaque")
					return
				}
				e.emit(op)
				switch op {
				case "ALock", "ARLock":
					e.explicit++
				case "AUnlock", "ARUnlock":
					if e.explicit > 0 {
						e.explicit--
					}
				}
				return
			}
		}
		e.expr(v.X, nested)
	case *ast.DeferStmt:
		if op, ok := e.muOp(v.Call); ok {
			if nested {
				e.emit("AOpaque")
				return
			}
			e.deferred = append(e.deferred, []string{op})
			if e.explicit > 0 {
				e.explicit-- // released by the defer on every return path
			}
			return
		}
		// defer recv.method(...): the callee runs at function exit
		if se, ok := v.Call.Fun.(*ast.SelectorExpr); ok {
			if id, ok := se.X.(*ast.Ident); ok && id.Name == e.recv {
				if callee, ok := e.w.methods[se.Sel.Name]; ok {
					for _, a := range v.Call.Args {
						e.expr(a, nested)
					}
					tmp := &emitter{w: e.w, recv: e.recv, stack: e.stack, alias: e.alias}
					tmp.inline(se.Sel.Name, callee, true, nil)
					e.deferred = append(e.deferred, tmp.acts)
					return
				}
			}
		}
		// a deferred closure/call: its accesses happen at function end, under whatever is still held;
		// emit them in place if no lock is released by a later defer... conservatively: in place, nested
		if fl, ok := v.Call.Fun.(*ast.FuncLit); ok {
			e.block(fl.Body.List, true)
			return
		}
		e.call(v.Call, true)
	case *ast.AssignStmt:
		for _, r := range v.Rhs {
			e.expr(r, nested)
		}
		for _, l := range v.Lhs {
			e.assignTarget(l, nested)
		}
		for i, l := range v.Lhs {
			if len(v.Rhs) == len(v.Lhs) {
				e.setAlias(l, e.valueRegion(v.Rhs[i]))
			} else if i == 0 && len(v.Rhs) == 1 {
				e.setAlias(l, e.valueRegion(v.Rhs[0])) // v, ok := m[k]
			}
		}
	case *ast.IncDecStmt:
		if f, ok := e.vmField(v.X); ok {
			e.read(f)
			e.write(f)
			return
		}
		e.expr(v.X, nested)
	case *ast.ReturnStmt:
		for _, r := range v.Results {
			e.expr(r, nested)
			if f := e.valueRegion(r); f != "" {
				e.retAlias = f
			}
		}
		if e.w.pathMode && !nested {
			e.returned = true // the path ends here (with whatever is still held: wl decides)
		} else if e.explicit > 0 {
			e.emit("AOpaque") // return while an explicitly taken lock has no deferred release
		}
	case *ast.IfStmt:
		e.stmt(v.Init, nested)
		e.expr(v.Cond, nested)
		e.block(v.Body.List, true)
		e.stmt(v.Else, true)
	case *ast.BlockStmt:
		e.block(v.List, nested)
	case *ast.ForStmt:
		e.stmt(v.Init, true)
		e.expr(v.Cond, true)
		e.block(v.Body.List, true)
		e.stmt(v.Post, true)
	case *ast.RangeStmt:
		if f, ok := e.vmField(v.X); ok {
			e.read(f)
		} else {
			e.expr(v.X, true)
		}
		if f := e.valueRegion(v.X); f != "" {
			if _, deref := e.regionOf(v.X); !deref {
				if _, direct := e.vmField(v.X); !direct {
					e.read(f) // ranging over a slice/map VALUE that points into the region (a returned, un-copied header) reads it
				}
			}
			e.setAlias(v.Key, f)
			e.setAlias(v.Value, f)
		}
		e.block(v.Body.List, true)
	case *ast.SwitchStmt:
		e.stmt(v.Init, nested)
		e.expr(v.Tag, nested)
		e.block(v.Body.List, true)
	case *ast.TypeSwitchStmt:
		e.stmt(v.Init, true)
		e.stmt(v.Assign, true)
		e.block(v.Body.List, true)
	case *ast.CaseClause:
		for _, x := range v.List {
			e.expr(x, true)
		}
		e.block(v.Body, true)
	case *ast.DeclStmt:
		if gd, ok := v.Decl.(*ast.GenDecl); ok {
			for _, sp := range gd.Specs {
				if vs, ok := sp.(*ast.ValueSpec); ok {
					for _, x := range vs.Values {
						e.expr(x, nested)
					}
				}
			}
		}
	case *ast.BranchStmt, *ast.EmptyStmt:
	case *ast.LabeledStmt:
		e.stmt(v.Stmt, nested)
	case *ast.SendStmt:
		e.expr(v.Chan, nested)
		e.expr(v.Value, nested)
	case *ast.GoStmt:
		e.emit("AOpaque")
	default:
		e.emit("AOpaque")
	}
}

// ---- path mode
func (e *emitter) clone() *emitter {
	c := *e
	c.acts = append([]string{}, e.acts...)
	c.deferred = append([][]string{}, e.deferred...)
	c.alias = map[string]string{}
	for k, v := range e.alias {
		c.alias[k] = v
	}
	return &c
}

// forks: does the statement contain a lock operation or a return outside function literals?
func (e *emitter) forks(n ast.Node) bool {
	found := false
	ast.Inspect(n, func(x ast.Node) bool {
		if found {
			return false
		}
		switch v := x.(type) {
		case *ast.FuncLit:
			return false
		case *ast.ReturnStmt:
			found = true
		case *ast.CallExpr:
			if _, ok := e.muOp(v); ok {
				found = true
			}
		}
		return !found
	})
	return found
}

// runPaths executes the statements on every live path; an `if` that forks is split into its arms
func runPaths(live []*emitter, list []ast.Stmt) []*emitter {
	for _, s := range list {
		var next []*emitter
		for _, em := range live {
			if em.returned {
				next = append(next, em)
				continue
			}
			if ifs, ok := s.(*ast.IfStmt); ok && em.forks(ifs) && len(live) < 256 {
				em.stmt(ifs.Init, false)
				em.expr(ifs.Cond, false)
				a := em.clone()
				next = append(next, runPaths([]*emitter{a}, ifs.Body.List)...)
				switch el := ifs.Else.(type) {
				case nil:
					next = append(next, em)
				case *ast.BlockStmt:
					next = append(next, runPaths([]*emitter{em}, el.List)...)
				default:
					next = append(next, runPaths([]*emitter{em}, []ast.Stmt{el})...)
				}
				continue
			}
			em.stmt(s, false)
			next = append(next, em)
		}
		live = next
	}
	return live
}

func coqList(xs []string) string { return "[" + strings.Join(xs, "; ") + "]" }

// walk prints the Coq table for the repository at `repo`.
func walk(repo string, tg target) (string, error) {
	w, err := loadWalker(repo, tg)
	if err != nil {
		return "", err
	}
	// constructors: walked only to learn nothing — their writes are not counted (fields they alone write are
	// immutable once the object is shared)
	type entry struct {
		name string
		acts []string
	}
	var ents []entry
	for _, name := range w.extRefs {
		ents = append(ents, entry{"external-call:" + name, []string{"AOpaque"}})
	}
	for _, name := range w.inVMGo {
		if tg.exportedOnly && !ast.IsExported(name) {
			continue
		}
		if tg.only != nil && !tg.only[name] {
			continue
		}
		fd := w.methods[name]
		e := &emitter{w: w, recv: recvName(fd), stack: []string{name}}
		if tg.paths {
			for k, pe := range runPaths([]*emitter{e}, fd.Body.List) {
				pe.finish()
				ents = append(ents, entry{fmt.Sprintf("%s#%d", name, k+1), pe.acts})
			}
			continue
		}
		e.block(fd.Body.List, false)
		e.finish()
		ents = append(ents, entry{name, e.acts})
	}
	var sb strings.Builder
	fmt.Fprintf(&sb, "(* GENERATED by harness/cmd/c10 walk from %s/%s (type %s) — do not edit *)\n", tg.dir, tg.file, tg.typ)
	sb.WriteString("From Coq Require Import List String.\nImport ListNotations.\nFrom V.C10 Require Import Lock.\nOpen Scope string_scope.\n\n")
	var fl []string
	for i, f := range w.fields {
		kind := "scalar"
		if w.isMap[f] {
			kind = "map"
		}
		if w.selfSync[f] {
			kind = "self-synchronised"
		} else if !w.written[f] {
			kind += ",never-written-by-a-method"
		}
		fl = append(fl, fmt.Sprintf("(%d%%nat, \"%s\", \"%s\")", i, f, kind))
	}
	sb.WriteString("Definition vm_fields : list (nat * string * string) :=\n  " + coqList(fl) + ".\n\n")
	var maps []string
	for i, f := range w.fields {
		if w.isMap[f] {
			maps = append(maps, fmt.Sprintf("%d%%nat", i))
		}
	}
	sb.WriteString("Definition vm_map_fields : list nat := " + coqList(maps) + ".\n\n")
	var rows []string
	for _, en := range ents {
		var as []string
		for _, a := range en.acts {
			if strings.HasPrefix(a, "ARead ") || strings.HasPrefix(a, "AWrite ") {
				// accesses to fields no method ever writes are reads of immutable data: dropped
				var id int
				fmt.Sscanf(a[strings.Index(a, " ")+1:], "%d", &id)
				if !w.written[w.fields[id]] {
					continue
				}
			}
			as = append(as, a)
		}
		rows = append(rows, fmt.Sprintf("(\"%s\", %s)", en.name, coqList(as)))
	}
	sort.Strings(rows)
	sb.WriteString("Definition vm_table : table :=\n  [ " + strings.Join(rows, ";\n    ") + " ].\n")
	return sb.String(), nil
}
