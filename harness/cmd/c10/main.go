// c10: engine for property C10 (VM registries under concurrency).
//
//	c10 walk <repo>            print the regenerated lock table (Coq) for <repo>/runtime/vm.go
//	c10 walk <repo> <dir> <Type> <file.go> [ctor...]   the same for another struct (C09: std/channel Channel channel.go Construct)
//	c10 seq                    stdin: sequential op histories (JSON lines) -> results (tie with the sequential spec)
//	c10 stress                 stdin: stress configurations (JSON lines); each runs in a CHILD process
//	                           (`c10 child`), so `fatal error: concurrent map writes` and race-detector
//	                           exits are attributed to the case
//	c10 child                  stdin: one configuration; stdout: recorded concurrent history
package main

import (
	"fmt"
	"os"
	"strings"
)

func main() {
	if len(os.Args) < 2 {
		fmt.Fprintln(os.Stderr, "usage: c10 walk <repo> | seq | stress | child")
		os.Exit(2)
	}
	switch os.Args[1] {
	case "walk":
		if len(os.Args) < 3 {
			fmt.Fprintln(os.Stderr, "usage: c10 walk <repo>")
			os.Exit(2)
		}
		tg := target{dir: "runtime", typ: "VM", file: "vm.go", ctors: map[string]bool{}}
		if len(os.Args) >= 6 {
			// c10 walk <repo> <dir> <Type> <file.go> [constructor methods...]
			// c10 walk <repo> <dir> <Type> <file.go> [constructor methods... | deep=<field>...]
			tg = target{dir: os.Args[3], typ: os.Args[4], file: os.Args[5], ctors: map[string]bool{}, deep: map[string]bool{}}
			for _, c := range os.Args[6:] {
				if c == "entries=exported" {
					tg.exportedOnly = true
					continue
				}
				if c == "paths" {
					tg.paths = true
					continue
				}
				if c == "noaccess" {
					tg.noAccess = true
					continue
				}
				if strings.HasPrefix(c, "ext=") {
					tg.extNames = map[string]bool{}
					for _, n := range strings.Split(strings.TrimPrefix(c, "ext="), ",") {
						tg.extNames[n] = true
					}
					continue
				}
				if strings.HasPrefix(c, "only=") {
					tg.only = map[string]bool{}
					for _, n := range strings.Split(strings.TrimPrefix(c, "only="), ",") {
						tg.only[n] = true
					}
					continue
				}
				if strings.HasPrefix(c, "vars=") {
					tg.vars = strings.Split(strings.TrimPrefix(c, "vars="), ",")
					continue
				}
				if strings.HasPrefix(c, "mu=") {
					tg.muName = strings.TrimPrefix(c, "mu=")
					continue
				}
				if strings.HasPrefix(c, "deep=") {
					tg.deep[strings.TrimPrefix(c, "deep=")] = true
					continue
				}
				tg.ctors[c] = true
			}
		}
		out, err := walk(os.Args[2], tg)
		if err != nil {
			fmt.Fprintln(os.Stderr, err)
			os.Exit(1)
		}
		fmt.Print(out)
	case "seq":
		runSeq()
	case "stress":
		runStress()
	case "child":
		runChild()
	case "script":
		runScript()
	default:
		fmt.Fprintln(os.Stderr, "unknown mode", os.Args[1])
		os.Exit(2)
	}
}
