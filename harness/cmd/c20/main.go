// c20: drives the real code for property C20.
// stdin: one JSON case per line; stdout: one JSON observation per line.
//
//	{"kind":"om","ops":[["set","k",1],["get","k"],["getz","k"],["del","k"],["range",-1],["range",2],["len"],["idx",3]]}
//	     real data.OrderedMap; -1 = the Range callback never stops, n>=0 = returns false on call n+1
//	{"kind":"find","keys":["Foo","FOO"],"name":"foo","reps":200}
//	     bare runtime.VM, AddClass for each key, GetClass(name) reps times; distinct results
//	{"kind":"reflect","reps":50}
//	     runtime.ReflectClass over a Go struct: GetMethods() / GetPropertyList() name lists, distinct
//	{"kind":"prog","src":"...","file":"x.php","reps":8}
//	     RunString on reps fresh VMs in this process; distinct (outcome,out) pairs in first-seen order
//	{"kind":"pair","a":"...","b":"..."}
//	     two child processes: (B on a fresh VM) and (A on a fresh VM, then B on another fresh VM);
//	     B's output and outcome in both
package main

import (
	"encoding/json"
	"fmt"
	"net/http/httptest"
	"os"
	"os/exec"
	"path/filepath"
	"strings"

	"verif/harness/vrun"

	"github.com/php-any/origami/data"
	"github.com/php-any/origami/node"
	"github.com/php-any/origami/parser"
	"github.com/php-any/origami/runtime"
	ohttp "github.com/php-any/origami/std/net/http"
)

type Case struct {
	Kind string   `json:"kind"`
	Ops  [][]any  `json:"ops,omitempty"`
	Keys []string `json:"keys,omitempty"`
	Name string   `json:"name,omitempty"`
	Reps int      `json:"reps,omitempty"`
	Src  string   `json:"src,omitempty"`
	File string   `json:"file,omitempty"`
	A    string   `json:"a,omitempty"`
	B    string   `json:"b,omitempty"`
	// http: the request the handler function h($r, $w) of Src is served
	Query   string     `json:"query,omitempty"`
	Form    string     `json:"form,omitempty"`
	Headers [][]string `json:"headers,omitempty"`
}

type Run struct {
	Out     string `json:"out"`
	Outcome string `json:"outcome"`
	N       int    `json:"n,omitempty"`
	UserOut bool   `json:"userout,omitempty"`
	// pair mode: what B wrote straight to the process's stdout (var_dump / var_export / print_r bypass
	// data.WriteOutput)
	Raw string `json:"raw,omitempty"`
}

type Obs struct {
	Res     []any      `json:"res,omitempty"`
	Found   []string   `json:"found,omitempty"`
	Methods [][]string `json:"methods,omitempty"`
	Props   [][]string `json:"props,omitempty"`
	Runs    []Run      `json:"runs,omitempty"`
	Alone   *Run       `json:"alone,omitempty"`
	After   *Run       `json:"after,omitempty"`
	Panic   string     `json:"panic,omitempty"`
	Err     string     `json:"err,omitempty"`
}

func str(x any) string { s, _ := x.(string); return s }
func num(x any) int    { f, _ := x.(float64); return int(f) }

func valOf(v data.Value) any {
	if v == nil {
		return nil
	}
	if iv, ok := v.(*data.IntValue); ok {
		return iv.Value
	}
	return "?" + v.AsString()
}

func runOM(ops [][]any) (o Obs) {
	defer func() {
		if r := recover(); r != nil {
			o.Panic = fmt.Sprint(r)
		}
	}()
	m := data.NewOrderedMap()
	for _, op := range ops {
		switch str(op[0]) {
		case "set":
			m.Set(str(op[1]), data.NewIntValue(num(op[2])))
			o.Res = append(o.Res, map[string]any{"u": 1})
		case "get":
			v, ok := m.Get(str(op[1]))
			if ok {
				o.Res = append(o.Res, map[string]any{"v": valOf(v)})
			} else {
				o.Res = append(o.Res, map[string]any{"v": nil})
			}
		case "getz":
			z, ok := m.GetZVal(str(op[1]))
			if ok && z != nil {
				o.Res = append(o.Res, map[string]any{"v": valOf(z.Value)})
			} else {
				o.Res = append(o.Res, map[string]any{"v": nil})
			}
		case "del":
			m.Delete(str(op[1]))
			o.Res = append(o.Res, map[string]any{"u": 1})
		case "range":
			lim := num(op[1])
			l := [][]any{}
			calls := 0
			m.Range(func(k string, v data.Value) bool {
				l = append(l, []any{k, valOf(v)})
				calls++
				return !(lim >= 0 && calls > lim)
			})
			o.Res = append(o.Res, map[string]any{"l": l})
		case "len":
			o.Res = append(o.Res, map[string]any{"n": m.Len()})
		case "idx":
			k, v, ok := m.GetByIndex(num(op[1]))
			if ok {
				o.Res = append(o.Res, map[string]any{"i": []any{k, valOf(v)}})
			} else {
				o.Res = append(o.Res, map[string]any{"i": nil})
			}
		}
	}
	return o
}

func runFind(c Case) (o Obs) {
	defer func() {
		if r := recover(); r != nil {
			o.Panic = fmt.Sprint(r)
		}
	}()
	p := parser.NewParser()
	vm := runtime.NewVM(p)
	for _, k := range c.Keys {
		if ctl := vm.AddClass(node.NewClassStatement(nil, k, "", nil, nil, map[string]data.Method{})); ctl != nil {
			o.Err = "AddClass " + k + ": " + ctl.AsString()
			return o
		}
	}
	seen := map[string]bool{}
	reps := c.Reps
	if reps <= 0 {
		reps = 100
	}
	for i := 0; i < reps; i++ {
		cl, ok := vm.GetClass(c.Name)
		r := ""
		if ok && cl != nil {
			r = "S:" + cl.GetName()
		} else {
			r = "N"
		}
		if !seen[r] {
			seen[r] = true
			o.Found = append(o.Found, r)
		}
	}
	return o
}

// a Go struct registered as a script class through runtime.ReflectClass
type Widget struct {
	Alpha int
	Beta  string
	Gamma bool
	Delta float64
}

func (w *Widget) Apple() int   { return 1 }
func (w *Widget) Banana() int  { return 2 }
func (w *Widget) Cherry() int  { return 3 }
func (w *Widget) Damson() int  { return 4 }
func (w *Widget) Elder() int   { return 5 }
func (w *Widget) Fig() int     { return 6 }
func (w *Widget) Grape() int   { return 7 }
func (w *Widget) Hazel() int   { return 8 }
func (w *Widget) Iris() int    { return 9 }
func (w *Widget) Juniper() int { return 10 }

func runReflect(c Case) (o Obs) {
	defer func() {
		if r := recover(); r != nil {
			o.Panic = fmt.Sprint(r)
		}
	}()
	vm, _ := vrun.NewVM()
	rc := runtime.NewReflectClass("Widget", &Widget{})
	ctx := vm.CreateContext(nil)
	reps := c.Reps
	if reps <= 0 {
		reps = 50
	}
	seenM := map[string]bool{}
	seenP := map[string]bool{}
	for i := 0; i < reps; i++ {
		inst, ctl := rc.GetValue(ctx)
		if ctl != nil {
			o.Err = ctl.AsString()
			return o
		}
		cv, ok := inst.(*data.ClassValue)
		if !ok {
			o.Err = fmt.Sprintf("unexpected %T", inst)
			return o
		}
		var ms []string
		for _, m := range cv.Class.GetMethods() {
			ms = append(ms, m.GetName())
		}
		var ps []string
		for _, p := range cv.Class.GetPropertyList() {
			ps = append(ps, p.GetName())
		}
		if k := strings.Join(ms, ","); !seenM[k] {
			seenM[k] = true
			o.Methods = append(o.Methods, ms)
		}
		if k := strings.Join(ps, ","); !seenP[k] {
			seenP[k] = true
			o.Props = append(o.Props, ps)
		}
	}
	return o
}

func runProg(c Case) (o Obs) {
	reps := c.Reps
	if reps <= 0 {
		reps = 1
	}
	file := c.File
	if file == "" {
		file = "c20.php"
	}
	idx := map[string]int{}
	for i := 0; i < reps; i++ {
		r := vrun.RunString(c.Src, file)
		k := r.Outcome + "\x00" + r.Out
		if j, ok := idx[k]; ok {
			o.Runs[j].N++
		} else {
			idx[k] = len(o.Runs)
			o.Runs = append(o.Runs, Run{Out: r.Out, Outcome: r.Outcome, N: 1})
		}
	}
	return o
}

// view: render an html template through VM.ParseFile (what $response->view does), reps times in fresh
// VMs, and group the rendered strings.
func viewOnce(path string) (r Run) {
	var sb strings.Builder
	old := data.WriteOutput
	data.WriteOutput = func(s string) { sb.WriteString(s) }
	defer func() { data.WriteOutput = old }()
	defer func() {
		if p := recover(); p != nil {
			r.Out = sb.String() + fmt.Sprint(p)
			r.Outcome = "panic"
		}
	}()
	vm, _ := vrun.NewVM()
	vm.SetThrowControl(func(acl data.Control) { r.Outcome = "throw" })
	v, ctl := vm.ParseFile(path, data.NewObjectValue())
	if ctl != nil {
		r.Outcome = "control"
		if a, ok := ctl.(data.AsString); ok {
			r.Out = a.AsString()
		}
		return r
	}
	if val, ok := v.(data.Value); ok {
		sb.WriteString(val.AsString())
	}
	r.Out = sb.String()
	if r.Outcome == "" {
		r.Outcome = "ok"
	}
	return r
}

func runView(c Case) (o Obs) {
	f, err := os.CreateTemp(".", "c20-view-*.html")
	if err != nil {
		o.Err = err.Error()
		return o
	}
	path, _ := filepath.Abs(f.Name())
	f.WriteString(c.Src)
	f.Close()
	defer os.Remove(path)
	reps := c.Reps
	if reps <= 0 {
		reps = 1
	}
	idx := map[string]int{}
	for i := 0; i < reps; i++ {
		r := viewOnce(path)
		k := r.Outcome + "\x00" + r.Out
		if j, ok := idx[k]; ok {
			o.Runs[j].N++
		} else {
			idx[k] = len(o.Runs)
			o.Runs = append(o.Runs, Run{Out: r.Out, Outcome: r.Outcome, N: 1})
		}
	}
	return o
}

// child mode: argv[1] = "child"; stdin = {"a":..., "b":...}; a may be empty (B alone).
// Unlike vrun.RunString this goes through the real runtime.VM.LoadAndRun on files, so the reset
// protocol under test (ResetUserOutput at the start, FlushAllBuffersFn at the end) is the code's own.
func loadAndRun(src string, tag string) (r Run) {
	f, err := os.CreateTemp(".", "c20-"+tag+"-*.php")
	if err != nil {
		return Run{Outcome: "harness", Out: err.Error()}
	}
	path := f.Name()
	f.WriteString(src)
	f.Close()
	defer os.Remove(path)
	var sb strings.Builder
	old := data.WriteOutput
	// same contract as data.DefaultOutputWriter: mark, then write
	data.WriteOutput = func(s string) { data.MarkUserOutput(); sb.WriteString(s) }
	defer func() { data.WriteOutput = old }()
	defer func() {
		if p := recover(); p != nil {
			r.Out = sb.String()
			r.Outcome = "panic"
		}
	}()
	vm, _ := vrun.NewVM()
	vm.SetThrowControl(func(acl data.Control) { r.Outcome = "throw" })
	abs, _ := filepath.Abs(path)
	_, ctl := vm.LoadAndRun(abs)
	// as cmd/root.go RunScriptFile does after the script: shutdown functions and header callbacks
	vm.RunShutdownCallbacks()
	r.Out = sb.String()
	r.UserOut = data.HasUserOutput()
	if ctl != nil {
		if _, ok := ctl.(*data.ThrowValue); ok {
			r.Outcome = "throw"
		} else {
			r.Outcome = "control"
		}
		return r
	}
	if r.Outcome == "" {
		r.Outcome = "ok"
	}
	return r
}

const rawMarker = "@@C20-B"

func child() {
	var c Case
	if err := json.NewDecoder(os.Stdin).Decode(&c); err != nil {
		fmt.Println(`{"err":"decode"}`)
		return
	}
	if c.A != "" {
		_ = loadAndRun(c.A, "a")
	}
	os.Stdout.WriteString("\n" + rawMarker + "\n")
	r := loadAndRun(c.B, "b")
	b, _ := json.Marshal(r)
	// some builtins print straight to os.Stdout: start the observation on a line of its own
	fmt.Println("\n" + string(b))
}

// child-http mode: Src defines function h($r, $w); one request is served by the real
// std/net/http Handler.ServeHTTP, and the response body is the observation.  One process per run,
// because $_GET/$_POST/$_SERVER/$_FILES are cached in package-level variables.
func childHTTP() {
	var c Case
	r := Run{}
	defer func() {
		if p := recover(); p != nil {
			r.Outcome = "panic"
			r.Out = fmt.Sprint(p)
		}
		b, _ := json.Marshal(r)
		fmt.Println("\n" + string(b))
	}()
	if err := json.NewDecoder(os.Stdin).Decode(&c); err != nil {
		r.Outcome = "harness"
		return
	}
	vm, p := vrun.NewVM()
	vm.SetThrowControl(func(acl data.Control) { r.Outcome = "throw" })
	prog, acl := p.ParseString(c.Src, "c20.zy")
	if acl != nil {
		r.Outcome, r.Out = "parse", acl.AsString()
		return
	}
	ctx := vm.CreateContext(p.GetVariables())
	if _, ctl := prog.GetValue(ctx); ctl != nil {
		r.Outcome, r.Out = "control", ctl.AsString()
		return
	}
	fn, ok := vm.GetFunc("h")
	if !ok {
		r.Outcome, r.Out = "harness", "no function h"
		return
	}
	req := httptest.NewRequest("POST", "/h?"+c.Query, strings.NewReader(c.Form))
	req.Header.Set("Content-Type", "application/x-www-form-urlencoded")
	for _, kv := range c.Headers {
		req.Header.Set(kv[0], kv[1])
	}
	_ = req.ParseForm()
	rec := httptest.NewRecorder()
	ohttp.Handler{Value: fn, Ctx: ctx}.ServeHTTP(rec, req)
	r.Out = rec.Body.String()
	if r.Outcome == "" {
		r.Outcome = "ok"
	}
}

func runHTTP(c Case) (o Obs) {
	reps := c.Reps
	if reps <= 0 {
		reps = 1
	}
	in, _ := json.Marshal(c)
	idx := map[string]int{}
	for i := 0; i < reps; i++ {
		cmd := exec.Command(os.Args[0], "child-http")
		cmd.Stdin = strings.NewReader(string(in))
		out, err := cmd.Output()
		if err != nil {
			o.Err = "child: " + err.Error()
			return o
		}
		lines := strings.Split(strings.TrimSpace(string(out)), "\n")
		var r Run
		if err := json.Unmarshal([]byte(strings.TrimSpace(lines[len(lines)-1])), &r); err != nil {
			o.Err = "child output: " + string(out)
			return o
		}
		k := r.Outcome + "\x00" + r.Out
		if j, ok := idx[k]; ok {
			o.Runs[j].N++
		} else {
			idx[k] = len(o.Runs)
			r.N = 1
			o.Runs = append(o.Runs, r)
		}
	}
	return o
}

// maporder: how random is the iteration order of a Go map with len(keys) string keys, in this
// toolchain?  reps ranges over a fresh map each; the histogram of the orders seen is returned (the
// check derives from its mode the probability that r runs of an order-dependent program all agree).
func runMapOrder(c Case) (o Obs) {
	hist := map[string]int{}
	for i := 0; i < c.Reps; i++ {
		m := map[string]int{}
		for j, k := range c.Keys {
			m[k] = j
		}
		var sb strings.Builder
		for k := range m {
			sb.WriteString(k)
			sb.WriteByte(',')
		}
		hist[sb.String()]++
	}
	for k, n := range hist {
		o.Runs = append(o.Runs, Run{Out: k, N: n})
	}
	return o
}

func runChild(a, b string) (*Run, string) {
	in, _ := json.Marshal(Case{A: a, B: b})
	cmd := exec.Command(os.Args[0], "child")
	cmd.Stdin = strings.NewReader(string(in))
	out, err := cmd.Output()
	if err != nil {
		return nil, "child: " + err.Error()
	}
	// the child may print script output of A on stdout only through WriteOutput (captured); the
	// last line is the JSON observation
	lines := strings.Split(strings.TrimSpace(string(out)), "\n")
	var r Run
	if err := json.Unmarshal([]byte(strings.TrimSpace(lines[len(lines)-1])), &r); err != nil {
		return nil, "child output: " + string(out)
	}
	if i := strings.LastIndex(string(out), "\n"+rawMarker+"\n"); i >= 0 {
		raw := string(out)[i+len(rawMarker)+2:]
		if j := strings.LastIndex(raw, "\n{"); j >= 0 {
			raw = raw[:j]
		}
		r.Raw = strings.TrimSpace(raw)
	}
	return &r, ""
}

func runPair(c Case) (o Obs) {
	var e string
	if o.Alone, e = runChild("", c.B); e != "" {
		o.Err = e
		return o
	}
	if o.After, e = runChild(c.A, c.B); e != "" {
		o.Err = e
	}
	return o
}

// some builtins (var_export, ...) print straight to os.Stdout instead of data.WriteOutput; make
// sure every observation starts on a line of its own
type lineEncoder struct{ e *json.Encoder }

func (l lineEncoder) Encode(v any) {
	os.Stdout.WriteString("\n")
	l.e.Encode(v)
}

func main() {
	if len(os.Args) > 1 && os.Args[1] == "child" {
		child()
		return
	}
	if len(os.Args) > 1 && os.Args[1] == "child-http" {
		childHTTP()
		return
	}
	enc0 := json.NewEncoder(os.Stdout)
	enc := lineEncoder{enc0}
	vrun.Lines(func(line string) {
		if strings.TrimSpace(line) == "" {
			return
		}
		var c Case
		if err := json.Unmarshal([]byte(line), &c); err != nil {
			enc.Encode(Obs{Err: "bad case: " + err.Error()})
			return
		}
		switch c.Kind {
		case "om":
			enc.Encode(runOM(c.Ops))
		case "find":
			enc.Encode(runFind(c))
		case "reflect":
			enc.Encode(runReflect(c))
		case "prog":
			enc.Encode(runProg(c))
		case "pair":
			enc.Encode(runPair(c))
		case "view":
			enc.Encode(runView(c))
		case "http":
			enc.Encode(runHTTP(c))
		case "maporder":
			enc.Encode(runMapOrder(c))
		default:
			enc.Encode(Obs{Err: "unknown kind " + c.Kind})
		}
	})
}
