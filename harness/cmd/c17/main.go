// c17: values crossing the Go boundary.
// stdin: one JSON case per line; stdout: one JSON observation per line.
//
//	{"k":"func","params":["int64","string"],"ret":"int32","retv":P,"args":[V...]}
//	      a Go function of that signature is built with reflect.MakeFunc, registered with
//	      vm.RegisterFunction and called through node.NewCallExpression; the function records the
//	      arguments it received (dynamic kind + payload) and returns retv as a value of kind ret
//	{"k":"method","m":"I64","args":[V...],"retv":P}
//	      a method of the registered struct T (vm.RegisterReflectClass) called through
//	      node.NewObjectMethod on a fresh instance
//	{"k":"ctor","args":[V...]}                new C17K(args) (node.NewNewExpression): the reflected constructor stores
//	      the i-th argument into the i-th public field (S string, I int, I64 int64, F float64, B bool, N int8);
//	      "got" = the fields afterwards, recorded by the instance's method Dump
//	{"k":"generic","t":"int8","v":V}          utils.ConvertFromIndex[T](ctx, 0)
//	{"k":"f32","bits":[...]}                  oracle: float64 -> float32 -> float64 of each value
//	{"k":"conc","mode":"go"|"gomethod"|"spawn"|"spawnmethod","workers":W,"iters":N}
//	      CONCURRENT callers of ONE registered function (or one method of a registered struct): worker w
//	      calls triple(n, "s"+n, n+0.5) for n = w*1000000+i; the Go side checks that the three arguments of
//	      every call belong to one caller.  go/gomethod: W goroutines through node.NewCallExpression /
//	      node.NewObjectMethod, each with its own context; spawn/spawnmethod: a script that spawns W
//	      coroutines (vrun.RunStringSpawn).  Answer: {"out":"conc","calls":..,"want":..,"bad":..,"first":..,"failed":..}
//
// V (script value) = {"k":"null"} | {"k":"bool","b":..} | {"k":"int","i":".."} | {"k":"float","bits":".."}
//
//	| {"k":"str","s":".."} | {"k":"arr"}
//
// P (Go payload) = {"i":".."} (ints, decimal) | {"bits":".."} (floats, float64 bits) | {"s":".."} | {"b":..}
// Observation: {"out":"val"|"nil"|"throw"|"panic","v":V,"got":[{"kind":..,"p":P}...],"orc":{...}}
package main

import (
	"encoding/hex"
	"encoding/json"
	"fmt"
	"math"
	"os"
	"reflect"
	"strconv"
	"strings"
	"sync"
	"sync/atomic"
	"time"
	"unicode/utf8"

	"verif/harness/vrun"

	"github.com/php-any/origami/data"
	"github.com/php-any/origami/node"
	"github.com/php-any/origami/parser"
	"github.com/php-any/origami/runtime"
	"github.com/php-any/origami/utils"
)

type V struct {
	K    string `json:"k"`
	B    bool   `json:"b"`
	I    string `json:"i,omitempty"`
	Bits string `json:"bits,omitempty"`
	S    string `json:"s"`
	Hex  string `json:"hex,omitempty"` // raw bytes of a string that is not valid UTF-8
}
type P struct {
	I    string  `json:"i,omitempty"`
	Bits string  `json:"bits,omitempty"`
	S    *string `json:"s,omitempty"`
	Hex  string  `json:"hex,omitempty"`
	B    *bool   `json:"b,omitempty"`
}
type Got struct {
	Type string `json:"type"` // the dynamic TYPE (main.Name for a defined type), not only its kind
	Kind string `json:"kind"`
	P    P      `json:"p"`
}
type Case struct {
	Lits    []string `json:"lits"`   // sfunc: argument literals as script source text
	Expect  string   `json:"expect"` // sfunc: literal the result is compared with by ===
	Pre     string   `json:"pre"`    // sfunc: statements run before the call
	K       string   `json:"k"`
	Params  []string `json:"params"`
	Ret     string   `json:"ret"`
	Ret2    string   `json:"ret2"` // optional second result kind ("error" = a non-nil error, others = zero value)
	RetV    *P       `json:"retv"`
	Args    []V      `json:"args"`
	M       string   `json:"m"`
	T       string   `json:"t"`
	Val     *V       `json:"v"`
	Bits    []string `json:"bits"`
	Mode    string   `json:"mode"`
	Workers int      `json:"workers"`
	Iters   int      `json:"iters"`
}
type Oracle struct {
	PF  [][2]string `json:"pf"`
	FF  [][2]string `json:"ff"`
	FG  [][2]string `json:"fg"`
	F32 [][2]string `json:"f32"`
}
type Obs struct {
	Out string  `json:"out"`
	V   *V      `json:"v,omitempty"`
	Got []Got   `json:"got"`
	GV  *Got    `json:"gv,omitempty"`
	Msg string  `json:"msg,omitempty"`
	Orc *Oracle `json:"orc,omitempty"`
	// conc
	Calls  int64  `json:"calls,omitempty"`
	Want   int64  `json:"want,omitempty"`
	Bad    int64  `json:"bad,omitempty"`
	Failed int64  `json:"failed,omitempty"`
	First  string `json:"first,omitempty"`
}

var (
	vm   *runtime.VM
	ctx  data.Context
	from = node.NewTokenFrom(nil, 0, 0, 0, 0)
	seq  int
)

// defined (named) types: same kinds, different types — reflect.Call needs the exact type
type Name string
type Flag bool
type Celsius float64
type Level int
type Small int8
type Ratio float32

// defined types WITH methods (fmt.Stringer, error, encoding.TextMarshaler): a value of such a type
// still crosses the boundary by its underlying kind
type DurS int64
type MonthS int
type TempS float64
type NameS string
type FlagS bool
type ErrS string
type CodeE int
type TextM int
type SmallS uint8

func (d DurS) String() string   { return "dur:" + strconv.FormatInt(int64(d), 10) }
func (m MonthS) String() string { return "month:" + strconv.Itoa(int(m)) }
func (t TempS) String() string  { return strconv.FormatFloat(float64(t), 'f', 1, 64) + "°C" }
func (n NameS) String() string  { return "<" + string(n) + ">" }
func (f FlagS) String() string {
	if f {
		return "on"
	}
	return "off"
}
func (e ErrS) Error() string                 { return "err:" + string(e) }
func (c CodeE) Error() string                { return "code:" + strconv.Itoa(int(c)) }
func (t TextM) MarshalText() ([]byte, error) { return []byte("text:" + strconv.Itoa(int(t))), nil }
func (s SmallS) String() string              { return "small:" + strconv.Itoa(int(s)) }

var kinds = map[string]reflect.Type{
	"Name": reflect.TypeOf(Name("")), "Flag": reflect.TypeOf(Flag(false)), "Celsius": reflect.TypeOf(Celsius(0)),
	"Level": reflect.TypeOf(Level(0)), "Small": reflect.TypeOf(Small(0)), "Ratio": reflect.TypeOf(Ratio(0)),
	"DurS": reflect.TypeOf(DurS(0)), "MonthS": reflect.TypeOf(MonthS(0)), "TempS": reflect.TypeOf(TempS(0)),
	"NameS": reflect.TypeOf(NameS("")), "FlagS": reflect.TypeOf(FlagS(false)), "ErrS": reflect.TypeOf(ErrS("")),
	"CodeE": reflect.TypeOf(CodeE(0)), "TextM": reflect.TypeOf(TextM(0)), "SmallS": reflect.TypeOf(SmallS(0)),
	"Duration": reflect.TypeOf(time.Duration(0)), "Month": reflect.TypeOf(time.Month(0)),
	"string": reflect.TypeOf(""), "bool": reflect.TypeOf(true),
	"int": reflect.TypeOf(int(0)), "int8": reflect.TypeOf(int8(0)), "int16": reflect.TypeOf(int16(0)),
	"int32": reflect.TypeOf(int32(0)), "int64": reflect.TypeOf(int64(0)),
	"uint": reflect.TypeOf(uint(0)), "uint8": reflect.TypeOf(uint8(0)), "uint16": reflect.TypeOf(uint16(0)),
	"uint32": reflect.TypeOf(uint32(0)), "uint64": reflect.TypeOf(uint64(0)),
	"float32": reflect.TypeOf(float32(0)), "float64": reflect.TypeOf(float64(0)),
	"slice": reflect.TypeOf([]int{}), "map": reflect.TypeOf(map[string]int{}), "struct": reflect.TypeOf(struct{ A int }{}),
	"ptr": reflect.TypeOf((*int)(nil)), "iface": reflect.TypeOf((*interface{})(nil)).Elem(),
	"error": reflect.TypeOf((*error)(nil)).Elem(),
}

func bits(f float64) string { return strconv.FormatUint(math.Float64bits(f), 10) }

func mk(v V) data.Value {
	switch v.K {
	case "null":
		return data.NewNullValue()
	case "bool":
		return data.NewBoolValue(v.B)
	case "int":
		n, err := strconv.ParseInt(v.I, 10, 64)
		if err != nil {
			panic(err)
		}
		return data.NewIntValue(int(n))
	case "float":
		b, err := strconv.ParseUint(v.Bits, 10, 64)
		if err != nil {
			panic(err)
		}
		return data.NewFloatValue(math.Float64frombits(b))
	case "str":
		if v.Hex != "" {
			b, err := hex.DecodeString(v.Hex)
			if err != nil {
				panic(err)
			}
			return data.NewStringValue(string(b))
		}
		return data.NewStringValue(v.S)
	case "arr":
		return data.NewArrayValue([]data.Value{data.NewIntValue(1)})
	}
	panic("bad value kind " + v.K)
}

func unmk(g data.GetValue) *V {
	switch x := g.(type) {
	case *data.NullValue:
		return &V{K: "null"}
	case *data.BoolValue:
		return &V{K: "bool", B: x.Value}
	case *data.IntValue:
		return &V{K: "int", I: strconv.FormatInt(int64(x.Value), 10)}
	case *data.FloatValue:
		return &V{K: "float", Bits: bits(x.Value)}
	case *data.StringValue:
		if !utf8.ValidString(x.Value) {
			return &V{K: "str", Hex: hex.EncodeToString([]byte(x.Value))}
		}
		return &V{K: "str", S: x.Value}
	}
	return &V{K: "other", S: fmt.Sprintf("%T", g)}
}

// capture a Go value: its dynamic kind and payload
func capture(rv reflect.Value) Got {
	g := Got{Kind: rv.Kind().String(), Type: rv.Type().String()}
	switch rv.Kind() {
	case reflect.String:
		s := rv.String()
		if !utf8.ValidString(s) {
			g.P.Hex = hex.EncodeToString([]byte(s))
			s = ""
		}
		g.P.S = &s
	case reflect.Bool:
		b := rv.Bool()
		g.P.B = &b
	case reflect.Int, reflect.Int8, reflect.Int16, reflect.Int32, reflect.Int64:
		g.P.I = strconv.FormatInt(rv.Int(), 10)
	case reflect.Uint, reflect.Uint8, reflect.Uint16, reflect.Uint32, reflect.Uint64:
		g.P.I = strconv.FormatUint(rv.Uint(), 10)
	case reflect.Float32, reflect.Float64:
		g.P.Bits = bits(rv.Float())
	}
	return g
}

// a Go value of type t from a payload
func build(t reflect.Type, p *P) reflect.Value {
	rv := reflect.New(t).Elem()
	if p == nil {
		return rv
	}
	switch t.Kind() {
	case reflect.String:
		if p.Hex != "" {
			b, _ := hex.DecodeString(p.Hex)
			rv.SetString(string(b))
		} else if p.S != nil {
			rv.SetString(*p.S)
		}
	case reflect.Bool:
		if p.B != nil {
			rv.SetBool(*p.B)
		}
	case reflect.Int, reflect.Int8, reflect.Int16, reflect.Int32, reflect.Int64:
		n, _ := strconv.ParseInt(p.I, 10, 64)
		rv.SetInt(n)
	case reflect.Uint, reflect.Uint8, reflect.Uint16, reflect.Uint32, reflect.Uint64:
		n, _ := strconv.ParseUint(p.I, 10, 64)
		rv.SetUint(n)
	case reflect.Float32, reflect.Float64:
		b, _ := strconv.ParseUint(p.Bits, 10, 64)
		rv.SetFloat(math.Float64frombits(b))
	case reflect.Slice:
		rv.Set(reflect.ValueOf([]int{1, 2}))
	}
	return rv
}

func oracleFor(vs []V) *Oracle {
	o := &Oracle{PF: [][2]string{}, FF: [][2]string{}, FG: [][2]string{}, F32: [][2]string{{bits(0), bits(0)}}} // 0: a missing argument is a null slot
	for _, v := range vs {
		switch v.K {
		case "str":
			if v.Hex != "" {
				o.PF = append(o.PF, [2]string{"hex:" + v.Hex, ""})
				continue
			}
			f, err := strconv.ParseFloat(v.S, 64)
			if err != nil {
				o.PF = append(o.PF, [2]string{v.S, ""})
			} else {
				o.PF = append(o.PF, [2]string{v.S, bits(f)})
				o.F32 = append(o.F32, [2]string{bits(f), bits(float64(float32(f)))})
			}
		case "float":
			b, _ := strconv.ParseUint(v.Bits, 10, 64)
			f := math.Float64frombits(b)
			o.FF = append(o.FF, [2]string{v.Bits, strconv.FormatFloat(f, 'g', 14, 64)})
			o.FG = append(o.FG, [2]string{v.Bits, fmt.Sprintf("%g", f)})
			o.F32 = append(o.F32, [2]string{v.Bits, bits(float64(float32(f)))})
		case "int":
			n, _ := strconv.ParseInt(v.I, 10, 64)
			f := float64(n)
			o.F32 = append(o.F32, [2]string{bits(f), bits(float64(float32(f)))})
		case "null":
			o.F32 = append(o.F32, [2]string{bits(0), bits(0)})
		}
	}
	return o
}

func finish(g data.GetValue, c data.Control) Obs {
	if c != nil {
		if _, ok := c.(*data.ThrowValue); ok {
			return Obs{Out: "throw", Msg: c.AsString()}
		}
		return Obs{Out: "control", Msg: fmt.Sprintf("%T", c)}
	}
	if g == nil {
		return Obs{Out: "nil"}
	}
	return Obs{Out: "val", V: unmk(g)}
}

// T: the struct registered with RegisterReflectClass
type T struct{ log *[]Got }

var tlog []Got
var tret *P

func rec(vs ...interface{}) {
	for _, v := range vs {
		tlog = append(tlog, capture(reflect.ValueOf(v)))
	}
}
func (t *T) I64(a int64) int64   { rec(a); return build(kinds["int64"], tret).Interface().(int64) }
func (t *T) I32(a int32) int32   { rec(a); return build(kinds["int32"], tret).Interface().(int32) }
func (t *T) I8(a int8) int8      { rec(a); return build(kinds["int8"], tret).Interface().(int8) }
func (t *T) U8(a uint8) uint8    { rec(a); return build(kinds["uint8"], tret).Interface().(uint8) }
func (t *T) U64(a uint64) uint64 { rec(a); return build(kinds["uint64"], tret).Interface().(uint64) }
func (t *T) Int(a int) int       { rec(a); return build(kinds["int"], tret).Interface().(int) }
func (t *T) F32(a float32) float32 {
	rec(a)
	return build(kinds["float32"], tret).Interface().(float32)
}
func (t *T) F64(a float64) float64 {
	rec(a)
	return build(kinds["float64"], tret).Interface().(float64)
}
func (t *T) Str(a string) string { rec(a); return build(kinds["string"], tret).Interface().(string) }
func (t *T) B(a bool) bool       { rec(a); return build(kinds["bool"], tret).Interface().(bool) }
func (t *T) Mix(a int, b float64, c string) string {
	rec(a, b, c)
	return build(kinds["string"], tret).Interface().(string)
}
func (t *T) None() { rec() }

// methods whose parameter / result is a defined type with a String() method
func (t *T) RetDur(a int64) DurS { rec(a); return build(kinds["DurS"], tret).Interface().(DurS) }
func (t *T) RetMonth(a int) time.Month {
	rec(a)
	return build(kinds["Month"], tret).Interface().(time.Month)
}
func (t *T) RetNameS(a string) NameS { rec(a); return build(kinds["NameS"], tret).Interface().(NameS) }
func (t *T) RetTempS(a float64) TempS {
	rec(a)
	return build(kinds["TempS"], tret).Interface().(TempS)
}
func (t *T) TakeDur(a DurS) int64 { rec(a); return build(kinds["int64"], tret).Interface().(int64) }

// methods with two and three parameters of different kinds (position matrix on the method path)
func (t *T) IS(a int, b string) string {
	rec(a, b)
	return build(kinds["string"], tret).Interface().(string)
}
func (t *T) SI(a string, b int) int { rec(a, b); return build(kinds["int"], tret).Interface().(int) }
func (t *T) II(a int, b int) int    { rec(a, b); return build(kinds["int"], tret).Interface().(int) }
func (t *T) SS(a string, b string) bool {
	rec(a, b)
	return build(kinds["bool"], tret).Interface().(bool)
}
func (t *T) FF(a float64, b float64) float64 {
	rec(a, b)
	return build(kinds["float64"], tret).Interface().(float64)
}
func (t *T) BI(a bool, b int) bool { rec(a, b); return build(kinds["bool"], tret).Interface().(bool) }
func (t *T) SIF(a string, b int, c float64) int {
	rec(a, b, c)
	return build(kinds["int"], tret).Interface().(int)
}
func (t *T) III(a int, b int, c int) int {
	rec(a, b, c)
	return build(kinds["int"], tret).Interface().(int)
}
func (t *T) I8U8(a int8, b uint8) int8 {
	rec(a, b)
	return build(kinds["int8"], tret).Interface().(int8)
}

// ---- the reflected constructor: new C17K(a0, a1, ..) stores the i-th argument into the i-th public field
type K struct {
	S   string
	I   int
	I64 int64
	F   float64
	B   bool
}

// Dump records the fields as this instance holds them
func (k *K) Dump() { rec(k.S, k.I, k.I64, k.F, k.B) }

// K6: the same with a field of a kind the constructor cannot set
type K6 struct {
	S   string
	I   int
	I64 int64
	F   float64
	B   bool
	N   int8
}

func (k *K6) Dump() { rec(k.S, k.I, k.I64, k.F, k.B, k.N) }

// ---- concurrent callers
var (
	cCalls, cBad atomic.Int64
	cFirst       atomic.Value
)

// the Go function every concurrent caller calls: its three arguments must come from ONE call
func triple(a int, s string, f float64) bool {
	cCalls.Add(1)
	ok := s == "s"+strconv.Itoa(a) && f == float64(a)+0.5
	if !ok && cBad.Add(1) == 1 {
		cFirst.Store("triple(" + strconv.Itoa(a) + ", " + strconv.Quote(s) + ", " + strconv.FormatFloat(f, 'g', -1, 64) + ")")
	}
	return ok
}

type TC struct{}

func (t *TC) Triple(a int, s string, f float64) bool { return triple(a, s, f) }

func runConc(c Case) Obs {
	cCalls.Store(0)
	cBad.Store(0)
	cFirst.Store("")
	var failed atomic.Int64
	want := int64(c.Workers) * int64(c.Iters)
	switch c.Mode {
	case "go", "gomethod":
		stmt, ok := vm.GetFunc("c17triple")
		if !ok {
			return Obs{Out: "panic", Msg: "c17triple not registered"}
		}
		cls, ok := vm.GetClass("C17TC")
		if !ok {
			return Obs{Out: "panic", Msg: "C17TC not registered"}
		}
		var wg sync.WaitGroup
		for w := 0; w < c.Workers; w++ {
			wg.Add(1)
			go func(w int) {
				defer wg.Done()
				defer func() {
					if r := recover(); r != nil {
						failed.Add(1)
					}
				}()
				wctx := vm.CreateContext(nil)
				var inst data.GetValue
				if c.Mode == "gomethod" {
					g, ctl := cls.(data.GetValue).GetValue(wctx)
					if ctl != nil {
						failed.Add(1)
						return
					}
					inst = g
				}
				for i := 0; i < c.Iters; i++ {
					n := w*1000000 + i
					args := []data.GetValue{data.NewIntValue(n), data.NewStringValue("s" + strconv.Itoa(n)), data.NewFloatValue(float64(n) + 0.5)}
					var g data.GetValue
					var ctl data.Control
					if c.Mode == "go" {
						g, ctl = node.NewCallExpression(from, "c17triple", args, stmt).GetValue(wctx)
					} else {
						g, ctl = node.NewObjectMethod(from, inst, "Triple", args).GetValue(wctx)
					}
					if b, ok := g.(*data.BoolValue); ctl != nil || !ok || !b.Value {
						failed.Add(1)
					}
				}
			}(w)
		}
		wg.Wait()
	case "spawn", "spawnmethod":
		var wg sync.WaitGroup
		wg.Add(c.Workers)
		call := "c17triple($n, \"s\" . $n, $n + 0.5)"
		pre := ""
		if c.Mode == "spawnmethod" {
			call = "$t->Triple($n, \"s\" . $n, $n + 0.5)"
			pre = "$t = new C17TC();\n"
		}
		src := "for ($w = 0; $w < " + strconv.Itoa(c.Workers) + "; $w++) {\n  $base = $w * 1000000;\n  spawn(function() use ($base) {\n    " + pre +
			"    for ($i = 0; $i < " + strconv.Itoa(c.Iters) + "; $i++) {\n      $n = $base + $i;\n      if (" + call + " !== true) { c17fail(); }\n    }\n    c17done();\n  });\n}\n"
		res := vrun.RunStringSpawn(src, "c17conc.zy", func(v data.VM) {
			rv := v.(*runtime.VM)
			rv.RegisterFunction("c17triple", triple)
			rv.RegisterFunction("c17done", func() { wg.Done() })
			rv.RegisterFunction("c17fail", func() { failed.Add(1) })
			rv.RegisterReflectClass("C17TC", &TC{})
		})
		if res.Outcome != "ok" {
			return Obs{Out: "panic", Msg: "spawn script: " + res.Outcome + " " + res.Detail}
		}
		fin := make(chan struct{})
		go func() { wg.Wait(); close(fin) }()
		select {
		case <-fin:
		case <-time.After(120 * time.Second):
			return Obs{Out: "panic", Msg: "spawned workers did not finish", Calls: cCalls.Load(), Want: want}
		}
	default:
		return Obs{Out: "panic", Msg: "bad conc mode"}
	}
	first, _ := cFirst.Load().(string)
	return Obs{Out: "conc", Calls: cCalls.Load(), Want: want, Bad: cBad.Load(), Failed: failed.Load(), First: first}
}

// c17_ok: native function receiving the result of `f(...) === literal`
var (
	okSeen, okVal bool
	uncaught      int
	sparser       *parser.Parser
)

type okFn struct{}

func (okFn) Call(c data.Context) (data.GetValue, data.Control) {
	v, _ := c.GetIndexValue(0)
	okSeen = true
	if b, ok := v.(*data.BoolValue); ok {
		okVal = b.Value
	}
	return nil, nil
}
func (okFn) GetName() string { return "c17_ok" }
func (okFn) GetParams() []data.GetValue {
	return []data.GetValue{node.NewParameter(nil, "v", 0, nil, nil)}
}
func (okFn) GetVariables() []data.Variable {
	return []data.Variable{node.NewVariable(nil, "v", 0, data.NewBaseType("mixed"))}
}

func generic(t string, c data.Context) (interface{}, error) {
	switch t {
	case "string":
		return utils.ConvertFromIndex[string](c, 0)
	case "bool":
		return utils.ConvertFromIndex[bool](c, 0)
	case "int":
		return utils.ConvertFromIndex[int](c, 0)
	case "int8":
		return utils.ConvertFromIndex[int8](c, 0)
	case "int16":
		return utils.ConvertFromIndex[int16](c, 0)
	case "int32":
		return utils.ConvertFromIndex[int32](c, 0)
	case "int64":
		return utils.ConvertFromIndex[int64](c, 0)
	case "uint":
		return utils.ConvertFromIndex[uint](c, 0)
	case "uint8":
		return utils.ConvertFromIndex[uint8](c, 0)
	case "uint16":
		return utils.ConvertFromIndex[uint16](c, 0)
	case "uint32":
		return utils.ConvertFromIndex[uint32](c, 0)
	case "uint64":
		return utils.ConvertFromIndex[uint64](c, 0)
	case "float32":
		return utils.ConvertFromIndex[float32](c, 0)
	case "float64":
		return utils.ConvertFromIndex[float64](c, 0)
	}
	return nil, fmt.Errorf("bad type %s", t)
}

func runCase(c Case) (o Obs) {
	var got []Got
	defer func() {
		if r := recover(); r != nil {
			o = Obs{Out: "panic", Msg: fmt.Sprint(r), Got: got, Orc: oracleFor(c.Args)}
		}
	}()
	switch c.K {
	case "func":
		in := make([]reflect.Type, len(c.Params))
		for i, p := range c.Params {
			in[i] = kinds[p]
		}
		var out []reflect.Type
		if c.Ret != "" {
			out = []reflect.Type{kinds[c.Ret]}
			if c.Ret2 != "" {
				out = append(out, kinds[c.Ret2])
			}
		}
		fn := reflect.MakeFunc(reflect.FuncOf(in, out, false), func(args []reflect.Value) []reflect.Value {
			for _, a := range args {
				got = append(got, capture(a))
			}
			if c.Ret == "" {
				return nil
			}
			res := []reflect.Value{build(kinds[c.Ret], c.RetV)}
			if c.Ret2 == "error" {
				ev := reflect.New(kinds["error"]).Elem()
				ev.Set(reflect.ValueOf(fmt.Errorf("second result")))
				res = append(res, ev)
			} else if c.Ret2 != "" {
				res = append(res, reflect.New(kinds[c.Ret2]).Elem())
			}
			return res
		})
		seq++
		name := "c17f" + strconv.Itoa(seq)
		if ctl := vm.RegisterFunction(name, fn.Interface()); ctl != nil {
			return Obs{Out: "panic", Msg: "register: " + ctl.AsString()}
		}
		stmt, ok := vm.GetFunc(name)
		if !ok {
			return Obs{Out: "panic", Msg: "registered function not found"}
		}
		args := make([]data.GetValue, len(c.Args))
		for i, a := range c.Args {
			args[i] = mk(a)
		}
		res := finish(node.NewCallExpression(from, name, args, stmt).GetValue(ctx))
		res.Got = got
		res.Orc = oracleFor(c.Args)
		return res
	case "sfunc":
		// the call written as SCRIPT text: c17_ok(c17fN(<literals>) === <literal>);  (lexer, parser, call node)
		in := make([]reflect.Type, len(c.Params))
		for i, p := range c.Params {
			in[i] = kinds[p]
		}
		var out []reflect.Type
		if c.Ret != "" {
			out = []reflect.Type{kinds[c.Ret]}
		}
		fn := reflect.MakeFunc(reflect.FuncOf(in, out, false), func(args []reflect.Value) []reflect.Value {
			for _, a := range args {
				got = append(got, capture(a))
			}
			if c.Ret == "" {
				return nil
			}
			return []reflect.Value{build(kinds[c.Ret], c.RetV)}
		})
		seq++
		name := "c17s" + strconv.Itoa(seq)
		if ctl := vm.RegisterFunction(name, fn.Interface()); ctl != nil {
			return Obs{Out: "panic", Msg: "register: " + ctl.AsString()}
		}
		okSeen, okVal = false, false
		uncaught = 0
		// "pre": statements run first (e.g. `$x = 0.0; $x = -0.0;`: the argument is then the variable $x,
		// which has a history)
		src := c.Pre + "c17_ok(" + name + "(" + strings.Join(c.Lits, ", ") + ") === " + c.Expect + ");\n"
		prog, acl := sparser.ParseString(src, "c17s.zy")
		if acl != nil {
			return Obs{Out: "panic", Msg: "parse: " + acl.AsString()}
		}
		sc := vm.CreateContext(sparser.GetVariables())
		_, ctl := prog.GetValue(sc)
		res := Obs{Got: got, Orc: oracleFor(c.Args)}
		switch {
		case ctl != nil || uncaught > 0:
			res.Out = "throw"
		case okSeen && okVal:
			res.Out = "same"
		case okSeen:
			res.Out = "different"
		default:
			res.Out = "panic"
			res.Msg = "c17_ok not reached"
		}
		return res
	case "method":
		cls, ok := vm.GetClass("C17T")
		if !ok {
			return Obs{Out: "panic", Msg: "class not registered"}
		}
		inst, ctl := cls.(data.GetValue).GetValue(ctx)
		if ctl != nil {
			return Obs{Out: "panic", Msg: "instance: " + ctl.AsString()}
		}
		tlog = nil
		tret = c.RetV
		args := make([]data.GetValue, len(c.Args))
		for i, a := range c.Args {
			args[i] = mk(a)
		}
		g, ctl2 := node.NewObjectMethod(from, inst, c.M, args).GetValue(ctx)
		got = tlog
		res := finish(g, ctl2)
		res.Got = tlog
		res.Orc = oracleFor(c.Args)
		return res
	case "ctor":
		args := make([]data.GetValue, len(c.Args))
		for i, a := range c.Args {
			args[i] = mk(a)
		}
		tlog = nil
		cls := "C17K"
		if c.M == "K6" {
			cls = "C17K6"
		}
		inst, ctl := node.NewNewExpression(from, cls, args).GetValue(ctx)
		res := Obs{Orc: oracleFor(c.Args)}
		if ctl != nil {
			r := finish(inst, ctl)
			res.Out, res.Msg = r.Out, r.Msg
			return res
		}
		if _, ctl2 := node.NewObjectMethod(from, inst, "Dump", nil).GetValue(ctx); ctl2 != nil {
			return Obs{Out: "panic", Msg: "Dump: " + ctl2.AsString()}
		}
		res.Out = "nil"
		res.Got = tlog
		return res
	case "conc":
		return runConc(c)
	case "generic":
		vars := []data.Variable{node.NewVariable(nil, "a", 0, nil)}
		fc := ctx.CreateContext(vars)
		fc.SetVariableValue(vars[0], mk(*c.Val))
		r, err := generic(c.T, fc)
		res := Obs{Orc: oracleFor([]V{*c.Val})}
		if err != nil {
			res.Out = "throw"
			res.Msg = err.Error()
			return res
		}
		g := capture(reflect.ValueOf(r))
		res.Out = "go"
		res.GV = &g
		return res
	}
	return Obs{Out: "panic", Msg: "bad case kind"}
}

func main() {
	v, ps := vrun.NewVM()
	vm = v
	ctx = vm.CreateContext(ps.GetVariables())
	sparser = ps
	vm.SetThrowControl(func(acl data.Control) { uncaught++ })
	if ctl := vm.AddFunc(okFn{}); ctl != nil {
		fmt.Fprintln(os.Stderr, "setup c17_ok:", ctl.AsString())
		os.Exit(2)
	}
	if ctl := vm.RegisterReflectClass("C17T", &T{}); ctl != nil {
		fmt.Fprintln(os.Stderr, "register class:", ctl.AsString())
		os.Exit(2)
	}
	if ctl := vm.RegisterFunction("c17triple", triple); ctl != nil {
		fmt.Fprintln(os.Stderr, "register c17triple:", ctl.AsString())
		os.Exit(2)
	}
	if ctl := vm.RegisterReflectClass("C17K6", &K6{}); ctl != nil {
		fmt.Fprintln(os.Stderr, "register class C17K6:", ctl.AsString())
		os.Exit(2)
	}
	if ctl := vm.RegisterReflectClass("C17K", &K{}); ctl != nil {
		fmt.Fprintln(os.Stderr, "register class C17K:", ctl.AsString())
		os.Exit(2)
	}
	if ctl := vm.RegisterReflectClass("C17TC", &TC{}); ctl != nil {
		fmt.Fprintln(os.Stderr, "register class C17TC:", ctl.AsString())
		os.Exit(2)
	}
	w := json.NewEncoder(os.Stdout)
	vrun.Lines(func(line string) {
		if strings.TrimSpace(line) == "" {
			return
		}
		var c Case
		if err := json.Unmarshal([]byte(line), &c); err != nil {
			w.Encode(Obs{Out: "panic", Msg: "bad json: " + err.Error()})
			return
		}
		w.Encode(runCase(c))
	})
}
