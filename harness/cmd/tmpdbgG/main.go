package main

import (
	"fmt"
	"os"
	"reflect"

	"verif/harness/vrun"

	"github.com/php-any/origami/cmd/compile"
	"github.com/php-any/origami/data"
)

func main() {
	_, p := vrun.NewVM()
	prog, acl := p.ParseString(os.Args[1], "dbg.php")
	if acl != nil {
		fmt.Println("parse:", acl.AsString())
		return
	}
	st := reflect.ValueOf(prog).Elem().FieldByName("Statements")
	for i := 0; i < st.Len(); i++ {
		n := st.Index(i).Interface().(data.GetValue)
		walk(reflect.ValueOf(n), 0)
	}
}

func walk(rv reflect.Value, d int) {
	if !rv.IsValid() || d > 12 {
		return
	}
	if rv.Kind() == reflect.Interface {
		if rv.IsNil() {
			return
		}
		rv = rv.Elem()
	}
	if rv.Kind() == reflect.Ptr && !rv.IsNil() && rv.Elem().Kind() == reflect.Struct {
		if gv, ok := rv.Interface().(data.GetValue); ok {
			_, err := compile.VerifEmit(gv, "dbg.php", "")
			fmt.Printf("%*s%T err=%v\n", d*2, "", gv, err != nil)
			if err != nil && d >= 3 {
				fmt.Println(err)
			}
		}
		e := rv.Elem()
		for i := 0; i < e.NumField(); i++ {
			if e.Field(i).CanInterface() {
				walk(e.Field(i), d+1)
			}
		}
	}
	if rv.Kind() == reflect.Slice {
		for i := 0; i < rv.Len(); i++ {
			walk(rv.Index(i), d+1)
		}
	}
}
