package main

import (
	"encoding/hex"
	"encoding/json"
	"errors"
	"fmt"
	"strconv"
	"strings"

	"verif/harness/vrun"

	"github.com/php-any/origami/data"
	opw "github.com/php-any/origami/std/protowire"
	pw "google.golang.org/protobuf/encoding/protowire"
)

// ---------------------------------------------------------------- parse

func errClass(err error) string {
	switch {
	case errors.Is(err, opw.ErrMaxDepth):
		return "maxdepth"
	case errors.Is(err, opw.ErrInvalidTag):
		return "tag"
	case errors.Is(err, opw.ErrInvalidVarint):
		return "varint"
	case errors.Is(err, opw.ErrInvalidFixed64):
		return "fixed64"
	case errors.Is(err, opw.ErrInvalidFixed32):
		return "fixed32"
	case errors.Is(err, opw.ErrInvalidLength):
		return "length"
	case errors.Is(err, opw.ErrUnexpectedEndGroup):
		return "endgroup"
	case errors.Is(err, opw.ErrUnexpectedEnd):
		return "end"
	}
	return "other"
}

func u64s(vs []uint64) []string {
	r := make([]string, len(vs))
	for i, v := range vs {
		r[i] = strconv.FormatUint(v, 10)
	}
	return r
}

// field tree as JSON: {"n":num,"t":kind,"v":...}
func fieldsJSON(fs []opw.Field) []any {
	out := make([]any, 0, len(fs))
	for _, f := range fs {
		m := map[string]any{"n": f.Number, "w": f.WireType}
		switch v := f.Value.(type) {
		case uint64:
			if f.WireType == opw.WireVarint {
				m["t"] = "varint"
			} else {
				m["t"] = "fixed64"
			}
			m["v"] = strconv.FormatUint(v, 10)
		case uint32:
			m["t"] = "fixed32"
			m["v"] = strconv.FormatUint(uint64(v), 10)
		case []byte:
			m["t"] = "bytes"
			m["v"] = hex.EncodeToString(v)
		case []opw.Field:
			if f.WireType == opw.WireStartGroup {
				m["t"] = "group"
			} else {
				m["t"] = "msg"
			}
			m["v"] = fieldsJSON(v)
		case []uint64:
			m["t"] = "packed64"
			m["v"] = u64s(v)
		case []uint32:
			m["t"] = "packed32"
			r := make([]string, len(v))
			for i, x := range v {
				r[i] = strconv.FormatUint(uint64(x), 10)
			}
			m["v"] = r
		default:
			m["t"] = fmt.Sprintf("go:%T", f.Value)
		}
		out = append(out, m)
	}
	return out
}

func mkOpts(c *Case) *opw.ParseOptions {
	o := &opw.ParseOptions{MaxDepth: c.Max}
	if len(c.Msg) > 0 {
		o.MessageFields = map[int32]bool{}
		for _, n := range c.Msg {
			o.MessageFields[n] = true
		}
	}
	if len(c.Packed) > 0 || len(c.PackNo) > 0 {
		o.PackedFields = map[int32]bool{}
		o.PackedElementType = map[int32]int32{}
		for k, et := range c.Packed {
			n, _ := strconv.Atoi(k)
			o.PackedFields[int32(n)] = true
			o.PackedElementType[int32(n)] = et
		}
		for _, n := range c.PackNo {
			o.PackedFields[n] = true
		}
	}
	return o
}

// reference acceptance through google protowire primitives: every byte belongs to a field, groups
// are closed by their own end tag, configured message fields and packed payloads are well-formed
// recursively, and the number of message/group levels (top level = 1) is at most max.
// result: "ok" | "maxdepth" | "bad"
func refWalk(b []byte, o *opw.ParseOptions, level, max int) string {
	if level > max {
		return "maxdepth"
	}
	for len(b) > 0 {
		num, typ, n := pw.ConsumeTag(b)
		if n < 0 {
			return "bad"
		}
		b = b[n:]
		switch typ {
		case pw.VarintType:
			_, n = pw.ConsumeVarint(b)
		case pw.Fixed32Type:
			_, n = pw.ConsumeFixed32(b)
		case pw.Fixed64Type:
			_, n = pw.ConsumeFixed64(b)
		case pw.BytesType:
			var p []byte
			p, n = pw.ConsumeBytes(b)
			if n < 0 {
				return "bad"
			}
			if o.PackedFields[int32(num)] {
				et, ok := o.PackedElementType[int32(num)]
				if !ok || (et != 0 && et != 5 && et != 1) {
					return "bad"
				}
				for len(p) > 0 {
					k := -1
					switch et {
					case 0:
						_, k = pw.ConsumeVarint(p)
					case 5:
						_, k = pw.ConsumeFixed32(p)
					case 1:
						_, k = pw.ConsumeFixed64(p)
					}
					if k < 0 {
						return "bad"
					}
					p = p[k:]
				}
			} else if o.MessageFields[int32(num)] {
				if r := refWalk(p, o, level+1, max); r != "ok" {
					return r
				}
			}
		case pw.StartGroupType:
			// find the matching end with the library, then walk the body one level deeper
			var body []byte
			if level+1 > max {
				return "maxdepth"
			}
			body, n = pw.ConsumeGroup(num, b)
			if n < 0 {
				return "bad"
			}
			if r := refWalk(body, o, level+1, max); r != "ok" {
				return r
			}
		default:
			return "bad"
		}
		if n < 0 {
			return "bad"
		}
		b = b[n:]
	}
	return "ok"
}

func wireParse(c *Case) map[string]any {
	b, err := hex.DecodeString(c.Hex)
	if err != nil {
		return map[string]any{"harness_error": err.Error()}
	}
	o := mkOpts(c)
	fs, perr := opw.ParseRawFields(b, o)
	out := map[string]any{}
	if perr != nil {
		out["err"] = errClass(perr)
	} else {
		out["fields"] = fieldsJSON(fs)
	}
	max := c.Max
	if max <= 0 {
		max = 64
	}
	out["ref"] = refWalk(b, mkOpts(c), 1, max)
	return out
}

// ---------------------------------------------------------------- primitive encoders (script methods)

func callMethod(m data.Method, args ...data.Value) (data.Value, string) {
	vm, _ := vrun.NewVM()
	vars := m.GetVariables()
	ctx := vm.CreateContext(vars)
	for i, a := range args {
		if i < len(vars) && a != nil {
			if ctl := ctx.SetVariableValue(vars[i], a); ctl != nil {
				return nil, "bind: " + ctl.AsString()
			}
		}
	}
	r, ctl := m.Call(ctx)
	if ctl != nil {
		return nil, "throw: " + ctl.AsString()
	}
	if r == nil {
		return nil, ""
	}
	v, _ := r.(data.Value)
	return v, ""
}

func numArg(dec string, as string) data.Value {
	if as == "str" {
		return data.NewStringValue(dec)
	}
	u, _ := strconv.ParseUint(dec, 10, 64)
	return data.NewIntValue(int(u)) // two's complement: PHP int carrying the same 64 bits
}

func wirePrim(c *Case) map[string]any {
	var dec string
	_ = json.Unmarshal(c.V, &dec)
	as := c.Extra["as"]
	u, _ := strconv.ParseUint(dec, 10, 64)
	var v data.Value
	var e string
	var ref []byte
	switch c.Op {
	case "varint":
		v, e = callMethod(opw.NewEncodeVarintMethod(), numArg(dec, as))
		ref = pw.AppendVarint(nil, u)
	case "fixed32":
		v, e = callMethod(opw.NewEncodeFixed32Method(), numArg(dec, as))
		ref = pw.AppendFixed32(nil, uint32(u))
	case "fixed64":
		v, e = callMethod(opw.NewEncodeFixed64Method(), numArg(dec, as))
		ref = pw.AppendFixed64(nil, u)
	case "tag":
		v, e = callMethod(opw.NewEncodeTagMethod(), numArg(dec, as), data.NewIntValue(c.W))
		ref = pw.AppendTag(nil, pw.Number(u), pw.Type(c.W))
	case "bytes":
		b, _ := hex.DecodeString(c.Hex)
		v, e = callMethod(opw.NewEncodeBytesMethod(), data.NewStringValue(string(b)))
		ref = pw.AppendBytes(nil, b)
	default:
		return map[string]any{"harness_error": "op " + c.Op}
	}
	out := map[string]any{"ref": hex.EncodeToString(ref)}
	if e != "" {
		out["err"] = e
		return out
	}
	if v == nil {
		out["err"] = "nil"
		return out
	}
	out["out"] = hex.EncodeToString([]byte(v.AsString()))
	return out
}

// ---------------------------------------------------------------- script level: serialize + parse

type tnode struct {
	N int32           `json:"n"`
	T string          `json:"t"`
	V json.RawMessage `json:"v"`
}

// emits class declarations for one message node; returns the class name
func genClass(sb *strings.Builder, cnt *int, fs []tnode) (string, string) {
	// returns (class name, constructor statements building `new C` into a variable expression)
	*cnt++
	name := fmt.Sprintf("M%d", *cnt)
	var body strings.Builder
	var init strings.Builder
	for i, f := range fs {
		prop := fmt.Sprintf("p%d", i)
		switch f.T {
		case "varint", "fixed64", "fixed32":
			var dec string
			_ = json.Unmarshal(f.V, &dec)
			wt := map[string]int{"varint": 0, "fixed64": 1, "fixed32": 5}[f.T]
			fmt.Fprintf(&body, "  #[Field(number: %d, type: %d)]\n  public $%s;\n", f.N, wt, prop)
			u, _ := strconv.ParseUint(dec, 10, 64)
			if u > 1<<63-1 {
				fmt.Fprintf(&init, "$o->%s = \"%s\";\n", prop, dec)
			} else {
				fmt.Fprintf(&init, "$o->%s = %s;\n", prop, dec)
			}
		case "bytes":
			var hx string
			_ = json.Unmarshal(f.V, &hx)
			b, _ := hex.DecodeString(hx)
			fmt.Fprintf(&body, "  #[Field(number: %d, type: 2)]\n  public $%s;\n", f.N, prop)
			fmt.Fprintf(&init, "$o->%s = %s;\n", prop, phpStr(b))
		case "packed64":
			var vs []string
			_ = json.Unmarshal(f.V, &vs)
			fmt.Fprintf(&body, "  #[Field(number: %d, type: 2, encoding: \"packed\")]\n  public $%s;\n", f.N, prop)
			fmt.Fprintf(&init, "$o->%s = [%s];\n", prop, strings.Join(vs, ", "))
		case "msg", "group":
			var sub []tnode
			_ = json.Unmarshal(f.V, &sub)
			cn, ci := genClass(sb, cnt, sub)
			if f.T == "msg" {
				fmt.Fprintf(&body, "  #[Field(number: %d, type: 2, encoding: \"message\")]\n  public $%s;\n", f.N, prop)
			} else {
				fmt.Fprintf(&body, "  #[Field(number: %d, type: 3)]\n  public $%s;\n", f.N, prop)
			}
			fmt.Fprintf(&init, "$o->%s = mk%s();\n", prop, cn)
			_ = ci
		}
	}
	fmt.Fprintf(sb, "class %s {\n%s}\nfunction mk%s() {\n$o = new %s();\n%sreturn $o;\n}\n", name, body.String(), name, name, init.String())
	return name, ""
}

// only printable ASCII without quote/backslash/dollar is generated for script-level byte strings
func phpStr(b []byte) string {
	return "'" + string(b) + "'"
}

func wireScript(c *Case) map[string]any {
	var fs []tnode
	if err := json.Unmarshal(c.Tree, &fs); err != nil {
		return map[string]any{"harness_error": err.Error()}
	}
	var sb strings.Builder
	sb.WriteString("<?php\nuse Protowire\\Annotation\\Field;\n")
	cnt := 0
	top, _ := genClass(&sb, &cnt, fs)
	fmt.Fprintf(&sb, "echo bin2hex(Protowire::serialize(mk%s()));\n", top)
	res := vrun.RunString(sb.String(), "c14wire.php")
	if res.Outcome != "ok" {
		return map[string]any{"err": res.Outcome + ": " + res.Detail, "src": sb.String()}
	}
	return map[string]any{"out": strings.TrimSpace(res.Out)}
}

// ---------------------------------------------------------------- Protowire::parse through the method object
// the same input as wire.parse, given to ParseMethod.Call as PHP values (string + options array);
// the PHP result (array of objects number / wire_type / value) is walked back into the field JSON.
func namedArr(pairs ...any) *data.ArrayValue {
	a := &data.ArrayValue{}
	for i := 0; i+1 < len(pairs); i += 2 {
		z := data.NewZVal(pairs[i+1].(data.Value))
		z.Name = pairs[i].(string)
		a.List = append(a.List, z)
	}
	return a
}

func phpFields(v data.Value, packed map[string]int32) (any, bool) {
	arr, ok := v.(*data.ArrayValue)
	if !ok {
		return nil, false
	}
	out := make([]any, 0, len(arr.List))
	for _, z := range arr.List {
		obj, ok := z.Value.(*data.ObjectValue)
		if !ok {
			return nil, false
		}
		numV, _ := obj.GetProperty("number")
		wtV, _ := obj.GetProperty("wire_type")
		val, _ := obj.GetProperty("value")
		num, _ := numV.(data.AsInt).AsInt()
		wt, _ := wtV.(data.AsInt).AsInt()
		m := map[string]any{"n": num, "w": wt}
		switch tv := val.(type) {
		case *data.IntValue:
			u := strconv.FormatUint(uint64(tv.Value), 10)
			switch wt {
			case 0:
				m["t"] = "varint"
			case 1:
				m["t"] = "fixed64"
			default:
				m["t"] = "fixed32"
			}
			m["v"] = u
		case *data.StringValue:
			m["t"] = "bytes"
			m["v"] = hex.EncodeToString([]byte(tv.Value))
		case *data.ArrayValue:
			if wt == 3 {
				sub, ok := phpFields(tv, packed)
				if !ok {
					return nil, false
				}
				m["t"] = "group"
				m["v"] = sub
			} else if _, isPacked := packed[strconv.Itoa(num)]; isPacked {
				vs := make([]string, 0, len(tv.List))
				for _, e := range tv.List {
					iv, ok := e.Value.(*data.IntValue)
					if !ok {
						return nil, false
					}
					vs = append(vs, strconv.FormatUint(uint64(iv.Value), 10))
				}
				if packed[strconv.Itoa(num)] == 5 {
					m["t"] = "packed32"
				} else {
					m["t"] = "packed64"
				}
				m["v"] = vs
			} else {
				sub, ok := phpFields(tv, packed)
				if !ok {
					return nil, false
				}
				m["t"] = "msg"
				m["v"] = sub
			}
		default:
			m["t"] = fmt.Sprintf("php:%T", val)
		}
		out = append(out, m)
	}
	return out, true
}

func wireParseScript(c *Case) map[string]any {
	b, err := hex.DecodeString(c.Hex)
	if err != nil {
		return map[string]any{"harness_error": err.Error()}
	}
	msg := &data.ArrayValue{}
	for _, n := range c.Msg {
		z := data.NewZVal(data.NewBoolValue(true))
		z.Name = strconv.Itoa(int(n))
		msg.List = append(msg.List, z)
	}
	pf := &data.ArrayValue{}
	pe := &data.ArrayValue{}
	for k, et := range c.Packed {
		z := data.NewZVal(data.NewBoolValue(true))
		z.Name = k
		pf.List = append(pf.List, z)
		y := data.NewZVal(data.NewIntValue(int(et)))
		y.Name = k
		pe.List = append(pe.List, y)
	}
	opts := namedArr("message_fields", msg, "packed_fields", pf, "packed_element_type", pe, "max_depth", data.NewIntValue(c.Max))
	m := opw.NewParseMethod()
	vm, _ := vrun.NewVM()
	vars := m.GetVariables()
	ctx := vm.CreateContext(vars)
	ctx.SetVariableValue(vars[0], data.NewStringValue(string(b)))
	// a case without hints calls Protowire::parse($data) with no second argument, or with an empty
	// array when extra.empty_opts is set: what such a call returns must not depend on earlier calls
	if len(c.Msg) == 0 && len(c.Packed) == 0 && c.Max == 0 {
		if c.Extra["empty_opts"] != "" {
			ctx.SetVariableValue(vars[1], &data.ArrayValue{})
		}
	} else {
		// SetVariableValue clones arrays; the options array is bound as is
		ctx.SetVariableValue(vars[1], opts)
	}
	r, ctl := m.Call(ctx)
	if ctl != nil {
		return map[string]any{"throw": true}
	}
	v, _ := r.(data.Value)
	fs, ok := phpFields(v, c.Packed)
	if !ok {
		return map[string]any{"shape": fmt.Sprintf("%T", v)}
	}
	return map[string]any{"fields": fs}
}
