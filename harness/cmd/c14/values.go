package main

import (
	"encoding/hex"
	"encoding/json"
	"math"
	"strconv"

	"github.com/php-any/origami/data"
)

// value trees travel as JSON:
//   {"t":"null"} {"t":"bool","v":true} {"t":"int","v":"-5"} {"t":"float","v":"<uint64 bits>"}
//   {"t":"str","v":"<hex>"} {"t":"list","v":[...]}                      (*data.ArrayValue, no names)
//   {"t":"arr","v":[["<hex name or null>", value], ...]}               (*data.ArrayValue with ZVal names)
//   {"t":"map","v":[["<hex key>", value], ...]}                         (*data.ObjectValue, insertion order)
type vnode struct {
	T string          `json:"t"`
	V json.RawMessage `json:"v"`
}

func buildValue(raw json.RawMessage) data.Value {
	var n vnode
	if err := json.Unmarshal(raw, &n); err != nil {
		panic("bad value json: " + err.Error())
	}
	switch n.T {
	case "null":
		return data.NewNullValue()
	case "bool":
		var b bool
		_ = json.Unmarshal(n.V, &b)
		return data.NewBoolValue(b)
	case "int":
		var s string
		_ = json.Unmarshal(n.V, &s)
		i, _ := strconv.ParseInt(s, 10, 64)
		return data.NewIntValue(int(i))
	case "float":
		var s string
		_ = json.Unmarshal(n.V, &s)
		u, _ := strconv.ParseUint(s, 10, 64)
		return data.NewFloatValue(math.Float64frombits(u))
	case "str":
		var s string
		_ = json.Unmarshal(n.V, &s)
		b, _ := hex.DecodeString(s)
		return data.NewStringValue(string(b))
	case "list":
		var items []json.RawMessage
		_ = json.Unmarshal(n.V, &items)
		vs := make([]data.Value, len(items))
		for i, it := range items {
			vs[i] = buildValue(it)
		}
		return data.NewArrayValue(vs)
	case "arr":
		var items [][2]json.RawMessage
		_ = json.Unmarshal(n.V, &items)
		arr := &data.ArrayValue{}
		for _, kv := range items {
			z := data.NewZVal(buildValue(kv[1]))
			var k *string
			_ = json.Unmarshal(kv[0], &k)
			if k != nil {
				b, _ := hex.DecodeString(*k)
				z.Name = string(b)
			}
			arr.List = append(arr.List, z)
		}
		return arr
	case "map":
		var items [][2]json.RawMessage
		_ = json.Unmarshal(n.V, &items)
		obj := data.NewObjectValue()
		for _, kv := range items {
			var k string
			_ = json.Unmarshal(kv[0], &k)
			b, _ := hex.DecodeString(k)
			obj.SetProperty(string(b), buildValue(kv[1]))
		}
		return obj
	}
	panic("bad value kind " + n.T)
}

func valueJSON(v data.Value) any {
	switch t := v.(type) {
	case nil:
		return map[string]any{"t": "nil"}
	case *data.NullValue:
		return map[string]any{"t": "null"}
	case *data.BoolValue:
		return map[string]any{"t": "bool", "v": t.Value}
	case *data.IntValue:
		return map[string]any{"t": "int", "v": strconv.FormatInt(int64(t.Value), 10)}
	case *data.FloatValue:
		return map[string]any{"t": "float", "v": strconv.FormatUint(math.Float64bits(t.Value), 10),
			"ft": hex.EncodeToString([]byte(floatText(t.Value)))}
	case *data.StringValue:
		return map[string]any{"t": "str", "v": hex.EncodeToString([]byte(t.Value))}
	case *data.ArrayValue:
		named := false
		for _, z := range t.List {
			if z != nil && z.Name != "" {
				named = true
			}
		}
		if !named {
			items := make([]any, 0, len(t.List))
			for _, z := range t.List {
				if z == nil {
					items = append(items, map[string]any{"t": "nil"})
				} else {
					items = append(items, valueJSON(z.Value))
				}
			}
			return map[string]any{"t": "list", "v": items}
		}
		items := make([]any, 0, len(t.List))
		for _, z := range t.List {
			if z == nil {
				items = append(items, []any{nil, map[string]any{"t": "nil"}})
				continue
			}
			var k any
			if z.Name != "" {
				k = hex.EncodeToString([]byte(z.Name))
			}
			items = append(items, []any{k, valueJSON(z.Value)})
		}
		return map[string]any{"t": "arr", "v": items}
	case *data.ObjectValue:
		items := make([]any, 0)
		t.RangeProperties(func(k string, pv data.Value) bool {
			items = append(items, []any{hex.EncodeToString([]byte(k)), valueJSON(pv)})
			return true
		})
		return map[string]any{"t": "map", "v": items}
	}
	return map[string]any{"t": "other"}
}

// the canonical text of a float: shortest decimal digits that read back to it (strconv 'G'), INF, -INF, NAN
func floatText(f float64) string {
	switch {
	case math.IsNaN(f):
		return "NAN"
	case math.IsInf(f, 1):
		return "INF"
	case math.IsInf(f, -1):
		return "-INF"
	}
	return strconv.FormatFloat(f, 'G', -1, 64)
}
