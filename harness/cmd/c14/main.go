// c14: drives the real codecs of /repo (protobuf wire parser/encoders, base64/hex/url functions,
// PHP serialize/unserialize, json_encode/json_decode) and the Go reference libraries on the same
// inputs.  stdin: one JSON case per line; stdout: one JSON observation per line.
//
// Byte strings travel as lower-case hex; 64-bit numbers as decimal strings.
//
//	{"k":"wire.parse","hex":"0801","msg":[1],"packed":{"3":0},"max":5}
//	{"k":"wire.prim","op":"varint|tag|fixed32|fixed64|bytes","v":"300","w":0,"hex":""}
//	{"k":"wire.script","tree":[...]}            serialize() of annotated classes + Protowire::parse
//	{"k":"bytes","f":"base64_encode|base64_decode|bin2hex|urlencode|urldecode|rawurlencode|rawurldecode","hex":".."}
//	{"k":"ser","v":<value tree>} / {"k":"unser","hex":".."}
//	{"k":"json.enc","v":<value tree>} / {"k":"json.dec","hex":"..","assoc":true}
package main

import (
	"bufio"
	"encoding/json"
	"fmt"
	"os"
	"time"
)

type Case struct {
	K      string            `json:"k"`
	Hex    string            `json:"hex"`
	Msg    []int32           `json:"msg"`
	Packed map[string]int32  `json:"packed"`
	PackNo []int32           `json:"packno"` // packed fields WITHOUT a configured element type
	Max    int               `json:"max"`
	Op     string            `json:"op"`
	V      json.RawMessage   `json:"v"`
	W      int               `json:"w"`
	F      string            `json:"f"`
	Tree   json.RawMessage   `json:"tree"`
	Assoc  bool              `json:"assoc"`
	Depth  int               `json:"depth"` // json_decode's third argument; 0 = not passed
	Extra  map[string]string `json:"extra"`
}

func handle(c *Case) (out map[string]any) {
	defer func() {
		if r := recover(); r != nil {
			out = map[string]any{"panic": fmt.Sprint(r)}
		}
	}()
	switch c.K {
	case "wire.parse":
		return wireParse(c)
	case "wire.prim":
		return wirePrim(c)
	case "wire.script":
		return wireScript(c)
	case "wire.parse.script":
		return wireParseScript(c)
	case "bytes":
		return bytesCodec(c)
	case "ser":
		return serCase(c)
	case "unser":
		return unserCase(c)
	case "ftext":
		return ftextCase(c)
	case "fcanon":
		return fcanonCase(c)
	case "ser.object":
		return serObject(c)
	case "script":
		return scriptCase(c)
	case "json.enc":
		return jsonEnc(c)
	case "json.dec":
		return jsonDec(c)
	case "json.depth":
		return jsonDepth(c)
	}
	return map[string]any{"harness_error": "unknown kind " + c.K}
}

func main() {
	// watchdog: a decoder that hangs is a finding; the driver attributes the death to the case
	// whose "begin" marker was the last line on stderr
	sc := bufio.NewScanner(os.Stdin)
	sc.Buffer(make([]byte, 1<<20), 1<<28)
	w := bufio.NewWriterSize(os.Stdout, 1<<20)
	defer w.Flush()
	enc := json.NewEncoder(w)
	i := 0
	for sc.Scan() {
		var c Case
		if err := json.Unmarshal(sc.Bytes(), &c); err != nil {
			enc.Encode(map[string]any{"harness_error": err.Error()})
			i++
			continue
		}
		done := make(chan map[string]any, 1)
		go func() { done <- handle(&c) }()
		select {
		case o := <-done:
			enc.Encode(o)
		case <-time.After(20 * time.Second):
			enc.Encode(map[string]any{"hang": true})
			w.Flush()
			fmt.Fprintf(os.Stderr, "hang at case %d\n", i)
			os.Exit(3)
		}
		i++
	}
}
