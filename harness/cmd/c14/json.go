package main

import (
	"encoding/hex"
	"encoding/json"
	"strings"

	"verif/harness/vrun"

	"github.com/php-any/origami/data"
	"github.com/php-any/origami/std/php"
)

// {"k":"json.enc","v":<value tree>}: json_encode(v); also json_decode of that text both ways
func jsonEnc(c *Case) map[string]any {
	v := buildValue(c.V)
	vm := vmOnce()
	out := map[string]any{}
	r, e := callFnVM(vm, php.NewJsonEncodeFunction(), v)
	strObs(out, r, e)
	if sv, ok := r.(*data.StringValue); ok {
		out["valid"] = json.Valid([]byte(sv.Value))
		for _, assoc := range []bool{false, true} {
			key := "back"
			if assoc {
				key = "back_assoc"
			}
			back, e2 := callFnVM(vm, php.NewJsonDecodeFunction(), data.NewStringValue(sv.Value), data.NewBoolValue(assoc))
			if e2 != "" {
				out[key+"_err"] = e2
			} else {
				out[key] = valueJSON(back)
			}
		}
	}
	return out
}

// {"k":"json.dec","hex":"..","assoc":bool}: json_decode on arbitrary bytes, run 6 times to expose
// order non-determinism ("variants" = number of distinct results)
func jsonDec(c *Case) map[string]any {
	b, err := hex.DecodeString(c.Hex)
	if err != nil {
		return map[string]any{"harness_error": err.Error()}
	}
	vm := vmOnce()
	out := map[string]any{"valid": json.Valid(b)}
	seen := map[string]bool{}
	for i := 0; i < 6; i++ {
		args := []data.Value{data.NewStringValue(string(b)), data.NewBoolValue(c.Assoc)}
		if c.Depth != 0 {
			args = append(args, data.NewIntValue(c.Depth))
		}
		r, e := callFnVM(vm, php.NewJsonDecodeFunction(), args...)
		if e != "" {
			return map[string]any{"err": e}
		}
		vj := valueJSON(r)
		s, _ := json.Marshal(vj)
		if i == 0 {
			out["val"] = vj
		}
		seen[string(s)] = true
	}
	out["variants"] = len(seen)
	return out
}

// {"k":"json.depth"}: json_decode's third argument (nesting limit) through a real script call:
// PHP returns NULL for '[[1]]' with depth 1
func jsonDepth(c *Case) map[string]any {
	res := vrun.RunString("<?php\necho json_encode(json_decode('[[1]]', true, 1));\n", "c14depth.php")
	return map[string]any{"outcome": res.Outcome, "out": strings.TrimSpace(res.Out), "detail": res.Detail}
}
