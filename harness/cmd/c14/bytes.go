package main

import (
	"crypto/md5"
	"crypto/sha1"
	"crypto/sha256"
	"crypto/sha3"
	"crypto/sha512"
	"encoding/base64"
	"encoding/hex"
	"net/url"

	"verif/harness/vrun"

	"github.com/php-any/origami/data"
	"github.com/php-any/origami/std/php"
)

func callFn(fn data.FuncStmt, args ...data.Value) (data.Value, string) {
	vm, _ := vrun.NewVM()
	return callFnVM(vm, fn, args...)
}

func callFnVM(vm data.VM, fn data.FuncStmt, args ...data.Value) (data.Value, string) {
	vars := fn.GetVariables()
	ctx := vm.CreateContext(vars)
	for i, a := range args {
		if i < len(vars) && a != nil {
			if ctl := ctx.SetVariableValue(vars[i], a); ctl != nil {
				return nil, "bind: " + ctl.AsString()
			}
		}
	}
	r, ctl := fn.Call(ctx)
	if ctl != nil {
		return nil, "throw: " + ctl.AsString()
	}
	if r == nil {
		return nil, ""
	}
	v, _ := r.(data.Value)
	return v, ""
}

// observation of a string-or-false result
func strObs(out map[string]any, v data.Value, e string) {
	if e != "" {
		out["err"] = e
		return
	}
	switch t := v.(type) {
	case *data.StringValue:
		out["out"] = hex.EncodeToString([]byte(t.Value))
	case *data.BoolValue:
		if t.Value {
			out["kind"] = "true"
		} else {
			out["kind"] = "false"
		}
	case nil:
		out["kind"] = "nil"
	default:
		out["kind"] = "other"
	}
}

var sharedVM data.VM

func vmOnce() data.VM {
	if sharedVM == nil {
		vm, _ := vrun.NewVM()
		sharedVM = vm
	}
	return sharedVM
}

func bytesCodec(c *Case) map[string]any {
	b, err := hex.DecodeString(c.Hex)
	if err != nil {
		return map[string]any{"harness_error": err.Error()}
	}
	in := data.NewStringValue(string(b))
	out := map[string]any{}
	vm := vmOnce()
	switch c.F {
	case "base64_encode":
		v, e := callFnVM(vm, php.NewBase64EncodeFunction(), in)
		strObs(out, v, e)
		out["ref"] = hex.EncodeToString([]byte(base64.StdEncoding.EncodeToString(b)))
	case "base64_decode":
		v, e := callFnVM(vm, php.NewBase64DecodeFunction(), in)
		strObs(out, v, e)
		if d, err := base64.StdEncoding.DecodeString(string(b)); err == nil {
			out["ref"] = hex.EncodeToString(d)
		} else {
			out["ref"] = "false"
		}
	case "bin2hex":
		v, e := callFnVM(vm, php.NewBin2hexFunction(), in)
		strObs(out, v, e)
		out["ref"] = hex.EncodeToString([]byte(hex.EncodeToString(b)))
	case "urlencode":
		v, e := callFnVM(vm, php.NewUrlencodeFunction(), in)
		strObs(out, v, e)
		out["ref"] = hex.EncodeToString([]byte(url.QueryEscape(string(b))))
	case "urldecode":
		v, e := callFnVM(vm, php.NewUrldecodeFunction(), in)
		strObs(out, v, e)
		if d, err := url.QueryUnescape(string(b)); err == nil {
			out["ref"] = hex.EncodeToString([]byte(d))
		} else {
			out["ref"] = "false"
		}
	case "rawurlencode":
		v, e := callFnVM(vm, php.NewRawurlencodeFunction(), in)
		strObs(out, v, e)
		out["ref"] = hex.EncodeToString([]byte(url.PathEscape(string(b))))
	case "rawurldecode":
		v, e := callFnVM(vm, php.NewRawurldecodeFunction(), in)
		strObs(out, v, e)
		if d, err := url.PathUnescape(string(b)); err == nil {
			out["ref"] = hex.EncodeToString([]byte(d))
		} else {
			out["ref"] = "false"
		}
	case "md5":
		v, e := callFnVM(vm, php.NewMd5Function(), in)
		strObs(out, v, e)
		s := md5.Sum(b)
		out["ref"] = hex.EncodeToString([]byte(hex.EncodeToString(s[:])))
	case "hash":
		algo := c.Extra["algo"]
		v, e := callFnVM(vm, php.NewHashFunction(), data.NewStringValue(algo), in)
		strObs(out, v, e)
		var d []byte
		switch algo {
		case "md5":
			s := md5.Sum(b)
			d = s[:]
		case "sha1":
			s := sha1.Sum(b)
			d = s[:]
		case "sha256":
			s := sha256.Sum256(b)
			d = s[:]
		case "sha512":
			s := sha512.Sum512(b)
			d = s[:]
		case "sha3-256":
			s := sha3.Sum256(b)
			d = s[:]
		case "sha3-512":
			s := sha3.Sum512(b)
			d = s[:]
		}
		out["ref"] = hex.EncodeToString([]byte(hex.EncodeToString(d)))
	default:
		return map[string]any{"harness_error": "f " + c.F}
	}
	return out
}
