package main

import (
	"crypto/md5"
	"crypto/sha1"
	"crypto/sha256"
	"crypto/sha3"
	"crypto/sha512"
	"encoding/base64"
	"encoding/hex"
	"net/url"

	"verif/harness/vrun"

	"github.com/php-any/origami/data"
	"github.com/php-any/origami/std/php"
)

func callFn(fn data.FuncStmt, args ...data.Value) (data.Value, string) {
	vm, _ := vrun.NewVM()
	return callFnVM(vm, fn, args...)
}

func callFnVM(vm data.VM, fn data.FuncStmt, args ...data.Value) (data.Value, string) {
	vars := fn.GetVariables()
	ctx := vm.CreateContext(vars)
	for i, a := range args {
		if i < len(vars) && a != nil {
			if ctl := ctx.SetVariableValue(vars[i], a); ctl != nil {
				return nil, "bind: " + ctl.AsString()
			}
		}
	}
	r, ctl := fn.Call(ctx)
	if ctl != nil {
		return nil, "throw: " + ctl.AsString()
	}
	if r == nil {
		return nil, ""
	}
	v, _ := r.(data.Value)
	return v, ""
}

// observation of a string-or-false result
func strObs(out map[string]any, v data.Value, e string) {
	if e != "" {
		out["err"] = e
		return
	}
	switch t := v.(type) {
	case *data.StringValue:
		out["out"] = hex.EncodeToString([]byte(t.Value))
	case *data.BoolValue:
		if t.Value {
			out["kind"] = "true"
		} else {
			out["kind"] = "false"
		}
	case nil:
		out["kind"] = "nil"
	default:
		out["kind"] = "other"
	}
}

var sharedVM data.VM

func vmOnce() data.VM {
	if sharedVM == nil {
		vm, _ := vrun.NewVM()
		sharedVM = vm
	}
	return sharedVM
}

func bytesCodec(c *Case) map[string]any {
	b, err := hex.DecodeString(c.Hex)
	if err != nil {
		return map[string]any{"harness_error": err.Error()}
	}
	in := data.NewStringValue(string(b))
	out := map[string]any{}
	vm := vmOnce()
	switch c.F {
	case "base64_encode":
		v, e := callFnVM(vm, php.NewBase64EncodeFunction(), in)
		strObs(out, v, e)
		out["ref"] = hex.EncodeToString([]byte(base64.StdEncoding.EncodeToString(b)))
		if sv, ok := v.(*data.StringValue); ok {
			d, err := base64.StdEncoding.Strict().DecodeString(sv.Value)
			out["refback"] = err == nil && string(d) == string(b)
		}
	case "base64_decode":
		v, e := callFnVM(vm, php.NewBase64DecodeFunction(), in)
		strObs(out, v, e)
		if d, err := base64.StdEncoding.DecodeString(string(b)); err == nil {
			out["ref"] = hex.EncodeToString(d)
		} else {
			out["ref"] = "false"
		}
	case "bin2hex":
		v, e := callFnVM(vm, php.NewBin2hexFunction(), in)
		strObs(out, v, e)
		out["ref"] = hex.EncodeToString([]byte(hex.EncodeToString(b)))
		if sv, ok := v.(*data.StringValue); ok {
			d, err := hex.DecodeString(sv.Value)
			out["refback"] = err == nil && string(d) == string(b)
		}
	case "urlencode":
		v, e := callFnVM(vm, php.NewUrlencodeFunction(), in)
		strObs(out, v, e)
		out["ref"] = hex.EncodeToString([]byte(url.QueryEscape(string(b))))
		if sv, ok := v.(*data.StringValue); ok {
			// a query-string reader: split a=<value> at & and =, unescape
			q, err := url.ParseQuery("a=" + sv.Value)
			out["refback"] = err == nil && len(q) == 1 && len(q["a"]) == 1 && q["a"][0] == string(b)
		}
	case "urldecode":
		v, e := callFnVM(vm, php.NewUrldecodeFunction(), in)
		strObs(out, v, e)
		if d, err := url.QueryUnescape(string(b)); err == nil {
			out["ref"] = hex.EncodeToString([]byte(d))
		} else {
			out["ref"] = "false"
		}
	case "rawurlencode":
		v, e := callFnVM(vm, php.NewRawurlencodeFunction(), in)
		strObs(out, v, e)
		out["ref"] = hex.EncodeToString([]byte(rfc3986Escape(b)))
		if sv, ok := v.(*data.StringValue); ok {
			// read back both as a path segment and as a query value
			d, err := url.PathUnescape(sv.Value)
			q, err2 := url.ParseQuery("a=" + sv.Value)
			out["refback"] = err == nil && d == string(b) && err2 == nil && len(q) == 1 && len(q["a"]) == 1 && q["a"][0] == string(b)
		}
	case "rawurldecode":
		v, e := callFnVM(vm, php.NewRawurldecodeFunction(), in)
		strObs(out, v, e)
		if d, err := url.PathUnescape(string(b)); err == nil {
			out["ref"] = hex.EncodeToString([]byte(d))
		} else {
			out["ref"] = "false"
		}
	case "md5":
		v, e := callFnVM(vm, php.NewMd5Function(), in)
		strObs(out, v, e)
		s := md5.Sum(b)
		out["ref"] = hex.EncodeToString([]byte(hex.EncodeToString(s[:])))
	case "hash":
		algo := c.Extra["algo"]
		v, e := callFnVM(vm, php.NewHashFunction(), data.NewStringValue(algo), in)
		strObs(out, v, e)
		var d []byte
		switch algo {
		case "md5":
			s := md5.Sum(b)
			d = s[:]
		case "sha1", "sha-1":
			s := sha1.Sum(b)
			d = s[:]
		case "sha256", "sha-256", "sha2_256":
			s := sha256.Sum256(b)
			d = s[:]
		case "sha512", "sha-512", "sha2_512":
			s := sha512.Sum512(b)
			d = s[:]
		case "sha3-256":
			s := sha3.Sum256(b)
			d = s[:]
		case "sha3-512":
			s := sha3.Sum512(b)
			d = s[:]
		}
		out["ref"] = hex.EncodeToString([]byte(hex.EncodeToString(d)))
	default:
		return map[string]any{"harness_error": "f " + c.F}
	}
	return out
}

// RFC 3986 section 2: percent-encode everything outside ALPHA / DIGIT / "-" / "." / "_" / "~"
func rfc3986Escape(b []byte) string {
	const hexd = "0123456789ABCDEF"
	var out []byte
	for _, c := range b {
		if 'a' <= c && c <= 'z' || 'A' <= c && c <= 'Z' || '0' <= c && c <= '9' || c == '-' || c == '.' || c == '_' || c == '~' {
			out = append(out, c)
		} else {
			out = append(out, '%', hexd[c>>4], hexd[c&15])
		}
	}
	return string(out)
}
