package main

func jsonEnc(c *Case) map[string]any { return map[string]any{"harness_error": "todo"} }
func jsonDec(c *Case) map[string]any { return map[string]any{"harness_error": "todo"} }
