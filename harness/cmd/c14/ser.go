package main

import (
	"encoding/hex"

	"github.com/php-any/origami/data"
	"github.com/php-any/origami/std/php"
)

// {"k":"ser","v":<value tree>}: serialize(v), then unserialize of that text
func serCase(c *Case) map[string]any {
	v := buildValue(c.V)
	vm := vmOnce()
	out := map[string]any{}
	r, e := callFnVM(vm, php.NewSerializeFunction(), v)
	strObs(out, r, e)
	if sv, ok := r.(*data.StringValue); ok {
		back, e2 := callFnVM(vm, php.NewUnserializeFunction(), data.NewStringValue(sv.Value))
		if e2 != "" {
			out["back_err"] = e2
		} else {
			out["back"] = valueJSON(back)
		}
	}
	return out
}

// {"k":"unser","hex":".."}: unserialize on arbitrary bytes
func unserCase(c *Case) map[string]any {
	b, err := hex.DecodeString(c.Hex)
	if err != nil {
		return map[string]any{"harness_error": err.Error()}
	}
	vm := vmOnce()
	r, e := callFnVM(vm, php.NewUnserializeFunction(), data.NewStringValue(string(b)))
	if e != "" {
		return map[string]any{"err": e}
	}
	return map[string]any{"val": valueJSON(r)}
}
