package main

import (
	"encoding/hex"
	"encoding/json"
	"math"
	"strconv"
	"strings"

	"verif/harness/vrun"

	"github.com/php-any/origami/data"
	"github.com/php-any/origami/std/php"
)

// {"k":"ser","v":<value tree>}: serialize(v), then unserialize of that text
func serCase(c *Case) map[string]any {
	v := buildValue(c.V)
	vm := vmOnce()
	out := map[string]any{}
	r, e := callFnVM(vm, php.NewSerializeFunction(), v)
	strObs(out, r, e)
	if sv, ok := r.(*data.StringValue); ok {
		back, e2 := callFnVM(vm, php.NewUnserializeFunction(), data.NewStringValue(sv.Value))
		if e2 != "" {
			out["back_err"] = e2
		} else {
			out["back"] = valueJSON(back)
		}
	}
	return out
}

// {"k":"unser","hex":".."}: unserialize on arbitrary bytes
func unserCase(c *Case) map[string]any {
	b, err := hex.DecodeString(c.Hex)
	if err != nil {
		return map[string]any{"harness_error": err.Error()}
	}
	vm := vmOnce()
	r, e := callFnVM(vm, php.NewUnserializeFunction(), data.NewStringValue(string(b)))
	if e != "" {
		return map[string]any{"err": e}
	}
	return map[string]any{"val": valueJSON(r)}
}

// {"k":"ftext","v":["<bits>",...]}: canonical texts of floats given by bit pattern
func ftextCase(c *Case) map[string]any {
	var bits []string
	_ = json.Unmarshal(c.V, &bits)
	out := make([]string, len(bits))
	for i, b := range bits {
		u, _ := strconv.ParseUint(b, 10, 64)
		out[i] = hex.EncodeToString([]byte(floatText(math.Float64frombits(u))))
	}
	return map[string]any{"texts": out}
}

// {"k":"fcanon","v":["<hex text>",...]}: the canonical text of the float a decimal text denotes
// (strconv.ParseFloat, range errors give +-Inf / 0), or "" when strconv rejects the text
func fcanonCase(c *Case) map[string]any {
	var texts []string
	_ = json.Unmarshal(c.V, &texts)
	out := make([]string, len(texts))
	for i, h := range texts {
		b, _ := hex.DecodeString(h)
		s := string(b)
		var f float64
		switch s {
		case "INF":
			f = math.Inf(1)
		case "-INF":
			f = math.Inf(-1)
		case "NAN":
			f = math.NaN()
		default:
			var err error
			f, err = strconv.ParseFloat(s, 64)
			if err != nil && !strings.Contains(err.Error(), "out of range") {
				out[i] = ""
				continue
			}
		}
		out[i] = hex.EncodeToString([]byte(floatText(f)))
	}
	return map[string]any{"canon": out}
}

// {"k":"ser.object"}: serialize() / unserialize() of a class instance through a real script
func serObject(c *Case) map[string]any {
	res := vrun.RunString("<?php\nclass C14P { public $a = 1; public $b = 'x'; }\n$s = serialize(new C14P());\necho $s, '|', gettype(unserialize($s));\n", "c14obj.php")
	return map[string]any{"outcome": res.Outcome, "out": strings.TrimSpace(res.Out), "detail": res.Detail}
}

// {"k":"script","extra":{"src":"<?php ..."}}: a whole script through vrun.RunString (values built by the interpreter itself)
func scriptCase(c *Case) map[string]any {
	res := vrun.RunString(c.Extra["src"], "c14script.php")
	return map[string]any{"outcome": res.Outcome, "out": res.Out, "detail": res.Detail}
}
