// c07: runs visibility and declared-type probe scripts on the real
// interpreter, in-process, one fresh VM per script.
// stdin: one JSON case per line {"src": "<script text, plain .zy mode>"}
// stdout: one JSON observation per line {"out": "<captured stdout>", "outcome": "ok|throw|parse|panic|control"}
// The script itself prints one marker per operation (see checks/C07.py); the harness adds nothing.
package main

import (
	"encoding/json"
	"os"

	"verif/harness/vrun"
)

type Case struct {
	Src string `json:"src"`
}

type Obs struct {
	Out     string `json:"out"`
	Outcome string `json:"outcome"`
	Detail  string `json:"detail,omitempty"`
}

func main() {
	enc := json.NewEncoder(os.Stdout)
	vrun.Lines(func(line string) {
		var c Case
		if err := json.Unmarshal([]byte(line), &c); err != nil {
			enc.Encode(Obs{Outcome: "badcase", Detail: err.Error()})
			return
		}
		r := vrun.RunString(c.Src, "c07.zy")
		enc.Encode(Obs{Out: r.Out, Outcome: r.Outcome, Detail: r.Detail})
	})
}
