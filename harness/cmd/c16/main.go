//go:build c16proj

// c16: engine for property C16 (ahead-of-time compilation preserves behaviour).
// This package is NOT built inside the harness module: checks/C16.py copies these sources into
// .build/C16/proj together with files generated on every run —
//
//	types_gen.go   var nodeTypes = []reflect.Type{...}      every exported struct type of /repo/node, /repo/data
//	ctors_gen.go   var ctors = map[string]ctor{...}         source path -> generated AST constructor
//	ast_*.go       the output of `origami compile <batch dir> --pkg main` (the real command)
//
// and builds the lot once (tags verif).  stdin: one JSON request per line; stdout: one JSON line each.
//
//	{"mode":"table"}                       field table of every node type + which handler Emit uses
//	{"mode":"emit_zero"}                   Emit on the zero value of every node type: ok / error / panic
//	{"mode":"struct","files":[...]}        per file: tree from compile's parse vs tree from the generated
//	                                       constructor, dumped generically, plus a node-by-node diff
//	{"mode":"strlit","hex":[...]}          string round trip: the REAL emitter (scalar emitter of data.StringValue and the
//	                                       reflective emitter's string-kind case, on every reflect-handled node type
//	                                       with an exported string field) prints a Go expression; go/parser +
//	                                       strconv.Unquote (what the Go compiler does with the literal) must give back
//	                                       exactly the bytes that went in
//	{"mode":"e2e","file":"..."}            interpreted (VM.LoadAndRun) vs compiled (RegisterCompiledFile +
//	                                       RunCompiledFile, as the generated register.go/main.go do), fresh VMs
package main

import (
	"encoding/hex"
	"encoding/json"
	"fmt"
	"go/ast"
	goparser "go/parser"
	"go/token"
	"math"
	"os"
	"os/exec"
	"reflect"
	"sort"
	"strconv"
	"strings"
	"sync"
	"time"
	"unsafe"

	"verif/harness/vrun"

	"github.com/php-any/origami/cmd/compile"
	"github.com/php-any/origami/data"
	"github.com/php-any/origami/node"
	"github.com/php-any/origami/parser"
	"github.com/php-any/origami/runtime"
	"github.com/php-any/origami/std"
	"github.com/php-any/origami/std/net/annotation"
	"github.com/php-any/origami/std/net/http"
	"github.com/php-any/origami/std/net/websocket"
	"github.com/php-any/origami/std/php"
	"github.com/php-any/origami/std/system"
)

type ctor func() (data.GetValue, []data.Variable)

const embeddedNode = "*Node"

var (
	tGetValue = reflect.TypeOf((*data.GetValue)(nil)).Elem()
	tVariable = reflect.TypeOf((*data.Variable)(nil)).Elem()
	tTypes    = reflect.TypeOf((*data.Types)(nil)).Elem()
)

type Req struct {
	Mode  string   `json:"mode"`
	Files []string `json:"files,omitempty"`
	File  string   `json:"file,omitempty"`
	Hex   []string `json:"hex,omitempty"`
}

func typeName(t reflect.Type) string {
	if t.Kind() == reflect.Ptr {
		t = t.Elem()
	}
	p := t.PkgPath()
	if i := strings.LastIndex(p, "/"); i >= 0 {
		p = p[i+1:]
	}
	return p + "." + t.Name()
}

// ------------------------------------------------------------------ table
type FieldDesc struct {
	Name     string `json:"name"`
	Exported bool   `json:"exported"`
	PP       bool   `json:"pp"`   // tag pp:"-"
	Node     bool   `json:"node"` // anonymous embedded field named Node
	Kind     string `json:"kind"` // static Go kind / type text
}
type TypeDesc struct {
	Name     string      `json:"name"`
	Handler  string      `json:"handler"` // special | scalar | reflect
	GetValue bool        `json:"getvalue"`
	Fields   []FieldDesc `json:"fields"`
	IsTypes  bool        `json:"is_types,omitempty"` // implements data.Types (a declared type)
}

func handlerSets() (map[reflect.Type]bool, map[reflect.Type]bool) {
	sp, sc := map[reflect.Type]bool{}, map[reflect.Type]bool{}
	for _, t := range compile.VerifSpecialHandlerTypes() {
		sp[t] = true
	}
	for _, t := range compile.VerifScalarEmitterTypes() {
		sc[t] = true
	}
	return sp, sc
}

func table() []TypeDesc {
	sp, sc := handlerSets()
	var res []TypeDesc
	for _, pt := range nodeTypes {
		st := pt.Elem()
		td := TypeDesc{Name: typeName(pt), Handler: "reflect", GetValue: pt.Implements(tGetValue),
			IsTypes: pt.Implements(tTypes) || pt.Elem().Implements(tTypes)}
		if sp[pt] {
			td.Handler = "special"
		} else if sc[pt] {
			td.Handler = "scalar"
		}
		for i := 0; i < st.NumField(); i++ {
			f := st.Field(i)
			name := f.Name
			if f.Anonymous && f.Name == "Node" {
				name = embeddedNode // not a Go identifier: cannot clash with a regular field called Node (data.ASTValue has one)
			}
			td.Fields = append(td.Fields, FieldDesc{Name: name, Exported: f.IsExported(), PP: f.Tag.Get("pp") == "-",
				Node: f.Anonymous && f.Name == "Node", Kind: f.Type.String()})
		}
		res = append(res, td)
	}
	sort.Slice(res, func(i, j int) bool { return res[i].Name < res[j].Name })
	return res
}

// ------------------------------------------------------------------ emit on zero values
type EmitRes struct {
	Name    string `json:"name"`
	Outcome string `json:"outcome"` // ok | error | panic
	Detail  string `json:"detail,omitempty"`
	// when Emit succeeded: is the text it printed a Go expression at all (go/parser)?
	NotGo string `json:"not_go,omitempty"`
}

func emitZero() []EmitRes {
	sp, _ := handlerSets()
	var res []EmitRes
	for _, pt := range nodeTypes {
		if !pt.Implements(tGetValue) || sp[pt] {
			continue // special handlers dereference their node's children: a zero value is not an input they see
		}
		r := EmitRes{Name: typeName(pt)}
		func() {
			defer func() {
				if p := recover(); p != nil {
					r.Outcome, r.Detail = "panic", fmt.Sprint(p)
				}
			}()
			nv := reflect.New(pt.Elem())
			// give the embedded *Node a value, as every parsed node has one (the error path reads it)
			for i := 0; i < pt.Elem().NumField(); i++ {
				sf := pt.Elem().Field(i)
				if sf.Anonymous && sf.Name == "Node" && sf.Type == reflect.TypeOf((*node.Node)(nil)) && nv.Elem().Field(i).CanSet() {
					nv.Elem().Field(i).Set(reflect.ValueOf(node.NewNode(nil)))
				}
			}
			v := nv.Interface().(data.GetValue)
			text, err := compile.VerifEmit(v, "zero.php", "")
			if err != nil {
				r.Outcome, r.Detail = "error", err.Error()
			} else {
				r.Outcome = "ok"
				if _, perr := goparser.ParseExpr(text); perr != nil {
					r.NotGo = perr.Error() + " in: " + text
				}
			}
		}()
		res = append(res, r)
	}
	sort.Slice(res, func(i, j int) bool { return res[i].Name < res[j].Name })
	return res
}

// ------------------------------------------------------------------ generic dump of a value
// The classification follows Generator.emitReflectValue step by step: it is the abstraction
// function from Go values to the model's `val`.
//
//	null | {"s":text} scalar | {"var":..} | {"types":..} | {"bad":kind} |
//	{"n":type,"f":[[name,val]...]} pointer to struct | {"st":type,"f":[...]} struct by value |
//	{"l":[...]} slice | {"m":[[key,val]...]} map (sorted by key)
type dumper struct {
	depth  int
	seen   map[uintptr]int
	budget int
}

// Normalisations (the "validated, not proved" part: they encode what the special handlers are
// MEANT to preserve when they replace a node by its late-bound form):
//   - node.CallLater is dumped as the node.CallExpression it embeds; CallExpression.Fun (the
//     resolved callee, runtime-only) is dumped as nil                      [emitCallExpression, emitCallLater]
//   - node.CallStaticMethod / CallStaticMethodLater     -> static-method(class, method)
//   - node.CallStaticProperty / CallStaticPropertyLater -> static-property(class, property)
//     with the class name computed as compile.staticCallClassName does   [emitCallStatic*]
//   - elements of a []data.Variable are dumped as name#index            [genMethodVars, emitVariable]
//   - a sync.Map (ClassStatement.StaticProperty) is dumped as its sorted key -> value snapshot
func staticClassName(stmt any) string {
	switch s := stmt.(type) {
	case nil:
		return ""
	case data.ClassStmt:
		return s.GetName()
	case *node.VariableExpression:
		return s.Name
	case *node.StaticClass:
		return "static"
	case *node.SelfClass:
		return "self"
	case *node.Parent:
		return "parent"
	default:
		return fmt.Sprintf("%T", s)
	}
}

func unexportedString(rv reflect.Value, name string) string {
	f := rv.FieldByName(name)
	if f.IsValid() && f.Kind() == reflect.String {
		return f.String()
	}
	return "?"
}

func (d *dumper) special(rv reflect.Value) (any, bool) {
	if !rv.CanInterface() {
		return nil, false
	}
	q := func(s string) any { return map[string]any{"s": fmt.Sprintf("%q", s)} }
	switch n := rv.Interface().(type) {
	case *node.CallLater:
		if n.CallExpression == nil {
			return nil, false
		}
		// a late-bound call = the call expression + the namespace its unqualified name is looked up in.
		// The namespace is a semantic field (seeded C16-4): it is dumped; the check blanks it only where the
		// PARSED side is a plain CallExpression, i.e. the callee was resolved while parsing and the
		// generated NewCallTodo finds it by its full name before the namespace is consulted
		return d.callExpr(reflect.ValueOf(n.CallExpression), q(unexportedString(rv.Elem(), "namespace"))), true
	case *node.CallExpression:
		return d.callExpr(rv, nil), true
	case *node.CallStaticMethod:
		return map[string]any{"n": "static-method", "f": []any{[]any{"class", q(staticClassName(n.GetStmt()))}, []any{"method", q(n.Method)}}}, true
	case *node.CallStaticMethodLater:
		e := rv.Elem()
		return map[string]any{"n": "static-method", "f": []any{[]any{"class", q(unexportedString(e, "className"))}, []any{"method", q(unexportedString(e, "method"))}}}, true
	case *node.CallStaticProperty:
		return map[string]any{"n": "static-property", "f": []any{[]any{"class", q(staticClassName(n.Stmt))}, []any{"property", q(n.Property)}}}, true
	case *node.CallStaticPropertyLater:
		e := rv.Elem()
		return map[string]any{"n": "static-property", "f": []any{[]any{"class", q(unexportedString(e, "className"))}, []any{"property", q(unexportedString(e, "property"))}}}, true
	}
	return nil, false
}

// callExpr dumps a *node.CallExpression with one extra pseudo-field: the namespace of the late-bound form
func (d *dumper) callExpr(rv reflect.Value, ns any) any {
	if n := d.seen[rv.Pointer()]; n > 0 {
		return map[string]any{"bad": "cycle:" + typeName(rv.Type())}
	}
	d.seen[rv.Pointer()]++
	defer func() { d.seen[rv.Pointer()]-- }()
	return map[string]any{"n": typeName(rv.Type()), "f": append(d.fields(rv.Elem()), []any{"late-namespace", ns})}
}

func (d *dumper) fields(rv reflect.Value) []any {
	t := rv.Type()
	var fs []any
	for i := 0; i < t.NumField(); i++ {
		f := t.Field(i)
		if f.Anonymous && f.Name == "Node" {
			// the embedded *Node carries positions only (rebuilt by NewNode(from)); what matters is
			// whether it is there at all: methods of a node with a nil *Node dereference nil
			fv := rv.Field(i)
			if fv.Kind() == reflect.Ptr && fv.IsNil() {
				fs = append(fs, []any{embeddedNode, nil})
			} else {
				fs = append(fs, []any{embeddedNode, map[string]any{"s": "node"}})
			}
			continue
		}
		if t == reflect.TypeOf(data.ClassValue{}) && f.Name == "Context" {
			fs = append(fs, []any{f.Name, nil}) // the runtime context an annotation object was created in
			continue
		}
		if t == reflect.TypeOf(node.ClassStatement{}) && f.Name == "Construct" {
			// derived: NewClassStatement recomputes it from the class's own methods, an inherited one is
			// found by `new` at run time (node.constructOf)
			fs = append(fs, []any{f.Name, nil})
			continue
		}
		if strings.HasPrefix(f.Type.String(), "node.vmCache[") {
			// per-VM resolution cache (node/vm_cache.go): filled when a VM first resolves the class / callee,
			// keyed by that VM; never read across VMs, so it is not part of the program
			fs = append(fs, []any{f.Name, nil})
			continue
		}
		if t == reflect.TypeOf(node.CallExpression{}) && f.Name == "Fun" {
			fs = append(fs, []any{f.Name, nil}) // resolved callee: runtime-only
			continue
		}
		fs = append(fs, []any{f.Name, d.val(expose(rv.Field(i)))})
	}
	return fs
}

// expose makes an unexported field readable through Interface() (read-only use: the dumper needs
// the data.Variable / data.Types / sync.Map behind it)
func expose(v reflect.Value) reflect.Value {
	if v.CanInterface() || !v.CanAddr() {
		return v
	}
	return reflect.NewAt(v.Type(), unsafe.Pointer(v.UnsafeAddr())).Elem()
}

func (d *dumper) val(rv reflect.Value) any {
	if !rv.IsValid() {
		return nil
	}
	d.budget--
	if d.depth > 300 || d.budget < 0 {
		return map[string]any{"bad": "too-large"}
	}
	d.depth++
	defer func() { d.depth-- }()
	if rv.Kind() == reflect.Interface {
		if rv.IsNil() {
			return nil
		}
		rv = rv.Elem()
	}
	if rv.Kind() == reflect.Ptr {
		if rv.IsNil() {
			return nil
		}
		if rv.Type().Elem().Kind() == reflect.Struct {
			if pp := rv.Type().Elem().PkgPath(); !strings.HasSuffix(pp, "/node") && !strings.HasSuffix(pp, "/data") {
				// an object of the standard library (annotation classes, built-in constructors ...): the
				// emitter distinguishes these by type only; their internals are runtime wiring
				return map[string]any{"s": "opaque:" + typeName(rv.Type())}
			}
			if n := d.seen[rv.Pointer()]; n > 0 {
				return map[string]any{"bad": "cycle:" + typeName(rv.Type())}
			}
			if v, ok := d.special(rv); ok {
				return v
			}
			d.seen[rv.Pointer()]++
			defer func() { d.seen[rv.Pointer()]-- }()
			if rv.Type().Implements(tGetValue) {
				return map[string]any{"n": typeName(rv.Type()), "f": d.fields(rv.Elem())}
			}
		}
	}
	if rv.Type().Implements(tVariable) {
		if rv.CanInterface() {
			v := rv.Interface().(data.Variable)
			return map[string]any{"var": fmt.Sprintf("%s#%d:%s", v.GetName(), v.GetIndex(), typeText(v.GetType()))}
		}
		return map[string]any{"var": "?"}
	}
	if rv.Type().Implements(tTypes) {
		if rv.CanInterface() {
			return map[string]any{"types": typeText(rv.Interface().(data.Types))}
		}
		return map[string]any{"types": "?"}
	}
	switch rv.Kind() {
	case reflect.String:
		return map[string]any{"s": fmt.Sprintf("%q", rv.String())}
	case reflect.Int, reflect.Int8, reflect.Int16, reflect.Int32, reflect.Int64:
		return map[string]any{"s": fmt.Sprintf("%d", rv.Int())}
	case reflect.Uint, reflect.Uint8, reflect.Uint16, reflect.Uint32, reflect.Uint64:
		return map[string]any{"s": fmt.Sprintf("%d", rv.Uint())}
	case reflect.Bool:
		return map[string]any{"s": fmt.Sprintf("%v", rv.Bool())}
	case reflect.Float32, reflect.Float64:
		return map[string]any{"s": fmt.Sprintf("%g", rv.Float())}
	case reflect.Slice:
		if rv.Type().Elem().Kind() == reflect.Uint8 {
			return map[string]any{"s": fmt.Sprintf("%q", string(rv.Bytes()))}
		}
		l := []any{}
		isVars := rv.Type().Elem() == tVariable
		for i := 0; i < rv.Len(); i++ {
			if isVars {
				e := rv.Index(i)
				if !e.IsNil() && e.CanInterface() {
					v := e.Interface().(data.Variable)
					ref := ""
					if _, isRef := v.(*node.VariableReference); isRef {
						ref = "&" // LambdaExpression.Call binds by reference exactly for these
					}
					l = append(l, map[string]any{"var": fmt.Sprintf("%s%s#%d:%s", ref, v.GetName(), v.GetIndex(), typeText(v.GetType()))})
					continue
				}
			}
			l = append(l, d.val(rv.Index(i)))
		}
		return map[string]any{"l": l}
	case reflect.Map:
		if rv.Type().Key().Kind() != reflect.String {
			return map[string]any{"bad": "map-key:" + rv.Type().Key().String()}
		}
		keys := rv.MapKeys()
		sort.Slice(keys, func(i, j int) bool { return keys[i].String() < keys[j].String() })
		m := []any{}
		for _, k := range keys {
			m = append(m, []any{k.String(), d.val(rv.MapIndex(k))})
		}
		return map[string]any{"m": m}
	case reflect.Struct:
		if rv.Type() == reflect.TypeOf(sync.Map{}) {
			if rv.CanAddr() && rv.Addr().CanInterface() {
				sm := rv.Addr().Interface().(*sync.Map)
				type kv struct {
					k string
					v any
				}
				var kvs []kv
				sm.Range(func(k, v any) bool { kvs = append(kvs, kv{fmt.Sprint(k), v}); return true })
				sort.Slice(kvs, func(i, j int) bool { return kvs[i].k < kvs[j].k })
				m := []any{}
				for _, e := range kvs {
					m = append(m, []any{e.k, d.val(reflect.ValueOf(e.v))})
				}
				return map[string]any{"m": m}
			}
			return map[string]any{"bad": "sync.Map"}
		}
		return map[string]any{"st": typeName(rv.Type()), "f": d.fields(rv)}
	case reflect.Ptr:
		if rv.Type().Elem().Kind() == reflect.Struct {
			// a pointer to a struct that is not a GetValue: emitStructLiteral(rv.Interface().(data.GetValue)) panics
			return map[string]any{"bad": "ptr:" + typeName(rv.Type()), "f": d.fields(rv.Elem())}
		}
		return map[string]any{"bad": "ptr:" + rv.Type().String()}
	default:
		if rv.Kind() == reflect.Func && rv.IsNil() {
			return map[string]any{"bad": "func-nil"}
		}
		return map[string]any{"bad": rv.Kind().String()}
	}
}

// typeText: a declared type as its dynamic Go type plus its text (two kinds of type object that print
// the same, or a variable that lost its type, must not compare equal)
func typeText(t data.Types) string {
	if t == nil || (reflect.ValueOf(t).Kind() == reflect.Ptr && reflect.ValueOf(t).IsNil()) {
		return "nil"
	}
	return fmt.Sprintf("%T:%s", t, t.String())
}

// dump returns the generic image of v and whether the node budget was exhausted (a truncated image must not
// be compared: two truncated trees would agree on their "too-large" leaves)
func dump(v any) (any, bool) {
	d := &dumper{seen: map[uintptr]int{}, budget: 400000}
	r := d.val(reflect.ValueOf(v))
	return r, d.budget < 0
}

// ------------------------------------------------------------------ struct mode
type StructRes struct {
	File   string `json:"file"`
	Parsed any    `json:"parsed,omitempty"` // []val : the statements of compile's ParsedFile.Program
	Built  any    `json:"built,omitempty"`  // []val : the statements of the generated constructor's Program
	Subs   []Sub  `json:"subs,omitempty"`   // sampled nodes of the parsed tree: dump + what the real Emit says
	Err    string `json:"err,omitempty"`
}

type Sub struct {
	V  any  `json:"v"`
	Ok bool `json:"ok"`
}

// sampleSubs walks the parsed statements and, for nodes that Emit would send down the reflective
// path (no special handler, no scalar emitter), records the node's dump and whether the real
// Generator.Emit translates it.
func sampleSubs(stmts reflect.Value, file, ns string, limit int) []Sub {
	sp, sc := handlerSets()
	var subs []Sub
	seen := map[uintptr]bool{}
	var walk func(rv reflect.Value, depth int)
	walk = func(rv reflect.Value, depth int) {
		if len(subs) >= limit || depth > 60 || !rv.IsValid() {
			return
		}
		switch rv.Kind() {
		case reflect.Interface:
			if !rv.IsNil() {
				walk(rv.Elem(), depth+1)
			}
		case reflect.Ptr:
			if rv.IsNil() || rv.Type().Elem().Kind() != reflect.Struct || seen[rv.Pointer()] {
				return
			}
			seen[rv.Pointer()] = true
			if rv.Type().Implements(tGetValue) && !sp[rv.Type()] && !sc[rv.Type()] && rv.CanInterface() && rv.Type().Elem().NumField() > 1 {
				ok := false
				func() {
					defer func() { recover() }()
					_, err := compile.VerifEmit(rv.Interface().(data.GetValue), file, ns)
					ok = err == nil
				}()
				if dv, over := dump(rv.Interface()); !over {
					subs = append(subs, Sub{V: dv, Ok: ok})
				}
			}
			e := rv.Elem()
			for i := 0; i < e.NumField(); i++ {
				walk(expose(e.Field(i)), depth+1)
			}
		case reflect.Slice:
			for i := 0; i < rv.Len(); i++ {
				walk(rv.Index(i), depth+1)
			}
		case reflect.Struct:
			if rv.Type() == reflect.TypeOf(sync.Map{}) {
				return
			}
			for i := 0; i < rv.NumField(); i++ {
				walk(expose(rv.Field(i)), depth+1)
			}
		}
	}
	walk(stmts, 0)
	return subs
}

func loadAll(vm data.VM) {
	std.Load(vm)
	php.Load(vm)
	http.Load(vm)
	websocket.Load(vm)
	annotation.Load(vm)
	system.Load(vm)
}

// floatlitMode: float round trip.  For each float64 bit pattern (16 hex digits) the REAL emitter of data.FloatValue
// prints its Go expression; the expression is evaluated the way the Go compiler would (float64(<literal>) through
// strconv.ParseFloat, math.NaN(), math.Inf(±1), math.Copysign(0, -1), a bare literal) and must give back exactly the
// same bits (any NaN for a NaN).
func floatlitMode(hexes []string) []map[string]any {
	var res []map[string]any
	for _, h := range hexes {
		bits, err := strconv.ParseUint(h, 16, 64)
		if err != nil {
			res = append(res, map[string]any{"hex": h, "status": "bad-input"})
			continue
		}
		f := math.Float64frombits(bits)
		text, eerr := compile.VerifEmit(data.NewFloatValue(f), "floatlit.php", "")
		r := map[string]any{"hex": h}
		if eerr != nil {
			r["status"], r["emitted"] = "error", eerr.Error()
			res = append(res, r)
			continue
		}
		got, ok := evalFloatExpr(text)
		switch {
		case !ok:
			r["status"], r["emitted"] = "unreadable", text
		case math.IsNaN(f) && math.IsNaN(got):
			r["status"] = "ok"
		case math.Float64bits(got) == bits:
			r["status"] = "ok"
		default:
			r["status"], r["emitted"], r["got"] = "differs", text, fmt.Sprintf("%016x", math.Float64bits(got))
		}
		res = append(res, r)
	}
	return res
}

// evalFloatExpr evaluates data.NewFloatValue(<arg>) for the argument forms a float emitter can reasonably print
func evalFloatExpr(text string) (float64, bool) {
	e, err := goparser.ParseExpr(text)
	if err != nil {
		return 0, false
	}
	call, ok := e.(*ast.CallExpr)
	if !ok || len(call.Args) != 1 {
		return 0, false
	}
	return evalFloatArg(call.Args[0])
}

func evalFloatArg(a ast.Expr) (float64, bool) {
	switch x := a.(type) {
	case *ast.ParenExpr:
		return evalFloatArg(x.X)
	case *ast.BasicLit:
		// a bare INT literal in a float64 parameter position is an exact integer constant converted to float64
		v, err := strconv.ParseFloat(strings.ReplaceAll(x.Value, "_", ""), 64)
		return v, err == nil
	case *ast.UnaryExpr:
		v, ok := evalFloatArg(x.X)
		if !ok {
			return 0, false
		}
		if x.Op == token.SUB {
			if _, isLit := x.X.(*ast.BasicLit); isLit && v == 0 {
				return 0, true // -0 / -0.0 as a Go CONSTANT expression is +0: the sign is lost
			}
			return -v, true
		}
		return v, x.Op == token.ADD
	case *ast.CallExpr:
		fn := ""
		if id, ok := x.Fun.(*ast.Ident); ok {
			fn = id.Name
		} else if se, ok := x.Fun.(*ast.SelectorExpr); ok {
			if id, ok := se.X.(*ast.Ident); ok {
				fn = id.Name + "." + se.Sel.Name
			}
		}
		switch fn {
		case "float64":
			if len(x.Args) == 1 {
				return evalFloatArg(x.Args[0])
			}
		case "math.NaN":
			return math.NaN(), true
		case "math.Inf":
			if len(x.Args) == 1 {
				s, ok := evalFloatArg(x.Args[0])
				if ok && s >= 0 {
					return math.Inf(1), true
				}
				return math.Inf(-1), ok
			}
		case "math.Copysign":
			if len(x.Args) == 2 {
				m, ok1 := evalFloatArg(x.Args[0])
				sg, ok2 := evalFloatArg(x.Args[1])
				if un, isUn := x.Args[1].(*ast.UnaryExpr); isUn && un.Op == token.SUB {
					if v, ok := evalFloatArg(un.X); ok && v != 0 {
						sg = -v
					}
				}
				return math.Copysign(m, sg), ok1 && ok2
			}
		case "math.Float64frombits":
			if len(x.Args) == 1 {
				if bl, ok := x.Args[0].(*ast.BasicLit); ok {
					u, err := strconv.ParseUint(bl.Value, 0, 64)
					return math.Float64frombits(u), err == nil
				}
			}
		}
	}
	return 0, false
}

// loadersMode: which names does each standard-library loader register, and with which Go type?  VM.AddClass /
// AddFunc keep the FIRST registration of a name, so a name registered by two loaders means the ORDER of the
// loaders (generated main.go vs the interpreter's zy.go) decides which implementation a program gets.
func loadersMode() map[string]any {
	loaders := []struct {
		name string
		f    func(data.VM)
	}{{"std", std.Load}, {"php", php.Load}, {"http", http.Load}, {"websocket", websocket.Load}, {"annotation", annotation.Load}, {"system", system.Load}}
	type reg struct{ Loader, Type string }
	classes, funcs := map[string][]reg{}, map[string][]reg{}
	for _, l := range loaders {
		func() {
			defer func() { recover() }()
			vm := runtime.NewVM(parser.NewParser())
			l.f(vm)
			rvm := vm.(*runtime.VM)
			for _, c := range rvm.AllClasses() {
				classes[c.GetName()] = append(classes[c.GetName()], reg{l.name, fmt.Sprintf("%T", c)})
			}
			for _, fn := range rvm.AllFuncs() {
				funcs[fn.GetName()] = append(funcs[fn.GetName()], reg{l.name, fmt.Sprintf("%T", fn)})
			}
		}()
	}
	dup := func(m map[string][]reg) map[string][]reg {
		out := map[string][]reg{}
		for n, rs := range m {
			if len(rs) > 1 {
				differ := false
				for _, r := range rs[1:] {
					if r.Type != rs[0].Type {
						differ = true
					}
				}
				if differ {
					out[n] = rs
				}
			}
		}
		return out
	}
	return map[string]any{"classes": dup(classes), "funcs": dup(funcs), "n_classes": len(classes), "n_funcs": len(funcs)}
}

func progStatements(p data.GetValue) (any, string) {
	rv := reflect.ValueOf(p)
	if rv.Kind() != reflect.Ptr || rv.IsNil() {
		return nil, "program without Statements"
	}
	f := rv.Elem().FieldByName("Statements")
	if !f.IsValid() {
		return nil, "program without Statements"
	}
	d, over := dump(f.Interface())
	if over {
		return nil, "tree larger than the dump budget (400000 nodes): not compared"
	}
	return d, ""
}

func structMode(files []string) []StructRes {
	var res []StructRes
	// one parse of the whole batch on one base VM, in the order given (the order `origami compile`
	// walks the directory): name resolution inside a file depends on what was parsed before it
	parsed, errs := compile.VerifParseFiles(files, loadAll)
	byPath := map[string]compile.ParsedFile{}
	for _, pf := range parsed {
		byPath[pf.Path] = pf
	}
	for _, f := range files {
		r := StructRes{File: f}
		func() {
			defer func() {
				if p := recover(); p != nil {
					r.Err = "panic: " + fmt.Sprint(p)
				}
			}()
			pf, ok := byPath[f]
			if !ok {
				r.Err = fmt.Sprint("parse: ", errs)
				return
			}
			c, ok := ctors[f]
			if !ok {
				r.Err = "no generated constructor"
				return
			}
			prog, _ := c()
			var e1, e2 string
			r.Parsed, e1 = progStatements(pf.Program)
			r.Built, e2 = progStatements(prog)
			if e1 != "" || e2 != "" {
				r.Err = "parsed: " + e1 + "; built: " + e2
			}
			if st := reflect.ValueOf(pf.Program).Elem().FieldByName("Statements"); st.IsValid() {
				r.Subs = sampleSubs(st, f, pf.Namespace, 60)
			}
		}()
		res = append(res, r)
	}
	return res
}

// ------------------------------------------------------------------ e2e mode
// Each side runs in a child process of this binary (scripts may call exit()): the child streams the
// script's output to its stdout and ends with a line "@@C16 {json}" unless the script ended the process.
type Run struct {
	Out      string `json:"out"`
	Outcome  string `json:"outcome"` // ok | throw | control | panic | exit
	Detail   string `json:"detail,omitempty"`
	ExitFail bool   `json:"exit_fail"` // the process exit decision: non-zero status
	ExitCode int    `json:"exit_code"`
	Multi    bool   `json:"multi,omitempty"`
	Stderr   string `json:"stderr,omitempty"`
}
type E2E struct {
	File        string `json:"file"`
	Interpreted Run    `json:"interpreted"`
	Compiled    Run    `json:"compiled"`
	Err         string `json:"err,omitempty"`
}

const marker = "@@C16 "

func childRun(side, file string) {
	r := Run{}
	finish := func() {
		b, _ := json.Marshal(r)
		os.Stdout.WriteString("\n" + marker + string(b) + "\n")
	}
	old := data.WriteOutput
	data.WriteOutput = func(s string) { data.MarkUserOutput(); os.Stdout.WriteString(s) }
	defer func() { data.WriteOutput = old }()
	defer func() {
		if p := recover(); p != nil {
			r.Outcome, r.Detail, r.ExitFail = "panic", fmt.Sprint(p), true
			finish()
		}
	}()
	vm, _ := vrun.NewVM()
	websocket.Load(vm)
	annotation.Load(vm)
	thrown := false
	thrownDetail := ""
	vm.SetThrowControl(func(acl data.Control) { thrown = true; thrownDetail = acl.AsString() })
	var ctl data.Control
	if side == "interp" {
		// cmd/root.go RunScriptFile: LoadAndRun, (ShowControl), RunShutdownCallbacks, non-zero exit when ctl != nil
		_, ctl = vm.LoadAndRun(file)
		vm.RunShutdownCallbacks()
	} else {
		// generated register.go + main.go (default templates, cmd/compile/template.go)
		c, ok := ctors[file]
		if !ok {
			r.Outcome, r.Detail = "harness", "no generated constructor"
			finish()
			return
		}
		vm.RegisterCompiledFile(file, func() (data.GetValue, []data.Variable) {
			program, vars := c()
			registerClasses(vm, program)
			return program, vars
		})
		_, ctl = vm.RunCompiledFile(file)
		vm.RunShutdownCallbacks()
	}
	if side == "interp" {
		// did the script pull in other source files (autoload / include)?  Then its compiled form depends
		// on how the rest of the project is registered, which the batch engine does not reproduce
		other := func(x any) {
			if gf, ok := x.(node.GetFrom); ok && gf.GetFrom() != nil {
				if src := gf.GetFrom().GetSource(); src != "" && src != file {
					r.Multi = true
				}
			}
		}
		for _, c := range vm.AllClasses() {
			other(c)
		}
		for _, i := range vm.AllInterfaces() {
			other(i)
		}
	}
	switch {
	case ctl != nil:
		r.ExitFail, r.ExitCode = true, 1
		r.Detail = ctl.AsString()
		if tv, ok := ctl.(*data.ThrowValue); ok {
			r.Outcome = "throw"
			// the class of the uncaught error is part of the observable outcome
			cls := tv.GetName()
			if tv.Object != nil && tv.Object.Class != nil {
				cls = tv.Object.Class.GetName()
			}
			r.Detail = "[" + cls + "] " + r.Detail
		} else {
			r.Outcome = "control"
		}
	case thrown:
		r.Outcome, r.ExitFail, r.ExitCode, r.Detail = "throw", true, 1, thrownDetail
	default:
		r.Outcome = "ok"
	}
	finish()
}

func spawn(side, file string) Run {
	cmd := exec.Command(os.Args[0], "child", side, file)
	var errb strings.Builder
	cmd.Stderr = &errb
	done := make(chan struct{})
	var out []byte
	var err error
	go func() { out, err = cmd.Output(); close(done) }()
	select {
	case <-done:
	case <-time.After(20 * time.Second):
		if cmd.Process != nil {
			cmd.Process.Kill()
		}
		<-done
		return Run{Out: string(out), Outcome: "timeout", ExitFail: true, ExitCode: -1}
	}
	text := string(out)
	if i := strings.LastIndex(text, "\n"+marker); i >= 0 {
		var r Run
		if json.Unmarshal([]byte(strings.TrimSpace(text[i+1+len(marker):])), &r) == nil {
			r.Out = text[:i]
			r.Stderr = errb.String()
			return r
		}
	}
	// the script ended the process itself (exit / die / fatal)
	code := 0
	if ee, ok := err.(*exec.ExitError); ok {
		code = ee.ExitCode()
	}
	return Run{Out: text, Outcome: "exit", ExitFail: code != 0, ExitCode: code, Stderr: errb.String()}
}

// ---- string literals: emitter output read back the way the Go compiler reads it
type StrRes struct {
	Hex     string   `json:"hex"`
	Scalar  string   `json:"scalar"`            // ok | lost | unparseable | error
	Reflect []string `json:"reflect,omitempty"` // Type.Field: <what> for every reflective field that did not round-trip
	Emitted string   `json:"emitted,omitempty"` // the scalar emitter's text when it failed
	Fields  int      `json:"fields"`            // reflective string fields exercised
}

// literalsOf parses a Go expression and returns every string literal in it, unquoted as the compiler would.
func literalsOf(expr string) ([]string, error) {
	e, err := goparser.ParseExpr(expr)
	if err != nil {
		return nil, err
	}
	var lits []string
	ast.Inspect(e, func(n ast.Node) bool {
		if bl, ok := n.(*ast.BasicLit); ok && bl.Kind == token.STRING {
			if u, err := strconv.Unquote(bl.Value); err == nil {
				lits = append(lits, u)
			}
		}
		return true
	})
	return lits, nil
}

func roundTrip(v data.GetValue, s string) (string, string) {
	text, err := compile.VerifEmit(v, "strlit.php", "")
	if err != nil {
		return "error", err.Error()
	}
	lits, perr := literalsOf(text)
	if perr != nil {
		return "unparseable", text
	}
	for _, l := range lits {
		if l == s {
			return "ok", ""
		}
	}
	return "lost", text
}

type strField struct {
	t reflect.Type
	i int
}

var (
	strFieldsOnce sync.Once
	strFields     []strField
)

// every reflect-handled node type (pointer to struct implementing data.GetValue, no special handler,
// no scalar emitter) whose zero value can be emitted, and its exported string-kind fields
func reflectStringFields() []strField {
	strFieldsOnce.Do(func() {
		special, scalar := handlerSets()
		for _, pt := range nodeTypes {
			if special[pt] || scalar[pt] || !pt.Implements(tGetValue) {
				continue
			}
			st := pt.Elem()
			zero := reflect.New(st)
			ok := func() (ok bool) {
				defer func() {
					if recover() != nil {
						ok = false
					}
				}()
				_, err := compile.VerifEmit(zero.Interface().(data.GetValue), "strlit.php", "")
				return err == nil
			}()
			if !ok {
				continue
			}
			for i := 0; i < st.NumField(); i++ {
				f := st.Field(i)
				if f.IsExported() && f.Type.Kind() == reflect.String && !strings.Contains(string(f.Tag), `pp:"-"`) {
					strFields = append(strFields, strField{pt, i})
				}
			}
		}
	})
	return strFields
}

func strlitMode(hexes []string) []StrRes {
	fs := reflectStringFields()
	var res []StrRes
	for _, h := range hexes {
		b, err := hex.DecodeString(h)
		if err != nil {
			res = append(res, StrRes{Hex: h, Scalar: "error"})
			continue
		}
		s := string(b)
		r := StrRes{Hex: h, Fields: len(fs)}
		var em string
		r.Scalar, em = roundTrip(data.NewStringValue(s), s)
		if r.Scalar != "ok" {
			r.Emitted = em
		}
		for _, sf := range fs {
			func() {
				defer func() {
					if p := recover(); p != nil {
						r.Reflect = append(r.Reflect, fmt.Sprintf("%s.%s: panic", typeName(sf.t), sf.t.Elem().Field(sf.i).Name))
					}
				}()
				v := reflect.New(sf.t.Elem())
				v.Elem().Field(sf.i).SetString(s)
				if st, em := roundTrip(v.Interface().(data.GetValue), s); st != "ok" {
					r.Reflect = append(r.Reflect, fmt.Sprintf("%s.%s: %s", typeName(sf.t), sf.t.Elem().Field(sf.i).Name, st))
					if r.Emitted == "" {
						r.Emitted = em
					}
				}
			}()
		}
		res = append(res, r)
	}
	return res
}

func e2e(file string) E2E {
	return E2E{File: file, Interpreted: spawn("interp", file), Compiled: spawn("compiled", file)}
}

func main() {
	if len(os.Args) == 4 && os.Args[1] == "child" {
		childRun(os.Args[2], os.Args[3])
		return
	}
	enc := json.NewEncoder(os.Stdout)
	out := func(v any) { os.Stdout.WriteString("\n"); enc.Encode(v) }
	vrun.Lines(func(line string) {
		if strings.TrimSpace(line) == "" {
			return
		}
		var rq Req
		if err := json.Unmarshal([]byte(line), &rq); err != nil {
			out(map[string]any{"err": err.Error()})
			return
		}
		switch rq.Mode {
		case "table":
			out(map[string]any{"table": table()})
		case "emit_zero":
			out(map[string]any{"emit_zero": emitZero()})
		case "struct":
			out(map[string]any{"struct": structMode(rq.Files)})
		case "e2e":
			out(e2e(rq.File))
		case "strlit":
			out(map[string]any{"strlit": strlitMode(rq.Hex)})
		case "loaders":
			out(map[string]any{"loaders": loadersMode()})
		case "floatlit":
			out(map[string]any{"floatlit": floatlitMode(rq.Hex)})
		default:
			out(map[string]any{"err": "unknown mode"})
		}
	})
}
