// c15: drives the real built-in array / string methods through the real argument binder
// (node.NewObjectMethod(...).GetValue -> CallObjectMethod.callMethodParams -> method.Call).
// stdin: one JSON case per line; stdout: one JSON observation per line.
//
//	{"k":"arr","m":"slice","recv":[E...],"args":[E...],"cb":""}      array method
//	{"k":"arr","m":"map","recv":[...],"args":[],"cb":"pair"}          callback method (named closure)
//	{"k":"seq","recv":[...],"calls":[{"m":..,"args":[..],"cb":..},...]}  calls in sequence on ONE receiver
//	{"k":"prop","recv":[...]}                                          ->length property
//	{"k":"str","m":"substring","srecv":"hello","args":[E...]}         string method
//	{"k":"sstr","form":"var"|"lit","m":..,"srecv":..,"args":[..]}      the string call as script text
//	{"k":"table"}                                                      method table by reflection
//	{"k":"script","form":F,"m":..,"recv":[..],"args":[..],"cb":..,"named":[[name,i]..]}
//	    the same call written as SCRIPT TEXT, parsed and run by the interpreter; F is the receiver /
//	    argument form: var ($a->m(..)), prop ($o->a->m(..)), elem ($w[0]->m(..)), lit (([..])->m(..)),
//	    spread ($a->m(...[..])), named ($a->m(args.., name: v, ..): "named" lists {"n":name,"v":E} in the order written;
//	    the answer carries "pn": the parameter names and kinds of the real method object);
//	    with "alias":"to"|"from"|"prop"|"param" (forms var and chain) a COPY of the receiver is made before the
//	    call ($alias = $a / $a = $alias / $h->a = $a / by-value parameter) and reported as "alias" afterwards;
//	    mix ($a->m(p.., ...[q..], r.., ...$xs): "parts" = [{"s":false,"v":[..]},{"s":true,"var":false,"v":[..]},..]);
//	    chain ($a->m(..)->m2(args2..): "m2","args2","cb2" give the second call; the receiver $a is observed)
//
// E = null | true | false | {"i":"5"} | {"s":"x"} | [E...] | {"f":"<float64 bits>"} | {"o":"<n>"} (an object, one per n)
// every answer carries "atoms": the AsString text of each float / object that occurs in the case
// Observation: {"out":"val","res":E,"after":[E...]} | {"out":"throw"} | {"out":"panic","msg":..}
package main

import (
	"encoding/hex"
	"encoding/json"
	"fmt"
	"math"
	"os"
	"reflect"
	"sort"
	"strconv"
	"strings"
	"unicode"
	"unicode/utf8"

	"verif/harness/vrun"

	"github.com/php-any/origami/data"
	"github.com/php-any/origami/node"
	"github.com/php-any/origami/parser"
)

type Call struct {
	M    string            `json:"m"`
	Args []json.RawMessage `json:"args"`
	Cb   string            `json:"cb"`
}

type Case struct {
	Calls []Call            `json:"calls"`
	K     string            `json:"k"`
	M     string            `json:"m"`
	Recv  []json.RawMessage `json:"recv"`
	SRecv string            `json:"srecv"`
	Args  []json.RawMessage `json:"args"`
	Cb    string            `json:"cb"`
	Form  string            `json:"form"`
	M2    string            `json:"m2"`
	Args2 []json.RawMessage `json:"args2"`
	Cb2   string            `json:"cb2"`
	Alias string            `json:"alias"`
	Parts []Part            `json:"parts"`
	Named []NamedArg        `json:"named"`
}

// Part: a run of the argument list as written: plain arguments, or one ...spread of these values
// (an array literal, or a variable holding it)
type Part struct {
	Spread bool              `json:"s"`
	Var    bool              `json:"var"`
	V      []json.RawMessage `json:"v"`
}

type NamedArg struct {
	N string          `json:"n"`
	V json.RawMessage `json:"v"`
}

type Obs struct {
	Out   string            `json:"out"`
	Res   interface{}       `json:"res"`
	After interface{}       `json:"after,omitempty"`
	Msg   string            `json:"msg,omitempty"`
	Table interface{}       `json:"table,omitempty"`
	Steps []Obs             `json:"steps,omitempty"`
	Atoms map[string]string `json:"atoms,omitempty"`
	Src   string            `json:"src,omitempty"`
	Pn    [][2]string       `json:"pn,omitempty"`
	Tbl   [][2]string       `json:"tbl,omitempty"`
	Alias interface{}       `json:"alias,omitempty"`
}

var (
	atoms     = map[string]string{}
	objects   = map[string]*data.ClassValue{}
	objectIDs = map[*data.ClassValue]string{}
	clsStmt   data.ClassStmt
	ctx       data.Context
	from      = node.NewTokenFrom(nil, 0, 0, 0, 0)
	cbs       = map[string]data.Value{}
)

// the closures, by name: the setup script binds each to $cb_<name> (API-driven cases pass that
// value), script cases inline the same source text as a closure literal
var cbSrc = map[string]string{
	"pair":     `function($e, $i) { return [$e, $i]; }`,
	"idx":      `function($e, $i) { return $i; }`,
	"idxeven":  `function($e, $i) { return $i % 2 == 0; }`,
	"eq2":      `function($e) { return $e === 2; }`,
	"ge1":      `function($e, $i) { return $i >= 1; }`,
	"dup":      `function($e, $i) { return [$e, $e]; }`,
	"self":     `function($e) { return $e; }`,
	"len":      `function($e, $i, $a) { return $a->length; }`,
	"false":    `function($e) { return false; }`,
	"true":     `function($e) { return true; }`,
	"snap":     `function($e, $i, $a) { return [$i, $a]; }`,
	"notfirst": `function($e, $i, $a) { return $a->indexOf($e) !== 0; }`,
	"local":    `function($e) { if (!isset($c)) { $c = 0; } $c = $c + 1; return $c; }`,
	"localacc": `function($e, $i) { $k = $k ?? 10; $k = $k + $i; return $k; }`,
	"default":  `function($e, $i = 7, $arr = null, $extra = 5) { return [$i, $extra]; }`,
	"accdef":   `function($acc, $e, $i = 7, $a = null, $extra = 5) { $t = $t ?? 0; $t = $t + 1; return [$acc, $e, $extra, $t]; }`,
	"acc":      `function($acc, $e, $i) { return [$acc, $e, $i]; }`,
	"acclen":   `function($acc, $e, $i, $a) { return [$acc, $a->length]; }`,
	"t1":       `function($e, $i) { if ($i == 1) { throw new Exception("boom"); } return $i >= 2; }`,
	"t2zero":   `function($e, $i) { if ($i == 2) { throw new Exception("boom"); } return $i == 0; }`,
	"t2pair":   `function($e, $i) { if ($i == 2) { throw new Exception("boom"); } return [$e, $i]; }`,
	"push":     `function($e, $i) { c15_push(); return $i; }`,
	"pusheq1":  `function($e, $i) { c15_push(); return $i == 1; }`,
}

func setupSrc() string {
	var b strings.Builder
	b.WriteString("class C15P { public $p = 0; }\nclass C15H { public $a = null; }\n")
	names := make([]string, 0, len(cbSrc))
	for n := range cbSrc {
		names = append(names, n)
	}
	sort.Strings(names)
	for _, n := range names {
		b.WriteString("$cb_" + n + " = " + cbSrc[n] + ";\n")
	}
	return b.String()
}

// c15_push: a native function the mutating callbacks call: pushes 99 onto the receiver of the
// method call in progress, through the receiver's real push method
var current *data.ArrayValue

type pushFn struct{}

func (pushFn) Call(c data.Context) (data.GetValue, data.Control) {
	if current != nil {
		return node.NewObjectMethod(from, current, "push", []data.GetValue{data.NewIntValue(99)}).GetValue(ctx)
	}
	return nil, nil
}
func (pushFn) GetName() string               { return "c15_push" }
func (pushFn) GetParams() []data.GetValue    { return nil }
func (pushFn) GetVariables() []data.Variable { return nil }

// ---- script-driven calls
var (
	sparser *parser.Parser
	svm     interface {
		CreateContext([]data.Variable) data.Context
	}
	emitted  [][3]data.Value
	caughtAt [][2]data.Value
)

type emitFn struct{}

func (emitFn) Call(c data.Context) (data.GetValue, data.Control) {
	r, _ := c.GetIndexValue(0)
	a, _ := c.GetIndexValue(1)
	al, _ := c.GetIndexValue(2)
	emitted = append(emitted, [3]data.Value{r, a, al})
	return nil, nil
}
func (emitFn) GetName() string { return "c15_emit" }
func (emitFn) GetParams() []data.GetValue {
	return []data.GetValue{node.NewParameter(nil, "r", 0, nil, nil), node.NewParameter(nil, "a", 1, nil, nil), node.NewParameter(nil, "alias", 2, nil, nil)}
}
func (emitFn) GetVariables() []data.Variable {
	return []data.Variable{node.NewVariable(nil, "r", 0, data.NewBaseType("mixed")), node.NewVariable(nil, "a", 1, data.NewBaseType("mixed")), node.NewVariable(nil, "alias", 2, data.NewBaseType("mixed"))}
}

type caughtFn struct{}

func (caughtFn) Call(c data.Context) (data.GetValue, data.Control) {
	a, _ := c.GetIndexValue(0)
	al, _ := c.GetIndexValue(1)
	caughtAt = append(caughtAt, [2]data.Value{a, al})
	return nil, nil
}
func (caughtFn) GetName() string { return "c15_caught" }
func (caughtFn) GetParams() []data.GetValue {
	return []data.GetValue{node.NewParameter(nil, "a", 0, nil, nil), node.NewParameter(nil, "alias", 1, nil, nil)}
}
func (caughtFn) GetVariables() []data.Variable {
	return []data.Variable{node.NewVariable(nil, "a", 0, data.NewBaseType("mixed")), node.NewVariable(nil, "alias", 1, data.NewBaseType("mixed"))}
}

// literal source text of an element (null, bools, ints, strings without quote characters, arrays)
func lit(raw json.RawMessage) (string, bool) {
	s := strings.TrimSpace(string(raw))
	switch {
	case s == "null" || s == "true" || s == "false":
		return s, true
	case strings.HasPrefix(s, "["):
		var items []json.RawMessage
		if err := json.Unmarshal(raw, &items); err != nil {
			return "", false
		}
		parts := make([]string, len(items))
		for i, it := range items {
			t, ok := lit(it)
			if !ok {
				return "", false
			}
			parts[i] = t
		}
		return "[" + strings.Join(parts, ", ") + "]", true
	}
	var o map[string]string
	if err := json.Unmarshal(raw, &o); err != nil {
		return "", false
	}
	if v, ok := o["i"]; ok {
		if v == "-9223372036854775808" {
			return "(-9223372036854775807 - 1)", true
		}
		if strings.HasPrefix(v, "-") {
			return "(" + v + ")", true
		}
		return v, true
	}
	if v, ok := o["s"]; ok {
		if strings.ContainsAny(v, "'\\") {
			return "", false
		}
		return "'" + v + "'", true
	}
	return "", false
}

func runScript(c Case) (o Obs) {
	recvLit, ok := lit(json.RawMessage("[" + joinRaw(c.Recv) + "]"))
	if !ok {
		return Obs{Out: "skip", Msg: "receiver has no literal"}
	}
	args := make([]string, len(c.Args))
	for i, a := range c.Args {
		t, ok := lit(a)
		if !ok {
			return Obs{Out: "skip", Msg: "argument has no literal"}
		}
		args[i] = t
	}
	var list []string
	if c.Cb != "" {
		src, ok := cbSrc[c.Cb]
		if !ok {
			return Obs{Out: "panic", Msg: "no callback " + c.Cb}
		}
		list = append(list, src)
	}
	var pre, recv string
	switch c.Form {
	case "var", "spread", "named", "chain", "mix":
		pre, recv = "$a = "+recvLit+";", "$a"
	case "prop":
		pre, recv = "$o = new C15H(); $o->a = "+recvLit+";", "$o->a"
	case "elem":
		pre, recv = "$w = ["+recvLit+", 0];", "$w[0]"
	case "lit":
		pre, recv = "", "$a"
	default:
		return Obs{Out: "panic", Msg: "bad form " + c.Form}
	}
	switch c.Form {
	case "spread":
		list = append(list, "...["+strings.Join(args, ", ")+"]")
	case "mix":
		// plain arguments and ...spreads in the order written ("args" is not used)
		for pi, part := range c.Parts {
			lits := make([]string, len(part.V))
			for i, v := range part.V {
				t, ok := lit(v)
				if !ok {
					return Obs{Out: "skip", Msg: "argument has no literal"}
				}
				lits[i] = t
			}
			switch {
			case !part.Spread:
				list = append(list, lits...)
			case part.Var:
				name := "$xs" + strconv.Itoa(pi)
				pre += " " + name + " = [" + strings.Join(lits, ", ") + "];"
				list = append(list, "..."+name)
			default:
				list = append(list, "...["+strings.Join(lits, ", ")+"]")
			}
		}
	case "named":
		list = append(list, args...)
		for _, n := range c.Named {
			t, ok := lit(n.V)
			if !ok {
				return Obs{Out: "skip", Msg: "named argument has no literal"}
			}
			list = append(list, n.N+": "+t)
		}
	default:
		list = append(list, args...)
	}
	call := recv + "->" + c.M + "(" + strings.Join(list, ", ") + ")"
	if c.Form == "chain" {
		// $a->m1(..)->m2(..): the second method is applied to the unassigned result of the first
		var list2 []string
		if c.Cb2 != "" {
			src, ok := cbSrc[c.Cb2]
			if !ok {
				return Obs{Out: "panic", Msg: "no callback " + c.Cb2}
			}
			list2 = append(list2, src)
		}
		for _, a := range c.Args2 {
			t, ok := lit(a)
			if !ok {
				return Obs{Out: "skip", Msg: "argument has no literal"}
			}
			list2 = append(list2, t)
		}
		call += "->" + c.M2 + "(" + strings.Join(list2, ", ") + ")"
	}
	var src string
	if c.Form == "lit" {
		// a literal receiver: no variable holds it, only the result is observed (after = the literal)
		src = "$a = " + recvLit + ";\ntry { $r = (" + recvLit + ")->" + c.M + "(" + strings.Join(list, ", ") + "); c15_emit($r, $a); } catch (\\Throwable $e) { c15_caught($a); }\n"
	} else if c.Alias != "" {
		// an ALIAS of the receiver made before the call (forms var / chain): it must keep the
		// receiver's contents from before the call
		switch c.Alias {
		case "to": // the receiver copied to another variable
			src = "$a = " + recvLit + "; $alias = $a;\ntry { $r = " + call + "; c15_emit($r, $a, $alias); } catch (\\Throwable $e) { c15_caught($a, $alias); }\n"
		case "from": // the receiver itself is the copy
			src = "$alias = " + recvLit + "; $a = $alias;\ntry { $r = " + call + "; c15_emit($r, $a, $alias); } catch (\\Throwable $e) { c15_caught($a, $alias); }\n"
		case "prop": // the receiver copied into an object property
			src = "$a = " + recvLit + "; $h = new C15H(); $h->a = $a;\ntry { $r = " + call + "; c15_emit($r, $a, $h->a); } catch (\\Throwable $e) { c15_caught($a, $h->a); }\n"
		case "param": // the receiver is a by-value parameter: the caller's variable is the alias
			src = "$alias = " + recvLit + ";\n$f = function($a) { $r = " + call + "; return [$r, $a]; };\n" +
				"try { $p = $f($alias); c15_emit($p[0], $p[1], $alias); } catch (\\Throwable $e) { c15_caught($alias, $alias); }\n"
		default:
			return Obs{Out: "panic", Msg: "bad alias kind " + c.Alias}
		}
	} else {
		src = pre + "\ntry { $r = " + call + "; c15_emit($r, " + recv + "); } catch (\\Throwable $e) { c15_caught(" + recv + "); }\n"
	}
	emitted, caughtAt, current = nil, nil, nil
	defer func() {
		if r := recover(); r != nil {
			o = Obs{Out: "panic", Msg: fmt.Sprint(r), Src: src}
		}
	}()
	prog, acl := sparser.ParseString(src, "c15s.zy")
	if acl != nil {
		return Obs{Out: "parse", Msg: acl.AsString(), Src: src}
	}
	sc := svm.CreateContext(sparser.GetVariables())
	if _, ctl := prog.GetValue(sc); ctl != nil {
		return Obs{Out: "panic", Msg: "control escaped try/catch: " + ctl.AsString(), Src: src}
	}
	var pn [][2]string
	if c.Form == "named" {
		// the parameter names and kinds of the real method object
		if m, ok := data.NewArrayValue(nil).(*data.ArrayValue).GetMethod(c.M); ok {
			for _, p := range m.GetParams() {
				name := "?"
				if n, ok := p.(data.GetName); ok {
					name = n.GetName()
				}
				kind := "S"
				if _, ok := p.(*data.ParametersTODO); ok {
					kind = "V"
				}
				pn = append(pn, [2]string{name, kind})
			}
		}
	}
	if len(caughtAt) == 1 && len(emitted) == 0 {
		o := Obs{Out: "throw", After: enc(caughtAt[0][0]), Src: src, Pn: pn}
		if c.Alias != "" {
			o.Alias = enc(caughtAt[0][1])
		}
		return o
	}
	if len(emitted) != 1 || len(caughtAt) != 0 {
		return Obs{Out: "panic", Msg: fmt.Sprintf("emitted %d caught %d", len(emitted), len(caughtAt)), Src: src}
	}
	o = Obs{Out: "val", Res: enc(emitted[0][0]), After: enc(emitted[0][1]), Src: src, Pn: pn}
	if c.Alias != "" {
		o.Alias = enc(emitted[0][2])
	}
	return o
}

func runStrScript(c Case) (o Obs) {
	rl, ok := lit(json.RawMessage(mustJSON(map[string]string{"s": c.SRecv})))
	if !ok {
		return Obs{Out: "skip", Msg: "receiver has no literal"}
	}
	args := make([]string, len(c.Args))
	for i, a := range c.Args {
		t, ok := lit(a)
		if !ok {
			return Obs{Out: "skip", Msg: "argument has no literal"}
		}
		args[i] = t
	}
	recv := "$s"
	if c.Form == "lit" {
		recv = "(" + rl + ")" // a bare literal receiver is accepted in argument position only; parenthesised everywhere
	}
	src := "$s = " + rl + ";\ntry { $r = " + recv + "->" + c.M + "(" + strings.Join(args, ", ") + "); c15_emit($r, $s); } catch (\\Throwable $e) { c15_caught($s); }\n"
	emitted, caughtAt, current = nil, nil, nil
	defer func() {
		if r := recover(); r != nil {
			o = Obs{Out: "panic", Msg: fmt.Sprint(r), Src: src}
		}
	}()
	prog, acl := sparser.ParseString(src, "c15ss.zy")
	if acl != nil {
		return Obs{Out: "parse", Msg: acl.AsString(), Src: src}
	}
	sc := svm.CreateContext(sparser.GetVariables())
	if _, ctl := prog.GetValue(sc); ctl != nil {
		return Obs{Out: "panic", Msg: "control escaped try/catch: " + ctl.AsString(), Src: src}
	}
	if len(caughtAt) == 1 && len(emitted) == 0 {
		return Obs{Out: "throw", After: enc(caughtAt[0][0]), Src: src}
	}
	if len(emitted) != 1 || len(caughtAt) != 0 {
		return Obs{Out: "panic", Msg: fmt.Sprintf("emitted %d caught %d", len(emitted), len(caughtAt)), Src: src}
	}
	return Obs{Out: "val", Res: enc(emitted[0][0]), After: enc(emitted[0][1]), Src: src}
}

func mustJSON(v interface{}) []byte {
	b, err := json.Marshal(v)
	if err != nil {
		panic(err)
	}
	return b
}

func joinRaw(l []json.RawMessage) string {
	parts := make([]string, len(l))
	for i, r := range l {
		parts[i] = string(r)
	}
	return strings.Join(parts, ",")
}

func dec(raw json.RawMessage) data.Value {
	s := strings.TrimSpace(string(raw))
	switch {
	case s == "null":
		return data.NewNullValue()
	case s == "true":
		return data.NewBoolValue(true)
	case s == "false":
		return data.NewBoolValue(false)
	case strings.HasPrefix(s, "["):
		var items []json.RawMessage
		if err := json.Unmarshal(raw, &items); err != nil {
			panic(err)
		}
		vs := make([]data.Value, len(items))
		for i, it := range items {
			vs[i] = dec(it)
		}
		return data.NewArrayValue(vs)
	}
	var o map[string]string
	if err := json.Unmarshal(raw, &o); err != nil {
		panic("bad element " + s)
	}
	if v, ok := o["i"]; ok {
		n, err := strconv.ParseInt(v, 10, 64)
		if err != nil {
			panic(err)
		}
		return data.NewIntValue(int(n))
	}
	if v, ok := o["s"]; ok {
		return data.NewStringValue(v)
	}
	if v, ok := o["f"]; ok {
		b, err := strconv.ParseUint(v, 10, 64)
		if err != nil {
			panic(err)
		}
		fv := data.NewFloatValue(math.Float64frombits(b))
		atoms["f:"+v] = fv.AsString()
		return fv
	}
	if v, ok := o["o"]; ok {
		if ov, ok := objects[v]; ok {
			atoms["o:"+v] = ov.AsString()
			return ov
		}
		// a class instance (identity is preserved when it is passed around; a plain ObjectValue is
		// copied by SetVariableValue like an array)
		ov := data.NewClassValue(clsStmt, ctx)
		n, _ := strconv.Atoi(v)
		ov.SetProperty("p", data.NewIntValue(n))
		objects[v] = ov
		objectIDs[ov] = v
		atoms["o:"+v] = ov.AsString()
		return ov
	}
	panic("bad element " + s)
}

func enc(v data.GetValue) interface{} {
	switch x := v.(type) {
	case nil:
		return map[string]string{"x": "nil"}
	case *data.NullValue:
		return nil
	case *data.BoolValue:
		return x.Value
	case *data.IntValue:
		return map[string]string{"i": strconv.Itoa(x.Value)}
	case *data.StringValue:
		if !utf8.ValidString(x.Value) {
			return map[string]string{"h": hex.EncodeToString([]byte(x.Value))}
		}
		return map[string]string{"s": x.Value}
	case *data.FloatValue:
		b := strconv.FormatUint(math.Float64bits(x.Value), 10)
		atoms["f:"+b] = x.AsString()
		return map[string]string{"f": b}
	case *data.ClassValue:
		if id, ok := objectIDs[x]; ok {
			atoms["o:"+id] = x.AsString()
			return map[string]string{"o": id}
		}
		return map[string]string{"x": "unknown object"}
	case *data.ArrayValue:
		out := make([]interface{}, len(x.List))
		for i, z := range x.List {
			out[i] = enc(z.Value)
		}
		return out
	}
	return map[string]string{"x": fmt.Sprintf("%T", v)}
}

func finish(recv *data.ArrayValue, g data.GetValue, c data.Control) Obs {
	if c != nil {
		if _, ok := c.(*data.ThrowValue); ok {
			o := Obs{Out: "throw", Msg: c.AsString()}
			if recv != nil {
				o.After = enc(recv)
			}
			return o
		}
		return Obs{Out: "control", Msg: fmt.Sprintf("%T", c)}
	}
	o := Obs{Out: "val", Res: enc(g)}
	if recv != nil {
		o.After = enc(recv)
	}
	return o
}

func table() Obs {
	arr := data.NewArrayValue(nil).(*data.ArrayValue)
	names := []string{"push", "pop", "shift", "unshift", "slice", "splice", "concat", "join", "reverse", "sort",
		"indexOf", "includes", "flat", "map", "filter", "find", "findIndex", "forEach", "every", "some", "reduce", "flatMap",
		"length", "at", "fill", "keys"}
	t := map[string]interface{}{}
	for _, n := range names {
		m, ok := arr.GetMethod(n)
		if !ok {
			continue
		}
		capture := "value"
		rv := reflect.ValueOf(m)
		if rv.Kind() == reflect.Ptr && rv.Elem().Kind() == reflect.Struct && rv.Elem().NumField() > 0 {
			if rv.Elem().Field(0).Kind() == reflect.Ptr {
				capture = "pointer"
			}
		}
		sig := []string{}
		for _, p := range m.GetParams() {
			switch p.(type) {
			case *data.ParametersTODO:
				sig = append(sig, "V")
			default:
				sig = append(sig, "S")
			}
		}
		t[n] = map[string]interface{}{"capture": capture, "sig": sig}
	}
	str := data.NewStringValue("x").(*data.StringValue)
	snames := []string{}
	for _, n := range []string{"length", "indexOf", "substring", "replace", "split", "trim", "toUpperCase", "toLowerCase", "startsWith", "endsWith", "charAt", "includes"} {
		if _, ok := str.GetMethod(n); ok {
			snames = append(snames, n)
		}
	}
	sort.Strings(snames)
	t["$string"] = snames
	return Obs{Out: "table", Table: t}
}

func runCase(c Case) (o Obs) {
	defer func() {
		if r := recover(); r != nil {
			o = Obs{Out: "panic", Msg: fmt.Sprint(r)}
		}
	}()
	switch c.K {
	case "table":
		return table()
	case "script":
		return runScript(c)
	case "arr":
		vs := make([]data.Value, len(c.Recv))
		for i, r := range c.Recv {
			vs[i] = dec(r)
		}
		recv := data.NewArrayValue(vs).(*data.ArrayValue)
		current = recv
		var args []data.GetValue
		if c.Cb != "" {
			f, ok := cbs[c.Cb]
			if !ok {
				return Obs{Out: "panic", Msg: "no callback " + c.Cb}
			}
			args = append(args, f)
		}
		for _, a := range c.Args {
			args = append(args, dec(a))
		}
		g, ctl := node.NewObjectMethod(from, recv, c.M, args).GetValue(ctx)
		return finish(recv, g, ctl)
	case "seq":
		// several calls on ONE receiver object (its slot list keeps its history: spare capacity
		// after push/pop/splice, reordered backing array after sort/reverse, ...)
		vs := make([]data.Value, len(c.Recv))
		for i, r := range c.Recv {
			vs[i] = dec(r)
		}
		recv := data.NewArrayValue(vs).(*data.ArrayValue)
		res := Obs{Out: "seq"}
		for _, call := range c.Calls {
			call := call
			step := func() (o Obs) {
				defer func() {
					if r := recover(); r != nil {
						o = Obs{Out: "panic", Msg: fmt.Sprint(r), After: enc(recv)}
					}
				}()
				var args []data.GetValue
				if call.Cb != "" {
					f, ok := cbs[call.Cb]
					if !ok {
						return Obs{Out: "panic", Msg: "no callback " + call.Cb}
					}
					args = append(args, f)
				}
				for _, a := range call.Args {
					args = append(args, dec(a))
				}
				g, ctl := node.NewObjectMethod(from, recv, call.M, args).GetValue(ctx)
				return finish(recv, g, ctl)
			}()
			res.Steps = append(res.Steps, step)
		}
		return res
	case "prop":
		vs := make([]data.Value, len(c.Recv))
		for i, r := range c.Recv {
			vs[i] = dec(r)
		}
		recv := data.NewArrayValue(vs).(*data.ArrayValue)
		g, ctl := recv.GetProperty("length")
		return finish(recv, g, ctl)
	case "str", "sstr":
		var o Obs
		if c.K == "sstr" {
			// the same string call as SCRIPT TEXT: $s = 'lit'; $s->m(args)   or   ('lit')->m(args)
			o = runStrScript(c)
			if o.Out != "val" && o.Out != "throw" {
				return o
			}
		} else {
			recv := data.NewStringValue(c.SRecv)
			var args []data.GetValue
			for _, a := range c.Args {
				args = append(args, dec(a))
			}
			g, ctl := node.NewObjectMethod(from, recv, c.M, args).GetValue(ctx)
			o = finish(nil, g, ctl)
			o.After = map[string]string{"s": recv.(*data.StringValue).Value}
		}
		if c.M == "toUpperCase" || c.M == "toLowerCase" {
			// reference: the image of every non-ASCII code point of the receiver under Go's
			// unicode.ToUpper / ToLower, computed here without origami code
			seen := map[rune]bool{}
			for _, r := range c.SRecv {
				if r < 128 || seen[r] {
					continue
				}
				seen[r] = true
				img := unicode.ToLower(r)
				if c.M == "toUpperCase" {
					img = unicode.ToUpper(r)
				}
				o.Tbl = append(o.Tbl, [2]string{string(r), string(img)})
			}
		}
		return o
	}
	return Obs{Out: "panic", Msg: "bad case kind"}
}

func main() {
	vm, ps := vrun.NewVM()
	if ctl := vm.AddFunc(pushFn{}); ctl != nil {
		fmt.Fprintln(os.Stderr, "setup: c15_push:", ctl.AsString())
		os.Exit(2)
	}
	for _, f := range []data.FuncStmt{emitFn{}, caughtFn{}} {
		if ctl := vm.AddFunc(f); ctl != nil {
			fmt.Fprintln(os.Stderr, "setup:", f.GetName(), ctl.AsString())
			os.Exit(2)
		}
	}
	sparser, svm = ps, vm
	prog, acl := ps.ParseString(setupSrc(), "c15.zy")
	if acl != nil {
		fmt.Fprintln(os.Stderr, "setup parse:", acl.AsString())
		os.Exit(2)
	}
	ctx = vm.CreateContext(ps.GetVariables())
	if _, c := prog.GetValue(ctx); c != nil {
		fmt.Fprintln(os.Stderr, "setup run:", c.AsString())
		os.Exit(2)
	}
	for _, v := range ps.GetVariables() {
		if strings.HasPrefix(v.GetName(), "cb_") {
			val, c := ctx.GetVariableValue(v)
			if c != nil {
				fmt.Fprintln(os.Stderr, "setup var:", c.AsString())
				os.Exit(2)
			}
			cbs[strings.TrimPrefix(v.GetName(), "cb_")] = val
		}
	}
	if cs, ok := vm.GetClass("C15P"); ok {
		clsStmt = cs
	} else {
		fmt.Fprintln(os.Stderr, "setup: class C15P missing")
		os.Exit(2)
	}
	if len(cbs) < 10 {
		fmt.Fprintln(os.Stderr, "setup: callbacks missing", len(cbs))
		os.Exit(2)
	}
	w := json.NewEncoder(os.Stdout)
	vrun.Lines(func(line string) {
		if strings.TrimSpace(line) == "" {
			return
		}
		var c Case
		if err := json.Unmarshal([]byte(line), &c); err != nil {
			w.Encode(Obs{Out: "panic", Msg: "bad json: " + err.Error()})
			return
		}
		atoms = map[string]string{}
		o := runCase(c)
		if len(atoms) > 0 {
			o.Atoms = atoms
		}
		w.Encode(o)
	})
}
