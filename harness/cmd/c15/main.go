// c15: drives the real built-in array / string methods through the real argument binder
// (node.NewObjectMethod(...).GetValue -> CallObjectMethod.callMethodParams -> method.Call).
// stdin: one JSON case per line; stdout: one JSON observation per line.
//
//	{"k":"arr","m":"slice","recv":[E...],"args":[E...],"cb":""}      array method
//	{"k":"arr","m":"map","recv":[...],"args":[],"cb":"pair"}          callback method (named closure)
//	{"k":"seq","recv":[...],"calls":[{"m":..,"args":[..],"cb":..},...]}  calls in sequence on ONE receiver
//	{"k":"prop","recv":[...]}                                          ->length property
//	{"k":"str","m":"substring","srecv":"hello","args":[E...]}         string method
//	{"k":"table"}                                                      method table by reflection
//
// E = null | true | false | {"i":"5"} | {"s":"x"} | [E...] | {"f":"<float64 bits>"} | {"o":"<n>"} (an object, one per n)
// every answer carries "atoms": the AsString text of each float / object that occurs in the case
// Observation: {"out":"val","res":E,"after":[E...]} | {"out":"throw"} | {"out":"panic","msg":..}
package main

import (
	"encoding/hex"
	"encoding/json"
	"fmt"
	"math"
	"os"
	"reflect"
	"sort"
	"strconv"
	"strings"
	"unicode/utf8"

	"verif/harness/vrun"

	"github.com/php-any/origami/data"
	"github.com/php-any/origami/node"
)

type Call struct {
	M    string            `json:"m"`
	Args []json.RawMessage `json:"args"`
	Cb   string            `json:"cb"`
}

type Case struct {
	Calls []Call            `json:"calls"`
	K     string            `json:"k"`
	M     string            `json:"m"`
	Recv  []json.RawMessage `json:"recv"`
	SRecv string            `json:"srecv"`
	Args  []json.RawMessage `json:"args"`
	Cb    string            `json:"cb"`
}

type Obs struct {
	Out   string            `json:"out"`
	Res   interface{}       `json:"res"`
	After interface{}       `json:"after,omitempty"`
	Msg   string            `json:"msg,omitempty"`
	Table interface{}       `json:"table,omitempty"`
	Steps []Obs             `json:"steps,omitempty"`
	Atoms map[string]string `json:"atoms,omitempty"`
}

var (
	atoms     = map[string]string{}
	objects   = map[string]*data.ClassValue{}
	objectIDs = map[*data.ClassValue]string{}
	clsStmt   data.ClassStmt
	ctx       data.Context
	from      = node.NewTokenFrom(nil, 0, 0, 0, 0)
	cbs       = map[string]data.Value{}
)

const setup = `
class C15P { public $p = 0; }
$cb_pair = function($e, $i) { return [$e, $i]; };
$cb_idx = function($e, $i) { return $i; };
$cb_idxeven = function($e, $i) { return $i % 2 == 0; };
$cb_eq2 = function($e) { return $e === 2; };
$cb_ge1 = function($e, $i) { return $i >= 1; };
$cb_dup = function($e, $i) { return [$e, $e]; };
$cb_self = function($e) { return $e; };
$cb_len = function($e, $i, $a) { return $a->length; };
$cb_false = function($e) { return false; };
$cb_true = function($e) { return true; };
$cb_acc = function($acc, $e, $i) { return [$acc, $e, $i]; };
$cb_acclen = function($acc, $e, $i, $a) { return [$acc, $a->length]; };
$cb_t1 = function($e, $i) { if ($i == 1) { throw new Exception("boom"); } return $i >= 2; };
$cb_t2zero = function($e, $i) { if ($i == 2) { throw new Exception("boom"); } return $i == 0; };
$cb_t2pair = function($e, $i) { if ($i == 2) { throw new Exception("boom"); } return [$e, $i]; };
$cb_push = function($e, $i) { c15_push(); return $i; };
$cb_pusheq1 = function($e, $i) { c15_push(); return $i == 1; };
`

// c15_push: a native function the mutating callbacks call: pushes 99 onto the receiver of the
// method call in progress, through the receiver's real push method
var current *data.ArrayValue

type pushFn struct{}

func (pushFn) Call(c data.Context) (data.GetValue, data.Control) {
	if current != nil {
		return node.NewObjectMethod(from, current, "push", []data.GetValue{data.NewIntValue(99)}).GetValue(ctx)
	}
	return nil, nil
}
func (pushFn) GetName() string               { return "c15_push" }
func (pushFn) GetParams() []data.GetValue    { return nil }
func (pushFn) GetVariables() []data.Variable { return nil }

func dec(raw json.RawMessage) data.Value {
	s := strings.TrimSpace(string(raw))
	switch {
	case s == "null":
		return data.NewNullValue()
	case s == "true":
		return data.NewBoolValue(true)
	case s == "false":
		return data.NewBoolValue(false)
	case strings.HasPrefix(s, "["):
		var items []json.RawMessage
		if err := json.Unmarshal(raw, &items); err != nil {
			panic(err)
		}
		vs := make([]data.Value, len(items))
		for i, it := range items {
			vs[i] = dec(it)
		}
		return data.NewArrayValue(vs)
	}
	var o map[string]string
	if err := json.Unmarshal(raw, &o); err != nil {
		panic("bad element " + s)
	}
	if v, ok := o["i"]; ok {
		n, err := strconv.ParseInt(v, 10, 64)
		if err != nil {
			panic(err)
		}
		return data.NewIntValue(int(n))
	}
	if v, ok := o["s"]; ok {
		return data.NewStringValue(v)
	}
	if v, ok := o["f"]; ok {
		b, err := strconv.ParseUint(v, 10, 64)
		if err != nil {
			panic(err)
		}
		fv := data.NewFloatValue(math.Float64frombits(b))
		atoms["f:"+v] = fv.AsString()
		return fv
	}
	if v, ok := o["o"]; ok {
		if ov, ok := objects[v]; ok {
			atoms["o:"+v] = ov.AsString()
			return ov
		}
		// a class instance (identity is preserved when it is passed around; a plain ObjectValue is
		// copied by SetVariableValue like an array)
		ov := data.NewClassValue(clsStmt, ctx)
		n, _ := strconv.Atoi(v)
		ov.SetProperty("p", data.NewIntValue(n))
		objects[v] = ov
		objectIDs[ov] = v
		atoms["o:"+v] = ov.AsString()
		return ov
	}
	panic("bad element " + s)
}

func enc(v data.GetValue) interface{} {
	switch x := v.(type) {
	case nil:
		return map[string]string{"x": "nil"}
	case *data.NullValue:
		return nil
	case *data.BoolValue:
		return x.Value
	case *data.IntValue:
		return map[string]string{"i": strconv.Itoa(x.Value)}
	case *data.StringValue:
		if !utf8.ValidString(x.Value) {
			return map[string]string{"h": hex.EncodeToString([]byte(x.Value))}
		}
		return map[string]string{"s": x.Value}
	case *data.FloatValue:
		b := strconv.FormatUint(math.Float64bits(x.Value), 10)
		atoms["f:"+b] = x.AsString()
		return map[string]string{"f": b}
	case *data.ClassValue:
		if id, ok := objectIDs[x]; ok {
			atoms["o:"+id] = x.AsString()
			return map[string]string{"o": id}
		}
		return map[string]string{"x": "unknown object"}
	case *data.ArrayValue:
		out := make([]interface{}, len(x.List))
		for i, z := range x.List {
			out[i] = enc(z.Value)
		}
		return out
	}
	return map[string]string{"x": fmt.Sprintf("%T", v)}
}

func finish(recv *data.ArrayValue, g data.GetValue, c data.Control) Obs {
	if c != nil {
		if _, ok := c.(*data.ThrowValue); ok {
			o := Obs{Out: "throw", Msg: c.AsString()}
			if recv != nil {
				o.After = enc(recv)
			}
			return o
		}
		return Obs{Out: "control", Msg: fmt.Sprintf("%T", c)}
	}
	o := Obs{Out: "val", Res: enc(g)}
	if recv != nil {
		o.After = enc(recv)
	}
	return o
}

func table() Obs {
	arr := data.NewArrayValue(nil).(*data.ArrayValue)
	names := []string{"push", "pop", "shift", "unshift", "slice", "splice", "concat", "join", "reverse", "sort",
		"indexOf", "includes", "flat", "map", "filter", "find", "findIndex", "forEach", "every", "some", "reduce", "flatMap",
		"length", "at", "fill", "keys"}
	t := map[string]interface{}{}
	for _, n := range names {
		m, ok := arr.GetMethod(n)
		if !ok {
			continue
		}
		capture := "value"
		rv := reflect.ValueOf(m)
		if rv.Kind() == reflect.Ptr && rv.Elem().Kind() == reflect.Struct && rv.Elem().NumField() > 0 {
			if rv.Elem().Field(0).Kind() == reflect.Ptr {
				capture = "pointer"
			}
		}
		sig := []string{}
		for _, p := range m.GetParams() {
			switch p.(type) {
			case *data.ParametersTODO:
				sig = append(sig, "V")
			default:
				sig = append(sig, "S")
			}
		}
		t[n] = map[string]interface{}{"capture": capture, "sig": sig}
	}
	str := data.NewStringValue("x").(*data.StringValue)
	snames := []string{}
	for _, n := range []string{"length", "indexOf", "substring", "replace", "split", "trim", "toUpperCase", "toLowerCase", "startsWith", "endsWith", "charAt", "includes"} {
		if _, ok := str.GetMethod(n); ok {
			snames = append(snames, n)
		}
	}
	sort.Strings(snames)
	t["$string"] = snames
	return Obs{Out: "table", Table: t}
}

func runCase(c Case) (o Obs) {
	defer func() {
		if r := recover(); r != nil {
			o = Obs{Out: "panic", Msg: fmt.Sprint(r)}
		}
	}()
	switch c.K {
	case "table":
		return table()
	case "arr":
		vs := make([]data.Value, len(c.Recv))
		for i, r := range c.Recv {
			vs[i] = dec(r)
		}
		recv := data.NewArrayValue(vs).(*data.ArrayValue)
		current = recv
		var args []data.GetValue
		if c.Cb != "" {
			f, ok := cbs[c.Cb]
			if !ok {
				return Obs{Out: "panic", Msg: "no callback " + c.Cb}
			}
			args = append(args, f)
		}
		for _, a := range c.Args {
			args = append(args, dec(a))
		}
		g, ctl := node.NewObjectMethod(from, recv, c.M, args).GetValue(ctx)
		return finish(recv, g, ctl)
	case "seq":
		// several calls on ONE receiver object (its slot list keeps its history: spare capacity
		// after push/pop/splice, reordered backing array after sort/reverse, ...)
		vs := make([]data.Value, len(c.Recv))
		for i, r := range c.Recv {
			vs[i] = dec(r)
		}
		recv := data.NewArrayValue(vs).(*data.ArrayValue)
		res := Obs{Out: "seq"}
		for _, call := range c.Calls {
			call := call
			step := func() (o Obs) {
				defer func() {
					if r := recover(); r != nil {
						o = Obs{Out: "panic", Msg: fmt.Sprint(r), After: enc(recv)}
					}
				}()
				var args []data.GetValue
				if call.Cb != "" {
					f, ok := cbs[call.Cb]
					if !ok {
						return Obs{Out: "panic", Msg: "no callback " + call.Cb}
					}
					args = append(args, f)
				}
				for _, a := range call.Args {
					args = append(args, dec(a))
				}
				g, ctl := node.NewObjectMethod(from, recv, call.M, args).GetValue(ctx)
				return finish(recv, g, ctl)
			}()
			res.Steps = append(res.Steps, step)
		}
		return res
	case "prop":
		vs := make([]data.Value, len(c.Recv))
		for i, r := range c.Recv {
			vs[i] = dec(r)
		}
		recv := data.NewArrayValue(vs).(*data.ArrayValue)
		g, ctl := recv.GetProperty("length")
		return finish(recv, g, ctl)
	case "str":
		recv := data.NewStringValue(c.SRecv)
		var args []data.GetValue
		for _, a := range c.Args {
			args = append(args, dec(a))
		}
		g, ctl := node.NewObjectMethod(from, recv, c.M, args).GetValue(ctx)
		o := finish(nil, g, ctl)
		o.After = map[string]string{"s": recv.(*data.StringValue).Value}
		return o
	}
	return Obs{Out: "panic", Msg: "bad case kind"}
}

func main() {
	vm, ps := vrun.NewVM()
	if ctl := vm.AddFunc(pushFn{}); ctl != nil {
		fmt.Fprintln(os.Stderr, "setup: c15_push:", ctl.AsString())
		os.Exit(2)
	}
	prog, acl := ps.ParseString(setup, "c15.zy")
	if acl != nil {
		fmt.Fprintln(os.Stderr, "setup parse:", acl.AsString())
		os.Exit(2)
	}
	ctx = vm.CreateContext(ps.GetVariables())
	if _, c := prog.GetValue(ctx); c != nil {
		fmt.Fprintln(os.Stderr, "setup run:", c.AsString())
		os.Exit(2)
	}
	for _, v := range ps.GetVariables() {
		if strings.HasPrefix(v.GetName(), "cb_") {
			val, c := ctx.GetVariableValue(v)
			if c != nil {
				fmt.Fprintln(os.Stderr, "setup var:", c.AsString())
				os.Exit(2)
			}
			cbs[strings.TrimPrefix(v.GetName(), "cb_")] = val
		}
	}
	if cs, ok := vm.GetClass("C15P"); ok {
		clsStmt = cs
	} else {
		fmt.Fprintln(os.Stderr, "setup: class C15P missing")
		os.Exit(2)
	}
	if len(cbs) < 10 {
		fmt.Fprintln(os.Stderr, "setup: callbacks missing", len(cbs))
		os.Exit(2)
	}
	w := json.NewEncoder(os.Stdout)
	vrun.Lines(func(line string) {
		if strings.TrimSpace(line) == "" {
			return
		}
		var c Case
		if err := json.Unmarshal([]byte(line), &c); err != nil {
			w.Encode(Obs{Out: "panic", Msg: "bad json: " + err.Error()})
			return
		}
		atoms = map[string]string{}
		o := runCase(c)
		if len(atoms) > 0 {
			o.Atoms = atoms
		}
		w.Encode(o)
	})
}
