// c04: drives the real lexer + parser (+ interpreter) of /repo on expression sources.
// stdin: one JSON case per line {"src":"<expression>", "pre":"<statements run before>", "eval":true}
// stdout: one JSON observation per line:
//
//	toks   token stream of `src;` as the real lexer (incl. preprocessor) produced it, projected to
//	       [class, text] pairs (class: var int float num str true false null op ident other)
//	tree   s-expression of the parsed statement (only when the program has exactly one statement)
//	nstmt  number of top-level statements the parser produced
//	perr   parse error text (not compared), panic text if the parser panicked
//	val    outcome of running  pre; $r = src; var_dump($r, vars...)  on a fresh VM (when eval)
package main

import (
	"encoding/json"
	"fmt"
	"os"
	"strconv"
	"strings"

	"verif/harness/vrun"

	"github.com/php-any/origami/data"
	"github.com/php-any/origami/lexer"
	"github.com/php-any/origami/node"
	"github.com/php-any/origami/token"
)

type Case struct {
	Src  string `json:"src"`
	Pre  string `json:"pre"`
	Post string `json:"post"`
	Eval bool   `json:"eval"`
}

type Obs struct {
	Toks  [][2]string `json:"toks"`
	Tree  string      `json:"tree,omitempty"`
	Nstmt int         `json:"nstmt"`
	Perr  string      `json:"perr,omitempty"`
	Panic string      `json:"panic,omitempty"`
	Val   string      `json:"val,omitempty"`
	Vout  string      `json:"vout,omitempty"`
}

func tokClass(t lexer.Token) [2]string {
	switch t.Type() {
	case token.VARIABLE:
		return [2]string{"var", t.Literal()}
	case token.INT:
		return [2]string{"int", t.Literal()}
	case token.FLOAT:
		return [2]string{"float", t.Literal()}
	case token.NUMBER:
		return [2]string{"num", t.Literal()}
	case token.STRING:
		return [2]string{"str", t.Literal()}
	case token.TRUE:
		return [2]string{"true", ""}
	case token.FALSE:
		return [2]string{"false", ""}
	case token.NULL:
		return [2]string{"null", ""}
	case token.IDENTIFIER, token.BOOL, token.ARRAY:
		return [2]string{"ident", t.Literal()}
	}
	ty := t.Type()
	if ty > token.KEYWORD_END && ty < token.INTERPOLATION_TOKEN {
		// operator / punctuation from the token table: identified by its table literal
		return [2]string{"op", token.GetLiteralByType(ty)}
	}
	return [2]string{"other", fmt.Sprintf("%d:%s", int(ty), t.Literal())}
}

// dump renders the expression nodes the C04 model knows; anything else is (other <GoType>).
func dump(v data.GetValue) string {
	if v == nil {
		return "(nil)"
	}
	bin := func(op string, l, r data.GetValue) string { return "(" + op + " " + dump(l) + " " + dump(r) + ")" }
	switch n := v.(type) {
	case *node.VariableExpression:
		return "(var " + n.Name + ")"
	case *node.IntLiteral:
		if iv, ok := n.V.(*data.IntValue); ok {
			return "(int " + strconv.Itoa(iv.Value) + ")"
		}
		return "(int ?)"
	case *node.FloatLiteral:
		return "(float " + n.V.AsString() + ")"
	case *node.StringLiteral:
		return "(str " + strconv.Quote(n.Value) + ")"
	case *node.BooleanLiteral:
		if n.Value {
			return "(true)"
		}
		return "(false)"
	case *node.NullLiteral:
		return "(null)"
	case *node.BinaryAdd:
		return bin("+", n.Left, n.Right)
	case *node.BinarySub:
		return bin("-", n.Left, n.Right)
	case *node.BinaryMul:
		return bin("*", n.Left, n.Right)
	case *node.BinaryQuo:
		return bin("/", n.Left, n.Right)
	case *node.BinaryRem:
		return bin("%", n.Left, n.Right)
	case *node.BinaryPow:
		return bin("**", n.Left, n.Right)
	case *node.BinaryDot:
		return bin(".", n.Left, n.Right)
	case *node.BinaryEq:
		return bin("==", n.Left, n.Right)
	case *node.BinaryNe:
		return bin("!=", n.Left, n.Right)
	case *node.BinaryEqStrict:
		return bin("===", n.Left, n.Right)
	case *node.BinaryNeStrict:
		return bin("!==", n.Left, n.Right)
	case *node.BinaryLt:
		return bin("<", n.Left, n.Right)
	case *node.BinaryLe:
		return bin("<=", n.Left, n.Right)
	case *node.VarIntLe: // fast path built by NewBinaryLe for `$v <= int`; keeps the plain node in Le
		return dump(n.Le)
	case *node.BinaryGt:
		return bin(">", n.Left, n.Right)
	case *node.BinaryGe:
		return bin(">=", n.Left, n.Right)
	case *node.BinarySpaceship:
		return bin("<=>", n.Left, n.Right)
	case *node.BinaryLand:
		return bin("&&", n.Left, n.Right)
	case *node.BinaryLor:
		return bin("||", n.Left, n.Right)
	case *node.BinaryBitAnd:
		return bin("&", n.Left, n.Right)
	case *node.BinaryBitXor:
		return bin("^", n.Left, n.Right)
	case *node.BinaryBitOr:
		return bin("|", n.Left, n.Right)
	case *node.BinaryShl:
		return bin("<<", n.Left, n.Right)
	case *node.BinaryShr:
		return bin(">>", n.Left, n.Right)
	case *node.NullCoalesceExpression:
		return bin("??", n.Left, n.Right)
	case *node.BinaryAssign:
		return bin("=", n.Left, n.Right)
	case *node.BinaryAssignVariable:
		return bin("=", n.Left, n.Right)
	case *node.VarFastAssign:
		return bin("=", n.Dst, n.Slow)
	case *node.UnaryExpression:
		return "(un" + n.Operator + " " + dump(n.Right) + ")"
	case *node.TernaryExpression:
		return "(?: " + dump(n.Condition) + " " + dump(n.TrueValue) + " " + dump(n.FalseValue) + ")"
	case *node.CallExpression:
		if len(n.Args) == 1 {
			return "(cast " + n.FunName + " " + dump(n.Args[0]) + ")"
		}
		if len(n.Args) >= 2 { // the comma-list wrappers of checks/C04.py: h2($a, E)
			return wrap(n.Args)
		}
	case *node.CallLater:
		return dump(n.CallExpression)
	case *node.Array: // [$a, E]
		if len(n.Keys) == 0 {
			return wrap(n.V)
		}
	case *node.EchoStatement: // echo $a, "s", E
		return wrap(n.Expressions)
	}
	return fmt.Sprintf("(other %T)", v)
}

func wrap(l []data.GetValue) string {
	s := "(wrap"
	for _, e := range l {
		s += " " + dump(e)
	}
	return s + ")"
}

func observe(c Case) (o Obs) {
	func() {
		defer func() {
			if r := recover(); r != nil {
				o.Panic = "lex: " + fmt.Sprint(r)
			}
		}()
		for _, t := range lexer.NewLexer().Tokenize(c.Src + ";") {
			o.Toks = append(o.Toks, tokClass(t))
		}
	}()
	func() {
		defer func() {
			if r := recover(); r != nil {
				o.Panic = "parse: " + fmt.Sprint(r)
			}
		}()
		_, p := vrun.NewVM()
		prog, acl := p.ParseString(c.Src+";", "c04.zy")
		if acl != nil {
			o.Perr = acl.AsString()
			if o.Perr == "" {
				o.Perr = "error"
			}
			return
		}
		o.Nstmt = len(prog.Statements)
		if len(prog.Statements) == 1 {
			o.Tree = dump(prog.Statements[0])
		} else {
			var parts []string
			for _, s := range prog.Statements {
				parts = append(parts, dump(s))
			}
			o.Tree = "(multi " + strings.Join(parts, " ") + ")"
		}
	}()
	if c.Eval {
		r := vrun.RunString(c.Pre+"\n$r = "+c.Src+";\n"+c.Post, "c04run.zy")
		o.Val = r.Outcome
		o.Vout = r.Out
	}
	return o
}

func main() {
	w := json.NewEncoder(os.Stdout)
	vrun.Lines(func(line string) {
		if strings.TrimSpace(line) == "" {
			return
		}
		var c Case
		if err := json.Unmarshal([]byte(line), &c); err != nil {
			w.Encode(Obs{Panic: "bad case: " + err.Error()})
			return
		}
		w.Encode(observe(c))
	})
}
