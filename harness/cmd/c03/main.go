// c03: node-level evaluation of the scalar operators and the boolean contexts of /repo.
// stdin: one JSON case per line; stdout: one JSON observation per line.
//
//	{"k":"bin","op":"add","l":V,"r":V,"same":false}    node.NewBinaryXxx(l, r).GetValue(ctx)
//	{"k":"un","op":"neg"|"not"|"bnot","l":V}           node.NewUnaryExpression
//	{"k":"ctx","op":"if"|"elseif"|"while"|"dowhile"|"for"|"ternary"|"not"|"land"|"lor"|"cast","l":V}
//	{"k":"pair","l":V,"r":V}    every binary operator on (l,r) and on (r,l), fresh operand objects
//	{"k":"same","l":V}          every binary operator on (v,v) with the SAME Go object on both sides
//	{"k":"uns","l":V}           the three unary operators
//	{"k":"ctxs","l":V}          the ten boolean contexts
//	{"k":"spair","shape":S,"l":V,"r":V}   like "pair", but every operator is evaluated by a SCRIPT
//	                            statement (lexer, parser, constructor fast paths, node/binary.go dispatch)
//	                            in the syntactic shape S (see scriptOps); uncaught throw / Go panic
//	                            observed at top level
//	{"k":"sctxs","shape":"v"|"l","l":V}   the ten boolean contexts as script statements
//	{"k":"suns","shape":"v"|"l","l":V}    the unary operators as script statements
//	{"k":"casts","l":V} / {"k":"scasts","shape":..,"l":V}   (int) and (float): call node / script
//	{"k":"sassign","l":V,"r":V} a variable holding l is assigned r (routes lit/var/loop/fn/elem/prop); what it holds after
//	{"k":"iface"}               the interface-implementation table (reflection)
//
// pair/same/uns answers carry "orc": the graphs of strconv.ParseFloat, strconv.FormatFloat
// (g,14), math.Pow on the operands, obtained by calling the Go library directly, and the
// AsString rendering of object operands.
//
// V = {"k":"null"} | {"k":"bool","b":true} | {"k":"int","i":"-5"} | {"k":"float","bits":"4607182418800017408"}
//
//	| {"k":"str","s":"..."} | {"k":"arr","items":["1","2"]} | {"k":"obj","id":1} | {"k":"cls","id":1}
//
// Observation: {"out":"val","v":V} | {"out":"throw"} | {"out":"panic","msg":..} | {"out":"nil"}
// for ctx cases: {"out":"bool","b":..} (the branch taken) | throw | panic.
// With "same":true the SAME Go object is passed as both operands (`$x == $x`).
package main

import (
	"encoding/json"
	"fmt"
	"math"
	"os"
	"reflect"
	"strconv"
	"strings"

	"verif/harness/vrun"

	"github.com/php-any/origami/data"
	"github.com/php-any/origami/node"
	"github.com/php-any/origami/parser"
	"github.com/php-any/origami/runtime"
)

type V struct {
	K     string   `json:"k"`
	B     bool     `json:"b"`
	I     string   `json:"i,omitempty"`
	Bits  string   `json:"bits,omitempty"`
	S     string   `json:"s,omitempty"`
	Items []string `json:"items,omitempty"`
	ID    int      `json:"id,omitempty"`
}

type Case struct {
	K     string `json:"k"`
	Op    string `json:"op"`
	L     *V     `json:"l"`
	R     *V     `json:"r"`
	Same  bool   `json:"same"`
	Shape string `json:"shape"`
}

type Obs struct {
	Out   string              `json:"out"`
	V     *V                  `json:"v,omitempty"`
	B     bool                `json:"b"`
	Msg   string              `json:"msg,omitempty"`
	Table map[string][]string `json:"table,omitempty"`
	LR    []Obs               `json:"lr,omitempty"`
	RL    []Obs               `json:"rl,omitempty"`
	Orc   *Oracle             `json:"orc,omitempty"`
}

// Oracle: library function graphs on the operands of one case.
type Oracle struct {
	PF   [][2]string `json:"pf"`   // [string, float bits or "" for a parse error]
	PI   [][2]string `json:"pi"`   // [string, strconv.Atoi result or "" for an error]
	FF   [][2]string `json:"ff"`   // [float bits, formatted]
	Pow  [][3]string `json:"pow"`  // [x bits, y bits, math.Pow(x,y) bits]
	OStr [][3]string `json:"ostr"` // ["obj"|"cls", id, AsString]
}

var binOps = []string{"add", "sub", "mul", "quo", "rem", "pow", "band", "bor", "bxor", "shl", "shr",
	"eq", "ne", "seq", "sne", "lt", "le", "gt", "ge", "cmp", "land", "lor", "dot"}
var unOps = []string{"neg", "not", "bnot"}
var ctxOps = []string{"if", "elseif", "while", "dowhile", "for", "ternary", "not", "land", "lor", "cast"}

func bits(f float64) string { return strconv.FormatUint(math.Float64bits(f), 10) }

// toF: the float view of an operand computed WITHOUT origami code (for the math.Pow graph)
func toF(v *V) (float64, bool) {
	switch v.K {
	case "null":
		return 0, true
	case "int":
		n, _ := strconv.ParseInt(v.I, 10, 64)
		return float64(n), true
	case "float":
		b, _ := strconv.ParseUint(v.Bits, 10, 64)
		return math.Float64frombits(b), true
	case "str":
		f, err := strconv.ParseFloat(v.S, 64)
		return f, err == nil
	}
	return 0, false
}

func oracleFor(vs ...*V) *Oracle {
	o := &Oracle{PI: [][2]string{}, PF: [][2]string{}, FF: [][2]string{}, Pow: [][3]string{}, OStr: [][3]string{}}
	for _, v := range vs {
		switch v.K {
		case "str":
			if n, err := strconv.Atoi(v.S); err == nil {
				o.PI = append(o.PI, [2]string{v.S, strconv.Itoa(n)})
			} else {
				o.PI = append(o.PI, [2]string{v.S, ""})
			}
			f, err := strconv.ParseFloat(v.S, 64)
			if err != nil {
				o.PF = append(o.PF, [2]string{v.S, ""})
			} else {
				o.PF = append(o.PF, [2]string{v.S, bits(f)})
			}
		case "float":
			b, _ := strconv.ParseUint(v.Bits, 10, 64)
			o.FF = append(o.FF, [2]string{v.Bits, strconv.FormatFloat(math.Float64frombits(b), 'g', 14, 64)})
		case "obj", "cls":
			o.OStr = append(o.OStr, [3]string{v.K, strconv.Itoa(v.ID), mk(v).AsString()})
		}
	}
	for _, a := range vs {
		for _, b := range vs {
			x, ok1 := toF(a)
			y, ok2 := toF(b)
			if ok1 && ok2 {
				o.Pow = append(o.Pow, [3]string{bits(x), bits(y), bits(math.Pow(x, y))})
			}
		}
	}
	return o
}

// ---- script-level evaluation
var (
	sparser    *parser.Parser
	emitted    []data.Value
	caught     int
	uncaught   int
	inTryShape bool
)

type emitFn struct{}

func (emitFn) Call(c data.Context) (data.GetValue, data.Control) {
	v, _ := c.GetIndexValue(0)
	emitted = append(emitted, v)
	return nil, nil
}
func (emitFn) GetName() string { return "c03_emit" }
func (emitFn) GetParams() []data.GetValue {
	return []data.GetValue{node.NewParameter(nil, "v", 0, nil, nil)}
}
func (emitFn) GetVariables() []data.Variable {
	return []data.Variable{node.NewVariable(nil, "v", 0, data.NewBaseType("mixed"))}
}

type voidFn struct{}

func (voidFn) Call(c data.Context) (data.GetValue, data.Control) { return nil, nil }
func (voidFn) GetName() string                                   { return "c03_void" }
func (voidFn) GetParams() []data.GetValue                        { return nil }
func (voidFn) GetVariables() []data.Variable                     { return nil }

type caughtFn struct{}

func (caughtFn) Call(c data.Context) (data.GetValue, data.Control) { caught++; return nil, nil }
func (caughtFn) GetName() string                                   { return "c03_caught" }
func (caughtFn) GetParams() []data.GetValue                        { return nil }
func (caughtFn) GetVariables() []data.Variable                     { return nil }

var opSym = map[string]string{"add": "+", "sub": "-", "mul": "*", "quo": "/", "rem": "%", "pow": "**", "band": "&",
	"bor": "|", "bxor": "^", "shl": "<<", "shr": ">>", "eq": "==", "ne": "!=", "seq": "===", "sne": "!==", "lt": "<",
	"le": "<=", "gt": ">", "ge": ">=", "cmp": "<=>", "land": "&&", "lor": "||", "dot": "."}

var compound = map[string]bool{"add": true, "sub": true, "mul": true, "quo": true, "rem": true, "pow": true, "band": true,
	"bor": true, "bxor": true, "shl": true, "shr": true, "dot": true}

// literal source text of an operand (only values that have one)
func lit(v *V) (string, bool) {
	switch v.K {
	case "nil":
		return "c03_void()", true // a call that returns nothing
	case "null":
		return "null", true
	case "bool":
		if v.B {
			return "true", true
		}
		return "false", true
	case "int":
		if v.I == "-9223372036854775808" {
			return "", false
		}
		return v.I, true
	case "float":
		b, _ := strconv.ParseUint(v.Bits, 10, 64)
		f := math.Float64frombits(b)
		if math.IsNaN(f) || math.IsInf(f, 0) || (f == 0 && math.Signbit(f)) {
			return "", false
		}
		t := strconv.FormatFloat(f, 'f', -1, 64)
		if len(t) > 20 {
			return "", false
		}
		if !strings.Contains(t, ".") {
			t += ".0"
		}
		return t, true
	case "str":
		if strings.ContainsAny(v.S, "'\\$\n\t{") {
			return "", false
		}
		return "'" + v.S + "'", true
	case "arr":
		return "[" + strings.Join(v.Items, ", ") + "]", true
	case "cls":
		return "new C03P()", true
	}
	return "", false
}

func runStmt(src string) (o Obs) {
	emitted = nil
	caught = 0
	uncaught = 0
	defer func() {
		if r := recover(); r != nil {
			o = Obs{Out: "panic", Msg: fmt.Sprint(r)}
		}
	}()
	prog, acl := sparser.ParseString(src, "c03s.zy")
	if acl != nil {
		return Obs{Out: "parse", Msg: acl.AsString()}
	}
	c := vm.CreateContext(sparser.GetVariables())
	_, ctl := prog.GetValue(c)
	if ctl != nil {
		if inTryShape {
			return Obs{Out: "panic", Msg: "control escaped try/catch: " + ctl.AsString()}
		}
		if _, ok := ctl.(*data.ThrowValue); ok {
			return Obs{Out: "throw", Msg: ctl.AsString()}
		}
		return Obs{Out: "control", Msg: fmt.Sprintf("%T", ctl)}
	}
	if caught > 0 {
		return Obs{Out: "throw", Msg: "caught"}
	}
	if uncaught > 0 {
		if inTryShape {
			// the statement sits inside try { } catch (\Throwable $e): an error that gets past the
			// catch is not a catchable error
			return Obs{Out: "panic", Msg: "throw escaped try/catch"}
		}
		return Obs{Out: "throw", Msg: "uncaught (ThrowControl)"}
	}
	if len(emitted) != 1 {
		return Obs{Out: "panic", Msg: fmt.Sprintf("emitted %d values", len(emitted))}
	}
	if emitted[0] == nil {
		return Obs{Out: "nil"}
	}
	return Obs{Out: "val", V: unmk(emitted[0])}
}

// scriptOps evaluates every binary operator on (l, r) as a script statement in one syntactic
// shape.  Each shape reaches the operator through its own parser/constructor path (variable or
// literal operands, expression or assignment or for-condition position):
//
//	vv   $l = L; $r = R; c03_emit($l OP $r);
//	try  the same inside try { } catch (\Throwable $e) { c03_caught(); }
//	vl   $l = L; c03_emit($l OP R);              (variable OP literal: VarIntLe & co.)
//	lv   $r = R; c03_emit(L OP $r);
//	ll   c03_emit(L OP R);
//	avv  $l = L; $r = R; $d = $l OP $r; c03_emit($d);     (VarFastAssign)
//	avl  $l = L; $d = $l OP R; c03_emit($d);
//	for  $l = L; $h = false; for (; $l OP R; ) { $h = true; break; } c03_emit($h);   (BoolTest)
//	cvv / cvl   $l OP= $r; c03_emit($l);  /  $l OP= R;   (compound assignment; operators without one as avv)
//	not / notvl / ifnot / notq / notand   !($l OP $r), !($l OP R), if (!(..)), !(..) ? :, !(..) && true
//	     (the truth of the operation is reported, like "for")
func scriptOps(l, r *V, shape string) []Obs {
	ls, ok1 := lit(l)
	rs, ok2 := lit(r)
	if !ok1 || !ok2 {
		return nil
	}
	var res []Obs
	inTryShape = shape == "try"
	defer func() { inTryShape = false }()
	for _, op := range binOps {
		o := " " + opSym[op] + " "
		var src string
		switch shape {
		case "vv":
			src = "$l = " + ls + "; $r = " + rs + ";\nc03_emit($l" + o + "$r);\n"
		case "try":
			src = "$l = " + ls + "; $r = " + rs + ";\ntry { c03_emit($l" + o + "$r); } catch (\\Throwable $e) { c03_caught(); }\n"
		case "vl":
			src = "$l = " + ls + ";\nc03_emit($l" + o + rs + ");\n"
		case "lv":
			src = "$r = " + rs + ";\nc03_emit(" + ls + o + "$r);\n"
		case "ll":
			src = "c03_emit(" + ls + o + rs + ");\n"
		case "avv":
			src = "$l = " + ls + "; $r = " + rs + ";\n$d = $l" + o + "$r;\nc03_emit($d);\n"
		case "avl":
			src = "$l = " + ls + ";\n$d = $l" + o + rs + ";\nc03_emit($d);\n"
		case "for":
			src = "$l = " + ls + "; $h = false;\nfor (; $l" + o + rs + "; ) { $h = true; break; }\nc03_emit($h);\n"
		// `!` written directly in front of the parenthesised operation (the unary constructor sees the
		// binary node): the TRUTH of the operation is reported (the observed negation, inverted)
		// compound assignment ($l OP= $r / $l OP= R) for the operators that have one; the others are
		// written $d = $l OP $r
		case "cvv", "cvl":
			rhs := "$r"
			if shape == "cvl" {
				rhs = rs
			}
			if compound[op] {
				src = "$l = " + ls + "; $r = " + rs + ";\n$l " + opSym[op] + "= " + rhs + ";\nc03_emit($l);\n"
			} else {
				src = "$l = " + ls + "; $r = " + rs + ";\n$d = $l" + o + rhs + ";\nc03_emit($d);\n"
			}
		case "not":
			src = "$l = " + ls + "; $r = " + rs + ";\nc03_emit(!($l" + o + "$r));\n"
		case "notvl":
			src = "$l = " + ls + ";\nc03_emit(!($l" + o + rs + "));\n"
		case "ifnot":
			src = "$l = " + ls + "; $r = " + rs + ";\nif (!($l" + o + "$r)) { c03_emit(false); } else { c03_emit(true); }\n"
		case "notq":
			src = "$l = " + ls + "; $r = " + rs + ";\nc03_emit(!($l" + o + "$r) ? false : true);\n"
		case "notand":
			src = "$l = " + ls + "; $r = " + rs + ";\nc03_emit(!($l" + o + "$r) && true);\n"
		default:
			return nil
		}
		ob := runStmt(src)
		if (shape == "not" || shape == "notvl" || shape == "notand") && ob.Out == "val" && ob.V != nil && ob.V.K == "bool" {
			inv := *ob.V
			inv.B = !inv.B
			ob.V = &inv
		}
		res = append(res, ob)
	}
	return res
}

var assignRoutes = []string{"lit", "var", "loop", "fn", "elem", "prop"}

// litZ: like lit, but negative zero is written -0.0 (unary minus on the literal)
func litZ(v *V) (string, bool) {
	if v.K == "float" {
		b, _ := strconv.ParseUint(v.Bits, 10, 64)
		if f := math.Float64frombits(b); f == 0 && math.Signbit(f) {
			return "-0.0", true
		}
	}
	return lit(v)
}

func scriptAssign(l, r *V) []Obs {
	ls, ok1 := litZ(l)
	rs, ok2 := litZ(r)
	if !ok1 || !ok2 {
		return nil
	}
	src := map[string]string{
		"lit":  "$x = " + ls + "; $x = " + rs + ";\nc03_emit($x);\n",
		"var":  "$m = " + rs + "; $x = " + ls + "; $x = $m;\nc03_emit($x);\n",
		"loop": "$x = " + ls + ";\nfor ($i = 0; $i < 2; $i = $i + 1) { $x = " + rs + "; }\nc03_emit($x);\n",
		"fn":   "$f = function() { $x = " + ls + "; $x = " + rs + "; return $x; };\nc03_emit($f());\n",
		"elem": "$a = [" + ls + "]; $a[0] = " + rs + ";\nc03_emit($a[0]);\n",
		"prop": "$o = new C03P(); $o->p = " + ls + "; $o->p = " + rs + ";\nc03_emit($o->p);\n",
	}
	var res []Obs
	for _, route := range assignRoutes {
		res = append(res, runStmt(src[route]))
	}
	return res
}

// boolean contexts and unary operators / casts written as SCRIPT statements; the operand is a
// variable (shape "v") or a parenthesised literal (shape "l")
func scriptCtxs(v *V, shape string) []Obs {
	ls, ok := lit(v)
	if !ok {
		return nil
	}
	pre, x := "$l = "+ls+";\n", "$l"
	if shape == "l" {
		pre, x = "", "("+ls+")"
	}
	stmts := map[string]string{
		"if":      "if (" + x + ") { c03_emit(true); } else { c03_emit(false); }",
		"elseif":  "if (false) { c03_emit(false); } elseif (" + x + ") { c03_emit(true); } else { c03_emit(false); }",
		"while":   "$h = false; while (" + x + ") { $h = true; break; } c03_emit($h);",
		"dowhile": "$n = 0; do { $n = $n + 1; if ($n > 1) { break; } } while (" + x + "); c03_emit($n > 1);",
		"for":     "$h = false; for (; " + x + "; ) { $h = true; break; } c03_emit($h);",
		"ternary": "c03_emit(" + x + " ? true : false);",
		"not":     "c03_emit(!" + x + ");",
		"land":    "c03_emit(" + x + " && true);",
		"lor":     "c03_emit(" + x + " || false);",
		"cast":    "c03_emit((bool)" + x + ");",
	}
	var res []Obs
	for _, op := range ctxOps {
		o := runStmt(pre + stmts[op] + "\n")
		if o.Out == "val" && o.V != nil && o.V.K == "bool" {
			b := o.V.B
			if op == "not" {
				b = !b
			}
			o = Obs{Out: "bool", B: b}
		} else if o.Out == "val" {
			o = Obs{Out: "nonbool", V: o.V}
		}
		res = append(res, o)
	}
	return res
}

var castOps = []string{"int", "float"}

func scriptUns(v *V, shape string, ops []string) []Obs {
	ls, ok := lit(v)
	if !ok {
		return nil
	}
	pre, x := "$l = "+ls+";\n", "$l"
	if shape == "l" {
		pre, x = "", "("+ls+")"
	}
	sym := map[string]string{"neg": "-", "not": "!", "bnot": "~", "int": "(int)", "float": "(float)"}
	var res []Obs
	for _, op := range ops {
		res = append(res, runStmt(pre+"c03_emit("+sym[op]+x+");\n"))
	}
	return res
}

func safe(f func() Obs) (o Obs) {
	defer func() {
		if r := recover(); r != nil {
			o = Obs{Out: "panic", Msg: fmt.Sprint(r)}
		}
	}()
	return f()
}

var (
	vm      *runtime.VM
	ctx     data.Context
	from    = node.NewTokenFrom(nil, 0, 0, 0, 0)
	objs    = map[int]data.Value{}
	clss    = map[int]data.Value{}
	clsStmt data.ClassStmt
)

// nilNode evaluates to (nil, nil): what a call of a function without a result yields
type nilNode struct{}

func (nilNode) GetValue(data.Context) (data.GetValue, data.Control) { return nil, nil }

// operand node for a value: the value itself, or nilNode for the "nil" kind
func opnd(v *V) data.GetValue {
	if v.K == "nil" {
		return nilNode{}
	}
	return mk(v)
}

func mk(v *V) data.Value {
	switch v.K {
	case "nil":
		return nil
	case "null":
		return data.NewNullValue()
	case "bool":
		return data.NewBoolValue(v.B)
	case "int":
		n, err := strconv.ParseInt(v.I, 10, 64)
		if err != nil {
			panic("bad int " + v.I)
		}
		return data.NewIntValue(int(n))
	case "float":
		b, err := strconv.ParseUint(v.Bits, 10, 64)
		if err != nil {
			panic("bad bits " + v.Bits)
		}
		return data.NewFloatValue(math.Float64frombits(b))
	case "str":
		return data.NewStringValue(v.S)
	case "arr":
		var l []data.Value
		for _, s := range v.Items {
			n, _ := strconv.ParseInt(s, 10, 64)
			l = append(l, data.NewIntValue(int(n)))
		}
		return data.NewArrayValue(l)
	case "obj":
		if o, ok := objs[v.ID]; ok {
			return o
		}
		o := data.NewObjectValue()
		o.SetProperty("p", data.NewIntValue(v.ID))
		objs[v.ID] = o
		return o
	case "cls":
		if o, ok := clss[v.ID]; ok {
			return o
		}
		o := data.NewClassValue(clsStmt, ctx)
		clss[v.ID] = o
		return o
	}
	panic("bad value kind " + v.K)
}

func unmk(g data.GetValue) *V {
	switch x := g.(type) {
	case *data.NullValue:
		return &V{K: "null"}
	case *data.BoolValue:
		return &V{K: "bool", B: x.Value}
	case *data.IntValue:
		return &V{K: "int", I: strconv.FormatInt(int64(x.Value), 10)}
	case *data.FloatValue:
		return &V{K: "float", Bits: strconv.FormatUint(math.Float64bits(x.Value), 10)}
	case *data.StringValue:
		return &V{K: "str", S: x.Value}
	case *data.ArrayValue:
		r := &V{K: "arr"}
		for _, z := range x.List {
			if iv, ok := z.Value.(*data.IntValue); ok {
				r.Items = append(r.Items, strconv.Itoa(iv.Value))
			} else {
				return &V{K: "arrx"}
			}
		}
		return r
	case *data.ClassValue:
		return &V{K: "cls"}
	case *data.ObjectValue:
		return &V{K: "obj"}
	}
	return &V{K: "other", S: fmt.Sprintf("%T", g)}
}

func binNode(op string, l, r data.GetValue) data.GetValue {
	switch op {
	case "add":
		return node.NewBinaryAdd(from, l, r)
	case "sub":
		return node.NewBinarySub(from, l, r)
	case "mul":
		return node.NewBinaryMul(from, l, r)
	case "quo":
		return node.NewBinaryQuo(from, l, r)
	case "rem":
		return node.NewBinaryRem(from, l, r)
	case "pow":
		return node.NewBinaryPow(from, l, r)
	case "band":
		return node.NewBinaryBitAnd(from, l, r)
	case "bor":
		return node.NewBinaryBitOr(from, l, r)
	case "bxor":
		return node.NewBinaryBitXor(from, l, r)
	case "shl":
		return node.NewBinaryShl(from, l, r)
	case "shr":
		return node.NewBinaryShr(from, l, r)
	case "eq":
		return node.NewBinaryEq(from, l, r)
	case "ne":
		return node.NewBinaryNe(from, l, r)
	case "seq":
		return node.NewBinaryEqStrict(from, l, r)
	case "sne":
		return node.NewBinaryNeStrict(from, l, r)
	case "lt":
		return node.NewBinaryLt(from, l, r)
	case "le":
		return node.NewBinaryLe(from, l, r)
	case "gt":
		return node.NewBinaryGt(from, l, r)
	case "ge":
		return node.NewBinaryGe(from, l, r)
	case "cmp":
		return node.NewBinarySpaceship(from, l, r)
	case "land":
		return node.NewBinaryLand(from, l, r)
	case "lor":
		return node.NewBinaryLor(from, l, r)
	case "dot":
		return node.NewBinaryDot(from, l, r)
	}
	panic("bad op " + op)
}

// counter is a statement node that records that it ran.
type counter struct{ n *int }

func (c counter) GetValue(data.Context) (data.GetValue, data.Control) {
	*c.n++
	return data.NewIntValue(*c.n), nil
}

// once yields v the first time it is evaluated and false afterwards (loop conditions).
type once struct {
	v    data.GetValue
	used *bool
}

func (o once) GetValue(data.Context) (data.GetValue, data.Control) {
	if *o.used {
		return data.NewBoolValue(false), nil
	}
	*o.used = true
	return o.v.GetValue(nil)
}

func finish(g data.GetValue, c data.Control) Obs {
	if c != nil {
		if _, ok := c.(*data.ThrowValue); ok {
			return Obs{Out: "throw", Msg: c.AsString()}
		}
		return Obs{Out: "control", Msg: fmt.Sprintf("%T", c)}
	}
	if g == nil {
		return Obs{Out: "nil"}
	}
	return Obs{Out: "val", V: unmk(g)}
}

func boolObs(g data.GetValue, c data.Control) Obs {
	o := finish(g, c)
	if o.Out == "val" {
		if o.V.K == "bool" {
			return Obs{Out: "bool", B: o.V.B}
		}
		return Obs{Out: "nonbool", V: o.V}
	}
	return o
}

func runCtx(op string, v data.GetValue) Obs {
	n := 0
	hit := counter{&n}
	switch op {
	case "if":
		_, c := node.NewIfStatement(from, v, []data.GetValue{hit}, nil, nil).GetValue(ctx)
		if c != nil {
			return finish(nil, c)
		}
		return Obs{Out: "bool", B: n > 0}
	case "elseif":
		_, c := node.NewIfStatement(from, data.NewBoolValue(false), nil,
			[]node.ElseIfBranch{{Condition: v, ThenBranch: []data.GetValue{hit}}}, nil).GetValue(ctx)
		if c != nil {
			return finish(nil, c)
		}
		return Obs{Out: "bool", B: n > 0}
	case "while":
		used := false
		_, c := node.NewWhileStatement(from, once{v, &used}, []data.GetValue{hit}).GetValue(ctx)
		if c != nil {
			return finish(nil, c)
		}
		return Obs{Out: "bool", B: n > 0}
	case "dowhile":
		used := false
		_, c := node.NewDoWhileStatement(from, once{v, &used}, []data.GetValue{hit}).GetValue(ctx)
		if c != nil {
			return finish(nil, c)
		}
		return Obs{Out: "bool", B: n > 1} // body runs once unconditionally
	case "for":
		used := false
		_, c := node.NewForStatement(from, nil, once{v, &used}, nil, []data.GetValue{hit}).GetValue(ctx)
		if c != nil {
			return finish(nil, c)
		}
		return Obs{Out: "bool", B: n > 0}
	case "ternary":
		return boolObs(node.NewTernaryExpression(from, v, data.NewBoolValue(true), data.NewBoolValue(false)).GetValue(ctx))
	case "not":
		o := boolObs(node.NewUnaryExpression(from, "!", v).GetValue(ctx))
		if o.Out == "bool" {
			o.B = !o.B
		}
		return o
	case "land":
		return boolObs(node.NewBinaryLand(from, v, data.NewBoolValue(true)).GetValue(ctx))
	case "lor":
		return boolObs(node.NewBinaryLor(from, v, data.NewBoolValue(false)).GetValue(ctx))
	case "cast":
		fn, ok := vm.GetFunc("bool")
		if !ok {
			return Obs{Out: "panic", Msg: "no bool function registered"}
		}
		return boolObs(node.NewCallExpression(from, "bool", []data.GetValue{v}, fn).GetValue(ctx))
	}
	panic("bad ctx " + op)
}

func ifaceTable() Obs {
	ifaces := map[string]reflect.Type{
		"AsInt":    reflect.TypeOf((*data.AsInt)(nil)).Elem(),
		"AsFloat":  reflect.TypeOf((*data.AsFloat)(nil)).Elem(),
		"AsBool":   reflect.TypeOf((*data.AsBool)(nil)).Elem(),
		"AsString": reflect.TypeOf((*data.AsString)(nil)).Elem(),
	}
	types := map[string]reflect.Type{
		"TNull":  reflect.TypeOf(&data.NullValue{}),
		"TBool":  reflect.TypeOf(&data.BoolValue{}),
		"TInt":   reflect.TypeOf(&data.IntValue{}),
		"TFloat": reflect.TypeOf(&data.FloatValue{}),
		"TStr":   reflect.TypeOf(&data.StringValue{}),
		"TArr":   reflect.TypeOf(&data.ArrayValue{}),
		"TObj":   reflect.TypeOf(&data.ObjectValue{}),
		"TCls":   reflect.TypeOf(&data.ClassValue{}),
	}
	t := map[string][]string{}
	for tn, tt := range types {
		t[tn] = []string{}
		for _, in := range []string{"AsInt", "AsFloat", "AsBool", "AsString"} {
			if tt.Implements(ifaces[in]) {
				t[tn] = append(t[tn], in)
			}
		}
	}
	return Obs{Out: "table", Table: t}
}

func runCase(c Case) (o Obs) {
	defer func() {
		if r := recover(); r != nil {
			o = Obs{Out: "panic", Msg: fmt.Sprint(r)}
		}
	}()
	switch c.K {
	case "iface":
		return ifaceTable()
	case "bin":
		l := mk(c.L)
		var r data.Value
		if c.Same {
			r = l
		} else {
			r = mk(c.R)
		}
		return finish(binNode(c.Op, l, r).GetValue(ctx))
	case "un":
		sym := map[string]string{"neg": "-", "not": "!", "bnot": "~"}[c.Op]
		return finish(node.NewUnaryExpression(from, sym, mk(c.L)).GetValue(ctx))
	case "ctx":
		return runCtx(c.Op, mk(c.L))
	case "pair":
		res := Obs{Out: "pair", Orc: oracleFor(c.L, c.R)}
		for _, op := range binOps {
			op := op
			res.LR = append(res.LR, safe(func() Obs { return finish(binNode(op, opnd(c.L), opnd(c.R)).GetValue(ctx)) }))
			res.RL = append(res.RL, safe(func() Obs { return finish(binNode(op, opnd(c.R), opnd(c.L)).GetValue(ctx)) }))
		}
		return res
	case "spair":
		res := Obs{Out: "pair", Orc: oracleFor(c.L, c.R)}
		res.LR = scriptOps(c.L, c.R, c.Shape)
		res.RL = scriptOps(c.R, c.L, c.Shape)
		if res.LR == nil {
			return Obs{Out: "skip"}
		}
		return res
	case "sctxs":
		r := scriptCtxs(c.L, c.Shape)
		if r == nil {
			return Obs{Out: "skip"}
		}
		return Obs{Out: "ctxs", LR: r}
	case "suns":
		r := scriptUns(c.L, c.Shape, unOps)
		if r == nil {
			return Obs{Out: "skip"}
		}
		return Obs{Out: "uns", LR: r, Orc: oracleFor(c.L)}
	case "sassign":
		// a variable with a HISTORY: it holds l, then r is assigned to it, in five syntactic routes;
		// what it holds afterwards is observed (kind and, for floats, bits)
		r := scriptAssign(c.L, c.R)
		if r == nil {
			return Obs{Out: "skip"}
		}
		return Obs{Out: "assign", LR: r}
	case "scasts":
		r := scriptUns(c.L, c.Shape, castOps)
		if r == nil {
			return Obs{Out: "skip"}
		}
		return Obs{Out: "casts", LR: r, Orc: oracleFor(c.L)}
	case "casts":
		// (int) / (float): the registered conversion functions through the call node
		res := Obs{Out: "casts", Orc: oracleFor(c.L)}
		for _, name := range castOps {
			name := name
			res.LR = append(res.LR, safe(func() Obs {
				fn, ok := vm.GetFunc(name)
				if !ok {
					return Obs{Out: "panic", Msg: "no function " + name}
				}
				return finish(node.NewCallExpression(from, name, []data.GetValue{opnd(c.L)}, fn).GetValue(ctx))
			}))
		}
		return res
	case "same":
		res := Obs{Out: "same", Orc: oracleFor(c.L)}
		for _, op := range binOps {
			op := op
			res.LR = append(res.LR, safe(func() Obs { v := opnd(c.L); return finish(binNode(op, v, v).GetValue(ctx)) }))
		}
		return res
	case "uns":
		res := Obs{Out: "uns", Orc: oracleFor(c.L)}
		for _, op := range unOps {
			sym := map[string]string{"neg": "-", "not": "!", "bnot": "~"}[op]
			res.LR = append(res.LR, safe(func() Obs { return finish(node.NewUnaryExpression(from, sym, opnd(c.L)).GetValue(ctx)) }))
		}
		return res
	case "ctxs":
		res := Obs{Out: "ctxs"}
		for _, op := range ctxOps {
			op := op
			res.LR = append(res.LR, safe(func() Obs { return runCtx(op, opnd(c.L)) }))
		}
		return res
	}
	return Obs{Out: "panic", Msg: "bad case kind"}
}

func main() {
	v, ps := vrun.NewVM()
	vm = v
	prog, acl := ps.ParseString("class C03P { public $a = 1; }\n", "c03.zy")
	if acl != nil {
		fmt.Fprintln(os.Stderr, "setup parse:", acl.AsString())
		os.Exit(2)
	}
	ctx = vm.CreateContext(ps.GetVariables())
	if _, c := prog.GetValue(ctx); c != nil {
		fmt.Fprintln(os.Stderr, "setup run:", c.AsString())
		os.Exit(2)
	}
	cs, ok := vm.GetClass("C03P")
	if !ok {
		fmt.Fprintln(os.Stderr, "setup: class C03P missing")
		os.Exit(2)
	}
	clsStmt = cs
	sparser = ps
	// an uncaught throw must not exit the process: record it
	vm.SetThrowControl(func(acl data.Control) { uncaught++ })
	if ctl := vm.AddFunc(emitFn{}); ctl != nil {
		fmt.Fprintln(os.Stderr, "setup: c03_emit:", ctl.AsString())
		os.Exit(2)
	}
	if ctl := vm.AddFunc(voidFn{}); ctl != nil {
		fmt.Fprintln(os.Stderr, "setup: c03_void:", ctl.AsString())
		os.Exit(2)
	}
	if ctl := vm.AddFunc(caughtFn{}); ctl != nil {
		fmt.Fprintln(os.Stderr, "setup: c03_caught:", ctl.AsString())
		os.Exit(2)
	}
	w := json.NewEncoder(os.Stdout)
	vrun.Lines(func(line string) {
		if strings.TrimSpace(line) == "" {
			return
		}
		var c Case
		if err := json.Unmarshal([]byte(line), &c); err != nil {
			w.Encode(Obs{Out: "panic", Msg: "bad json: " + err.Error()})
			return
		}
		w.Encode(runCase(c))
	})
}
