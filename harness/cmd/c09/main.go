// c09: engine for property C09 (Channel exactly-once / FIFO / close under any schedule).
//
//	c09 sched     stdin: JSON cases; each is run under a CONTROLLED scheduler: real goroutines call the real
//	              channel.Channel; they stop at op boundaries and at the verif yield points inside Send/Close
//	              (std/channel/verif_yield_on.go); the scheduler releases exactly one at a time and waits until
//	              every goroutine is again at a gate, finished, or blocked (read off the Go runtime's own
//	              goroutine states, no timeouts).  {"cap":1,"threads":[["send","recv"],["close"]],"choices":[0,1,0]}
//	              With "explore":N the engine enumerates up to N distinct maximal schedules itself (DFS).
//	c09 stress    stdin: JSON configs {"cap":2,"threads":[[...]],"gomaxprocs":4,"repeat":100}: free-running
//	              goroutines (no hook), each config in a child process (race detector / fatal errors attributed)
//	c09 child     (internal)
package main

import (
	"bytes"
	"encoding/json"
	"fmt"
	"os"
	"os/exec"
	"runtime"
	"strconv"
	"strings"
	"sync"
	"sync/atomic"
	"time"

	"verif/harness/vrun"

	"github.com/php-any/origami/data"
	"github.com/php-any/origami/std/channel"
)

type Case struct {
	Cap        int        `json:"cap"`
	Threads    [][]string `json:"threads"`
	Choices    []int      `json:"choices"`
	Explore    int        `json:"explore"`
	GoMaxProcs int        `json:"gomaxprocs"`
	Repeat     int        `json:"repeat"`
}

// event: [tid, kind, ...]: "Y","send"|"close"  /  "R","sent",bool | "recv",t,k | "recvnull" | "closed" | "is",bool  /  "P",text
type Event []any

type Round struct {
	Rel     int     `json:"rel"`
	Events  []Event `json:"events"`
	Blocked []int   `json:"blocked"`
}

type Trace struct {
	Rounds []Round `json:"rounds"`
	Alts   [][]int `json:"alts"`    // releasable threads at each decision
	Chosen []int   `json:"chosen"`  // the thread released at each decision
	Len    int     `json:"len"`     // Len() at the end
	Closed bool    `json:"closed"`  // IsClosed() at the end
	Err    string  `json:"err,omitempty"`
}

func newChannel(capacity int) *channel.Channel {
	c := channel.NewChannel()
	c.Construct(nil, data.NewIntValue(capacity))
	return c
}

func doOp(c *channel.Channel, t, k int, op string) (ev Event) {
	defer func() {
		if r := recover(); r != nil {
			ev = Event{t, "P", fmt.Sprint(r)}
		}
	}()
	switch op {
	case "send":
		ok := c.Send(data.NewIntValue(t*1000 + k))
		return Event{t, "R", "sent", ok}
	case "recv":
		v, ok := c.Receive()
		if !ok {
			return Event{t, "R", "recvnull"}
		}
		n := -1
		if iv, isInt := v.(data.AsInt); isInt {
			n, _ = iv.AsInt()
		}
		return Event{t, "R", "recv", n / 1000, n % 1000}
	case "close":
		c.Close()
		return Event{t, "R", "closed"}
	case "is":
		return Event{t, "R", "is", c.IsClosed()}
	case "len":
		return Event{t, "R", "num", c.Len()}
	case "cap":
		return Event{t, "R", "num", c.Cap()}
	}
	return Event{t, "P", "unknown op " + op}
}

// ---------------------------------------------------------------- goroutine introspection
func curGID() int {
	var buf [64]byte
	n := runtime.Stack(buf[:], false)
	f := strings.Fields(string(buf[:n]))
	if len(f) >= 2 {
		id, _ := strconv.Atoi(f[1])
		return id
	}
	return -1
}

var stackBuf = make([]byte, 1<<20)

// goroutine states by id, from the runtime's own dump
func gStates() map[int]string {
	n := runtime.Stack(stackBuf, true)
	res := map[int]string{}
	for _, blk := range bytes.Split(stackBuf[:n], []byte("\n\n")) {
		if !bytes.HasPrefix(blk, []byte("goroutine ")) {
			continue
		}
		line := blk
		if i := bytes.IndexByte(blk, '\n'); i >= 0 {
			line = blk[:i]
		}
		// goroutine 7 [chan send, 2 minutes]:
		s := string(line)
		a := strings.Index(s, "[")
		b := strings.Index(s, "]")
		if a < 0 || b < a {
			continue
		}
		id, _ := strconv.Atoi(strings.Fields(s)[1])
		st := s[a+1 : b]
		if i := strings.Index(st, ","); i >= 0 {
			st = st[:i]
		}
		res[id] = st
	}
	return res
}

func isWaiting(st string) bool {
	switch st {
	case "chan send", "chan receive", "semacquire", "sync.RWMutex.RLock", "sync.RWMutex.Lock", "sync.Mutex.Lock",
		"select", "sync.Cond.Wait", "chan send (nil chan)", "chan receive (nil chan)":
		return true
	}
	return strings.HasPrefix(st, "sync.")
}

// ---------------------------------------------------------------- controlled run
type worker struct {
	gid    int
	arrive chan Event
	gate   chan struct{}
	state  int          // 0 at gate, 1 mid (released, not arrived), 2 done
	ended  *atomic.Bool // the run this worker belongs to is over: pass through every gate
}

// goroutine id -> worker.  Lock-free on purpose: the scheduler classifies a goroutine as blocked from its
// runtime state, so the harness itself must never make a worker wait on a mutex of its own.
var byGID sync.Map

func hook(point string) {
	v, ok := byGID.Load(curGID())
	if !ok {
		return
	}
	w := v.(*worker)
	if w.ended.Load() {
		return
	}
	kind := "send"
	if strings.HasPrefix(point, "close") {
		kind = "close"
	}
	w.arrive <- Event{-1, "Y", kind}
	<-w.gate
}

func runControlled(c *Case, choices []int) Trace {
	var tr Trace
	ch := newChannel(c.Cap)
	n := len(c.Threads)
	ws := make([]*worker, n)
	ended := &atomic.Bool{}
	var started sync.WaitGroup
	var finished sync.WaitGroup
	started.Add(n)
	finished.Add(n)
	for j := 0; j < n; j++ {
		w := &worker{arrive: make(chan Event, 8), gate: make(chan struct{}, 1), ended: ended}
		ws[j] = w
		go func(j int, w *worker) {
			defer finished.Done()
			w.gid = curGID()
			byGID.Store(w.gid, w)
			defer byGID.Delete(w.gid)
			started.Done()
			for k, op := range c.Threads[j] {
				<-w.gate
				ev := doOp(ch, j, k, op)
				if k == len(c.Threads[j])-1 {
					ev = append(ev, "done")
				}
				w.arrive <- ev
			}
		}(j, w)
		if len(c.Threads[j]) == 0 {
			w.state = 2
		}
	}
	started.Wait()
	ci := 0
	for step := 0; step < 10000; step++ {
		var rel []int
		for j, w := range ws {
			if w.state == 0 {
				rel = append(rel, j)
			}
		}
		if len(rel) == 0 {
			break
		}
		pick := -1
		for ci < len(choices) && pick < 0 {
			for _, j := range rel {
				if j == choices[ci] {
					pick = j
				}
			}
			ci++
		}
		if pick < 0 {
			pick = rel[0]
		}
		tr.Alts = append(tr.Alts, rel)
		tr.Chosen = append(tr.Chosen, pick)
		rd := Round{Rel: pick, Events: []Event{}, Blocked: []int{}}
		ws[pick].state = 1
		ws[pick].gate <- struct{}{}
		// settle: until every released goroutine is at a gate, done, or blocked according to the runtime
		seen := make([]int, n) // consecutive dumps in which the goroutine was found waiting without an arrival
		for spin := 0; ; spin++ {
			st := gStates() // read the states BEFORE looking for arrivals (an arrival precedes the gate wait)
			unsettled := false
			progress := false
			for j, w := range ws {
				if w.state != 1 {
					continue
				}
				select {
				case ev := <-w.arrive:
					progress = true
					seen[j] = 0
					if ev[0] == -1 {
						ev[0] = j
					}
					if len(ev) > 0 && ev[len(ev)-1] == "done" {
						w.state = 2
						ev = ev[:len(ev)-1]
					} else {
						w.state = 0
					}
					rd.Events = append(rd.Events, ev)
				default:
					// blocked = found in a waiting state in three consecutive dumps (a goroutine that is merely
					// passing through a wait, e.g. being handed a lock, is not)
					if isWaiting(st[w.gid]) {
						seen[j]++
					} else {
						seen[j] = 0
					}
					if seen[j] < 3 {
						unsettled = true
					}
				}
			}
			if progress {
				for j := range seen {
					seen[j] = 0
				}
			}
			if !unsettled && !progress {
				break
			}
			if unsettled {
				runtime.Gosched()
			}
			if spin > 2000000 {
				tr.Err = "scheduler did not settle"
				break
			}
		}
		for j, w := range ws {
			if w.state == 1 {
				rd.Blocked = append(rd.Blocked, j)
			}
		}
		tr.Rounds = append(tr.Rounds, rd)
		if tr.Err != "" {
			break
		}
	}
	// final Len()/IsClosed() only when nothing is blocked (IsClosed takes the read lock and would queue
	// behind a Close that waits for a parked sender)
	tr.Len, tr.Closed = -1, false
	anyMid := false
	for _, w := range ws {
		if w.state == 1 {
			anyMid = true
		}
	}
	if !anyMid {
		tr.Len = ch.Len()
		tr.Closed = ch.IsClosed()
	}
	// clean up goroutines that are still blocked: let everything run free, close and drain
	ended.Store(true)
	stop := make(chan struct{})
	for _, w := range ws {
		go func(w *worker) {
			for {
				select {
				case w.gate <- struct{}{}:
				case <-w.arrive:
				case <-stop:
					return
				}
			}
		}(w)
	}
	go func() {
		defer func() { recover() }()
		ch.Close()
	}()
	doneAll := make(chan struct{})
	go func() { finished.Wait(); close(doneAll) }()
	// one drainer: a Receive returns a parked sender's value at once, and (nil,false) at once after the close
	go func() {
		defer func() { recover() }()
		for {
			select {
			case <-doneAll:
				return
			default:
				ch.Receive()
			}
		}
	}()
	select {
	case <-doneAll:
	case <-time.After(2 * time.Second):
		tr.Err += " cleanup-timeout"
	}
	close(stop)
	return tr
}

// runWatched: one controlled run under a watchdog.  A run that does not finish (the wrapper deadlocked the
// scheduler's own calls, e.g. Len()/IsClosed() queued behind a pending Close) is reported with the schedule
// prefix that led there; the process state is then unknown, so the caller exits and the driver restarts a worker.
func runWatched(c *Case, choices []int) (Trace, bool) {
	res := make(chan Trace, 1)
	go func() { res <- runControlled(c, choices) }()
	select {
	case tr := <-res:
		return tr, true
	case <-time.After(12 * time.Second):
		return Trace{Err: "watchdog: controlled run did not finish within 12s (deadlock in the implementation?)", Chosen: choices}, false
	}
}

// dirty: the run left goroutines behind that could not be released (hang inside the wrapper)
func dirty(tr Trace) bool { return strings.Contains(tr.Err, "cleanup-timeout") }

func runSched() {
	channel.VerifYieldHook = hook
	out := json.NewEncoder(os.Stdout)
	vrun.Lines(func(line string) {
		if strings.TrimSpace(line) == "" {
			return
		}
		var c Case
		if err := json.Unmarshal([]byte(line), &c); err != nil {
			out.Encode(map[string]any{"err": err.Error()})
			return
		}
		if c.Explore <= 0 {
			tr, ok := runWatched(&c, c.Choices)
			out.Encode(map[string]any{"traces": []Trace{tr}})
			if !ok || dirty(tr) {
				os.Exit(3)
			}
			return
		}
		// stateless DFS over the decision points: every maximal schedule once, up to c.Explore runs
		var traces []Trace
		stack := [][]int{{}}
		complete := true
		for len(stack) > 0 {
			if len(traces) >= c.Explore {
				complete = false
				break
			}
			prefix := stack[len(stack)-1]
			stack = stack[:len(stack)-1]
			tr, ok := runWatched(&c, prefix)
			traces = append(traces, tr)
			if !ok || dirty(tr) {
				// goroutines of this run are still stuck inside the wrapper: the answer so far is reported at once (one
				// failing schedule is enough for the configuration) and the process is replaced by the driver
				out.Encode(map[string]any{"traces": traces, "complete": false})
				os.Exit(3)
			}
			if tr.Err != "" {
				complete = false
				break
			}
			for d := len(tr.Chosen) - 1; d >= len(prefix); d-- {
				for _, a := range tr.Alts[d] {
					if a != tr.Chosen[d] {
						np := append(append([]int{}, tr.Chosen[:d]...), a)
						stack = append(stack, np)
					}
				}
			}
		}
		out.Encode(map[string]any{"traces": traces, "complete": complete})
	})
}

// ---------------------------------------------------------------- free-running stress (child process per config)
func runChild() {
	dec := json.NewDecoder(os.Stdin)
	out := json.NewEncoder(os.Stdout)
	for {
		var c Case
		if err := dec.Decode(&c); err != nil {
			return
		}
		if c.GoMaxProcs > 0 {
			runtime.GOMAXPROCS(c.GoMaxProcs)
		}
		rep := c.Repeat
		if rep < 1 {
			rep = 1
		}
		var runs [][][]Event
		hung := 0
		for r := 0; r < rep; r++ {
			ch := newChannel(c.Cap)
			n := len(c.Threads)
			res := make([][]Event, n)
			var wg sync.WaitGroup
			var start sync.WaitGroup
			start.Add(1)
			wg.Add(n)
			for j := 0; j < n; j++ {
				go func(j int) {
					defer wg.Done()
					start.Wait()
					for k, op := range c.Threads[j] {
						res[j] = append(res[j], doOp(ch, j, k, op))
					}
				}(j)
			}
			start.Done()
			fin := make(chan struct{})
			go func() { wg.Wait(); close(fin) }()
			select {
			case <-fin:
				runs = append(runs, res)
			case <-time.After(5 * time.Second):
				// every stress program terminates by construction (a closer, and consumers that receive more often
				// than producers send): a run that does not finish is a hang of the implementation -> reported
				hung++
				runs = append(runs, nil)
				go func() { defer func() { recover() }(); ch.Close() }()
			}
			if hung > 0 {
				break // one hang is the finding; repeating it would only cost 5 s per run
			}
		}
		out.Encode(map[string]any{"runs": runs, "hung": hung})
	}
}

func runStress() {
	out := json.NewEncoder(os.Stdout)
	self, _ := os.Executable()
	vrun.Lines(func(line string) {
		if strings.TrimSpace(line) == "" {
			return
		}
		cmd := exec.Command(self, "child")
		cmd.Stdin = strings.NewReader(line)
		var so, se bytes.Buffer
		cmd.Stdout, cmd.Stderr = &so, &se
		cmd.Env = append(os.Environ(), "GORACE=halt_on_error=1")
		timer := time.AfterFunc(300*time.Second, func() { cmd.Process.Kill() })
		err := cmd.Run()
		timer.Stop()
		exit := 0
		if err != nil {
			exit = -1
			if ee, ok := err.(*exec.ExitError); ok {
				exit = ee.ExitCode()
			}
		}
		stderr := se.String()
		o := map[string]any{"exit": exit, "race": strings.Contains(stderr, "WARNING: DATA RACE")}
		if strings.Contains(stderr, "fatal error:") || strings.Contains(stderr, "panic:") {
			o["fatal"] = true
		}
		if exit != 0 {
			var keep []string
			for _, l := range strings.Split(stderr, "\n") {
				if strings.Contains(l, "channel.(*Channel)") || strings.Contains(l, "fatal error") || strings.Contains(l, "DATA RACE") || strings.Contains(l, "panic:") {
					keep = append(keep, strings.TrimSpace(l))
				}
				if len(keep) > 10 {
					break
				}
			}
			o["report"] = keep
		}
		var parsed map[string]any
		if json.Unmarshal(so.Bytes(), &parsed) == nil {
			o["runs"] = parsed["runs"]
			o["hung"] = parsed["hung"]
		}
		out.Encode(o)
	})
}

// script: stdin = JSON lines {"src":"...","repeat":n}; runs the script in-process (spawn + Channel through the
// script-level classes) and returns the outputs
func runScript() {
	out := json.NewEncoder(os.Stdout)
	vrun.Lines(func(line string) {
		if strings.TrimSpace(line) == "" {
			return
		}
		var c struct {
			Src    string `json:"src"`
			Repeat int    `json:"repeat"`
		}
		if err := json.Unmarshal([]byte(line), &c); err != nil {
			out.Encode(map[string]any{"err": err.Error()})
			return
		}
		var outs []map[string]string
		for i := 0; i < c.Repeat; i++ {
			// watchdog: every script of the check terminates by construction; a run that does not come back (spawned
			// coroutines never started / all parked) is reported as outcome "hang" and the process is given up
			done := make(chan vrun.Result, 1)
			go func() { done <- vrun.RunString(c.Src, "c09script.php") }()
			select {
			case r := <-done:
				outs = append(outs, map[string]string{"out": r.Out, "outcome": r.Outcome, "detail": r.Detail})
			case <-time.After(8 * time.Second):
				outs = append(outs, map[string]string{"out": "", "outcome": "hang", "detail": fmt.Sprintf("run %d of %d did not finish within 8 s; GOMAXPROCS=%d; goroutines=%d", i+1, c.Repeat, runtime.GOMAXPROCS(0), runtime.NumGoroutine())})
				out.Encode(map[string]any{"runs": outs})
				os.Exit(3)
			}
		}
		out.Encode(map[string]any{"runs": outs})
	})
}

func main() {
	if len(os.Args) < 2 {
		fmt.Fprintln(os.Stderr, "usage: c09 sched | stress | child")
		os.Exit(2)
	}
	switch os.Args[1] {
	case "sched":
		runSched()
	case "stress":
		runStress()
	case "child":
		runChild()
	case "script":
		runScript()
	default:
		os.Exit(2)
	}
}
