// c20walk: inventory of `for … range <map>` sites in packages of the repository.
// Usage: c20walk <repo dir> <pkg pattern>...      (e.g. ./runtime ./node ./data)
// Loads the packages and their dependency cone with `go list -deps -json` (offline, module
// mode), type-checks everything from source with go/types (stdlib only, no x/tools), and prints
// one JSON line per range-over-map statement:
//
//	{"pkg","file","line","func","expr","key","elem","body":{"appends":bool,"returns":bool,
//	 "breaks":bool,"writes_map":bool,"calls":[...]},"sorted_after":bool}
//
// and one JSON line per package-level variable that some function other than init() writes
// (assignment to it or through it, & taken, delete/clear, or a method call on it unless it is a
// lock): the process-level state a fresh VM could inherit —
//
//	{"kind":"var","pkg","file","line","name","type","writes":[{"func","how"}...]}
//
// `sorted_after` = the enclosing function calls sort.* / slices.Sort* after the loop (the usual
// collect-then-sort idiom, order-insensitive). Classification proper is done by the check.
package main

import (
	"encoding/json"
	"fmt"
	"go/ast"
	"go/importer"
	"go/parser"
	"go/token"
	"go/types"
	"os"
	"os/exec"
	"path/filepath"
	"sort"
	"strings"
)

type listPkg struct {
	ImportPath string
	Dir        string
	GoFiles    []string
	CgoFiles   []string
	Imports    []string
	ImportMap  map[string]string
	Standard   bool
	DepOnly    bool
	Error      *struct{ Err string }
}

type site struct {
	Pkg         string   `json:"pkg"`
	File        string   `json:"file"`
	Line        int      `json:"line"`
	Func        string   `json:"func"`
	Expr        string   `json:"expr"`
	Key         string   `json:"key"`
	Elem        string   `json:"elem"`
	UsesKey     bool     `json:"uses_key"`
	UsesVal     bool     `json:"uses_val"`
	Appends     bool     `json:"appends"`
	Returns     bool     `json:"returns"`
	Breaks      bool     `json:"breaks"`
	WritesMap   bool     `json:"writes_map"`
	Calls       []string `json:"calls"`
	SortedAfter bool     `json:"sorted_after"`
}

func main() {
	if len(os.Args) < 3 {
		fmt.Fprintln(os.Stderr, "usage: c20walk <repo> <pkgs>...")
		os.Exit(2)
	}
	repo := os.Args[1]
	args := append([]string{"list", "-deps", "-json=ImportPath,Dir,GoFiles,CgoFiles,Imports,ImportMap,Standard,DepOnly,Error"}, os.Args[2:]...)
	cmd := exec.Command("go", args...)
	cmd.Dir = repo
	cmd.Env = append(os.Environ(), "CGO_ENABLED=0", "GOFLAGS=-mod=mod", "GOPROXY=off")
	cmd.Stderr = os.Stderr
	out, err := cmd.Output()
	if err != nil {
		fmt.Fprintln(os.Stderr, "go list failed:", err)
		os.Exit(1)
	}
	dec := json.NewDecoder(strings.NewReader(string(out)))
	var pkgs []*listPkg
	for dec.More() {
		p := &listPkg{}
		if err := dec.Decode(p); err != nil {
			fmt.Fprintln(os.Stderr, "decode:", err)
			os.Exit(1)
		}
		pkgs = append(pkgs, p)
	}
	fset := token.NewFileSet()
	done := map[string]*types.Package{"unsafe": types.Unsafe}
	def := importer.Default()
	_ = def
	// go list -deps prints dependencies before dependents: one pass suffices
	for _, lp := range pkgs {
		if lp.ImportPath == "unsafe" {
			continue
		}
		var files []*ast.File
		for _, f := range lp.GoFiles {
			mode := parser.SkipObjectResolution
			af, err := parser.ParseFile(fset, filepath.Join(lp.Dir, f), nil, mode)
			if err != nil {
				fmt.Fprintln(os.Stderr, "parse:", err)
				continue
			}
			files = append(files, af)
		}
		info := &types.Info{}
		target := !lp.DepOnly
		if target {
			info.Types = map[ast.Expr]types.TypeAndValue{}
			info.Uses = map[*ast.Ident]types.Object{}
			info.Defs = map[*ast.Ident]types.Object{}
		}
		conf := types.Config{
			Importer:                 mapImporter{done, lp.ImportMap},
			Error:                    func(error) {}, // keep going; sites in ill-typed code are reported as unknown
			FakeImportC:              true,
			IgnoreFuncBodies:         !target,
			DisableUnusedImportCheck: true,
		}
		tp, _ := conf.Check(lp.ImportPath, fset, files, info)
		done[lp.ImportPath] = tp
		if target {
			walk(repo, lp, fset, files, info)
			walkVars(repo, lp, fset, files, info)
		}
	}
}

type mapImporter struct {
	done map[string]*types.Package
	imap map[string]string
}

func (m mapImporter) Import(path string) (*types.Package, error) {
	if r, ok := m.imap[path]; ok {
		path = r
	}
	if p, ok := m.done[path]; ok && p != nil {
		return p, nil
	}
	return nil, fmt.Errorf("package %s not loaded", path)
}

func exprString(fset *token.FileSet, e ast.Expr) string {
	switch x := e.(type) {
	case *ast.Ident:
		return x.Name
	case *ast.SelectorExpr:
		return exprString(fset, x.X) + "." + x.Sel.Name
	case *ast.CallExpr:
		return exprString(fset, x.Fun) + "()"
	case *ast.IndexExpr:
		return exprString(fset, x.X) + "[…]"
	case *ast.StarExpr:
		return "*" + exprString(fset, x.X)
	case *ast.ParenExpr:
		return "(" + exprString(fset, x.X) + ")"
	case *ast.TypeAssertExpr:
		return exprString(fset, x.X) + ".(…)"
	}
	return fmt.Sprintf("%T", e)
}

func funcName(d *ast.FuncDecl) string {
	if d.Recv != nil && len(d.Recv.List) > 0 {
		t := d.Recv.List[0].Type
		if s, ok := t.(*ast.StarExpr); ok {
			t = s.X
		}
		if ix, ok := t.(*ast.IndexExpr); ok {
			t = ix.X
		}
		if id, ok := t.(*ast.Ident); ok {
			return id.Name + "." + d.Name.Name
		}
	}
	return d.Name.Name
}

func isSortCall(c *ast.CallExpr) bool {
	if se, ok := c.Fun.(*ast.SelectorExpr); ok {
		if id, ok := se.X.(*ast.Ident); ok {
			if id.Name == "sort" || (id.Name == "slices" && strings.HasPrefix(se.Sel.Name, "Sort")) {
				return true
			}
		}
	}
	return false
}

func walk(repo string, lp *listPkg, fset *token.FileSet, files []*ast.File, info *types.Info) {
	for _, f := range files {
		fname := fset.Position(f.Pos()).Filename
		if strings.HasSuffix(fname, "_test.go") {
			continue
		}
		rel, _ := filepath.Rel(repo, fname)
		for _, d := range f.Decls {
			fd, ok := d.(*ast.FuncDecl)
			if !ok || fd.Body == nil {
				continue
			}
			// positions of sort calls in this function
			var sortPos []token.Pos
			ast.Inspect(fd.Body, func(n ast.Node) bool {
				if c, ok := n.(*ast.CallExpr); ok && isSortCall(c) {
					sortPos = append(sortPos, c.Pos())
				}
				return true
			})
			ast.Inspect(fd.Body, func(n ast.Node) bool {
				rs, ok := n.(*ast.RangeStmt)
				if !ok {
					return true
				}
				tv, ok := info.Types[rs.X]
				if !ok || tv.Type == nil {
					return true
				}
				mt, ok := tv.Type.Underlying().(*types.Map)
				if !ok {
					return true
				}
				s := site{Pkg: lp.ImportPath, File: rel, Line: fset.Position(rs.Pos()).Line, Func: funcName(fd),
					Expr: exprString(fset, rs.X), Key: types.TypeString(mt.Key(), nil), Elem: shortType(mt.Elem())}
				if id, ok := rs.Key.(*ast.Ident); ok && id.Name != "_" {
					s.UsesKey = true
				}
				if id, ok := rs.Value.(*ast.Ident); ok && id.Name != "_" {
					s.UsesVal = true
				}
				calls := map[string]bool{}
				ast.Inspect(rs.Body, func(m ast.Node) bool {
					switch x := m.(type) {
					case *ast.ReturnStmt:
						s.Returns = true
					case *ast.BranchStmt:
						if x.Tok == token.BREAK {
							s.Breaks = true
						}
					case *ast.CallExpr:
						nm := exprString(fset, x.Fun)
						if nm == "append" {
							s.Appends = true
						} else if nm != "len" {
							calls[nm] = true
						}
					case *ast.AssignStmt:
						for _, l := range x.Lhs {
							if ix, ok := l.(*ast.IndexExpr); ok {
								if t, ok := info.Types[ix.X]; ok && t.Type != nil {
									if _, ok := t.Type.Underlying().(*types.Map); ok {
										s.WritesMap = true
									}
								}
							}
						}
					}
					return true
				})
				for c := range calls {
					s.Calls = append(s.Calls, c)
				}
				sort.Strings(s.Calls)
				for _, p := range sortPos {
					if p > rs.End() {
						s.SortedAfter = true
					}
				}
				b, _ := json.Marshal(s)
				fmt.Println(string(b))
				return true
			})
		}
	}
}

func shortType(t types.Type) string {
	return types.TypeString(t, func(p *types.Package) string { return p.Name() })
}

// ---------------------------------------------------------------------------- package-level variables
type varWrite struct {
	Func string `json:"func"`
	How  string `json:"how"`
}

type varSite struct {
	Kind   string     `json:"kind"`
	Pkg    string     `json:"pkg"`
	File   string     `json:"file"`
	Line   int        `json:"line"`
	Name   string     `json:"name"`
	Type   string     `json:"type"`
	Writes []varWrite `json:"writes"`
}

func rootIdent(e ast.Expr) *ast.Ident {
	for {
		switch x := e.(type) {
		case *ast.Ident:
			return x
		case *ast.SelectorExpr:
			e = x.X
		case *ast.IndexExpr:
			e = x.X
		case *ast.StarExpr:
			e = x.X
		case *ast.ParenExpr:
			e = x.X
		case *ast.SliceExpr:
			e = x.X
		default:
			return nil
		}
	}
}

func isLockType(t types.Type) bool {
	s := types.TypeString(t, nil)
	s = strings.TrimPrefix(s, "*")
	return s == "sync.Mutex" || s == "sync.RWMutex" || s == "sync.Once" || s == "sync.WaitGroup"
}

func walkVars(repo string, lp *listPkg, fset *token.FileSet, files []*ast.File, info *types.Info) {
	vars := map[types.Object]*varSite{}
	var order []types.Object
	for _, f := range files {
		fname := fset.Position(f.Pos()).Filename
		if strings.HasSuffix(fname, "_test.go") {
			continue
		}
		rel, _ := filepath.Rel(repo, fname)
		for _, d := range f.Decls {
			gd, ok := d.(*ast.GenDecl)
			if !ok || gd.Tok != token.VAR {
				continue
			}
			for _, sp := range gd.Specs {
				vs, ok := sp.(*ast.ValueSpec)
				if !ok {
					continue
				}
				for _, id := range vs.Names {
					obj := info.Defs[id]
					if obj == nil || id.Name == "_" {
						continue
					}
					vars[obj] = &varSite{Kind: "var", Pkg: lp.ImportPath, File: rel, Line: fset.Position(id.Pos()).Line,
						Name: id.Name, Type: shortType(obj.Type())}
					order = append(order, obj)
				}
			}
		}
	}
	pkgVar := func(e ast.Expr) *varSite {
		id := rootIdent(e)
		if id == nil {
			return nil
		}
		if obj := info.Uses[id]; obj != nil {
			return vars[obj]
		}
		return nil
	}
	for _, f := range files {
		fname := fset.Position(f.Pos()).Filename
		if strings.HasSuffix(fname, "_test.go") {
			continue
		}
		for _, d := range f.Decls {
			fd, ok := d.(*ast.FuncDecl)
			if !ok || fd.Body == nil || (fd.Recv == nil && fd.Name.Name == "init") {
				continue
			}
			fn := funcName(fd)
			seen := map[string]bool{}
			add := func(v *varSite, how string) {
				if v == nil || seen[v.Name+"\x00"+how] {
					return
				}
				seen[v.Name+"\x00"+how] = true
				v.Writes = append(v.Writes, varWrite{Func: fn, How: how})
			}
			ast.Inspect(fd.Body, func(n ast.Node) bool {
				switch x := n.(type) {
				case *ast.AssignStmt:
					for _, l := range x.Lhs {
						if _, direct := l.(*ast.Ident); direct {
							add(pkgVar(l), "assign")
						} else {
							add(pkgVar(l), "assign-through")
						}
					}
				case *ast.IncDecStmt:
					add(pkgVar(x.X), "assign")
				case *ast.UnaryExpr:
					if x.Op == token.AND {
						add(pkgVar(x.X), "address-taken")
					}
				case *ast.CallExpr:
					if id, ok := x.Fun.(*ast.Ident); ok && (id.Name == "delete" || id.Name == "clear") && len(x.Args) > 0 {
						add(pkgVar(x.Args[0]), id.Name)
					}
					if se, ok := x.Fun.(*ast.SelectorExpr); ok {
						if v := pkgVar(se.X); v != nil {
							if tv, ok := info.Types[se.X]; ok && tv.Type != nil && !isLockType(tv.Type) {
								if _, isPkg := info.Uses[rootIdent(se.X)].(*types.PkgName); !isPkg {
									add(v, "call:"+se.Sel.Name)
								}
							}
						}
					}
				}
				return true
			})
		}
	}
	for _, obj := range order {
		v := vars[obj]
		if len(v.Writes) == 0 {
			continue
		}
		b, _ := json.Marshal(v)
		fmt.Println(string(b))
	}
}
