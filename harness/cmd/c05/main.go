// c05: as cmd/c02, plus a Go-implemented script function verif_panic() that panics inside the Go
// runtime when called (the only way left to exercise TryStatement.guarded: every script-reachable
// panic found so far has been repaired).
// c05: runs whole programs on the real interpreter, in-process, one fresh VM per program.
// stdin: one JSON case per line {"src": "<?php ..."}; stdout: one JSON observation per line
// {"out": "...", "outcome": "ok"|"throw"|"parse"|"panic"|"control"|"timeout", "detail": "..."}.
// Every observation line starts with the marker "@@R@@ " so that anything the interpreter writes to
// the real stdout behind data.WriteOutput's back cannot be mistaken for (or corrupt) a result.
// A program that does not finish within the per-case budget is reported as "timeout" and the
// process exits (the goroutine cannot be killed); the driver restarts the engine after it.
package main

import (
	"encoding/json"
	"fmt"
	"os"
	"time"

	"verif/harness/vrun"

	"github.com/php-any/origami/data"
	"github.com/php-any/origami/runtime"
)

// panicFunc: verif_panic() — a built-in whose Go body panics
type panicFunc struct{}

func (panicFunc) Call(ctx data.Context) (data.GetValue, data.Control) {
	var m map[string]int
	m["verif"] = 1 // assignment to entry in nil map: a genuine Go runtime panic
	return data.NewNullValue(), nil
}
func (panicFunc) GetName() string               { return "verif_panic" }
func (panicFunc) GetParams() []data.GetValue    { return nil }
func (panicFunc) GetVariables() []data.Variable { return nil }

type Case struct {
	Src string `json:"src"`
}

type Obs struct {
	Out     string `json:"out"`
	Outcome string `json:"outcome"`
	Detail  string `json:"detail,omitempty"`
}

func main() {
	emit := func(o Obs) {
		b, _ := json.Marshal(o)
		os.Stdout.WriteString("\n@@R@@ " + string(b) + "\n")
	}
	vrun.Lines(func(line string) {
		if line == "" {
			return
		}
		var c Case
		if err := json.Unmarshal([]byte(line), &c); err != nil {
			emit(Obs{Outcome: "bad-case", Detail: err.Error()})
			return
		}
		done := make(chan vrun.Result, 1)
		go func() { done <- vrun.RunStringWith(c.Src, "c05.php", func(vm *runtime.VM) { vm.AddFunc(panicFunc{}) }) }()
		select {
		case r := <-done:
			d := r.Detail
			if len(d) > 300 {
				d = d[:300]
			}
			emit(Obs{Out: r.Out, Outcome: r.Outcome, Detail: d})
		case <-time.After(10 * time.Second):
			emit(Obs{Outcome: "timeout"})
			fmt.Fprintln(os.Stderr, "c05: case timed out, exiting")
			os.Exit(3)
		}
	})
}
