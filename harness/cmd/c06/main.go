// c06: runs generated aliasing programs on the real interpreter, in process, on a fresh VM each.
// stdin: one JSON case per line {"src": "<?php ..."}; stdout: one JSON observation per line
// {"out": "...", "outcome": "ok|throw|parse|panic|control", "detail": "..."}.
// The programs print labelled snapshot lines (label TAB json); the check parses them.
package main

import (
	"encoding/json"
	"os"
	"strings"

	"verif/harness/vrun"
)

type Case struct {
	Src string `json:"src"`
}

type Obs struct {
	Out     string `json:"out"`
	Outcome string `json:"outcome"`
	Detail  string `json:"detail,omitempty"`
}

func main() {
	enc := json.NewEncoder(os.Stdout)
	vrun.Lines(func(line string) {
		if strings.TrimSpace(line) == "" {
			return
		}
		var c Case
		if err := json.Unmarshal([]byte(line), &c); err != nil {
			os.Stdout.WriteString("\n")
			enc.Encode(Obs{Outcome: "harness", Detail: err.Error()})
			return
		}
		r := vrun.RunString(c.Src, "c06.php")
		os.Stdout.WriteString("\n")
		enc.Encode(Obs{Out: r.Out, Outcome: r.Outcome, Detail: r.Detail})
	})
}
