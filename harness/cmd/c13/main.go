// c13: drives the real bufferedWriter / ResponseWriter script class / applyMiddlewares.
// stdin: one JSON case per line; stdout: one JSON observation per line.
//
//	{"kind":"ops","mode":"go"|"script","ops":[["status",404],["header","K","v"],["cookie","n","v"],
//	   ["write","p"],["html","p"],["json","p"],["redirect","u",302],["nocontent",204],["writeheader",500]]}
//	{"kind":"mw","prios":[5,0,-1]}
package main

import (
	"encoding/json"
	"fmt"
	"net/http"
	"net/http/httptest"
	"os"
	"regexp"
	"sort"
	"strconv"
	"strings"
	"sync"
	"time"

	"verif/harness/vrun"

	"github.com/php-any/origami/data"
	ohttp "github.com/php-any/origami/std/net/http"
)

type counting struct {
	*httptest.ResponseRecorder
	wh int
}

func (c *counting) WriteHeader(code int) { c.wh++; c.ResponseRecorder.WriteHeader(code) }

// blocking: the first WriteHeader or Write that reaches the connection parks the request until
// released, so that another request to the same route can run from start to end in between.
type blocking struct {
	*counting
	once    sync.Once
	blocked chan struct{}
	release chan struct{}
}

func (b *blocking) park() {
	b.once.Do(func() {
		close(b.blocked)
		select {
		case <-b.release:
		case <-time.After(10 * time.Second):
		}
	})
}
func (b *blocking) WriteHeader(code int)        { b.park(); b.counting.WriteHeader(code) }
func (b *blocking) Write(p []byte) (int, error) { b.park(); return b.counting.Write(p) }

type Case struct {
	Kind     string  `json:"kind"`
	Mode     string  `json:"mode"`
	Ops      [][]any `json:"ops"`
	Prios    []int   `json:"prios"`
	Mws      []Mw    `json:"mws"`
	Throw    bool    `json:"throw"`
	OnError  [][]any `json:"onerror"`
	OnFormat bool    `json:"onformat"`
	Overlap  bool    `json:"overlap"`
	Items    [][]any `json:"items"`
}

type Obs struct {
	Wh     int                 `json:"wh"`
	Code   int                 `json:"code"`
	Hdr    map[string][]string `json:"hdr"`
	Body   string              `json:"body"`
	Trace  [][2]int            `json:"trace,omitempty"`
	Bodies []string            `json:"bodies,omitempty"`
	Err    string              `json:"err,omitempty"`
	Second *Obs                `json:"second,omitempty"`
	Lapped bool                `json:"lapped,omitempty"`
}

func str(x any) string { s, _ := x.(string); return s }
func num(x any) int    { f, _ := x.(float64); return int(f) }

func runGo(ops [][]any) Obs {
	rec := &counting{ResponseRecorder: httptest.NewRecorder()}
	bw := ohttp.VerifNewBufferedWriter(rec)
	for _, o := range ops {
		switch str(o[0]) {
		case "status":
			bw.SetStatus(num(o[1]))
		case "header":
			bw.SetHeader(str(o[1]), str(o[2]))
		case "cookie":
			bw.SetCookie(&http.Cookie{Name: str(o[1]), Value: str(o[2])})
		case "write":
			bw.Write([]byte(str(o[1])))
		case "html":
			bw.WriteHTML([]byte(str(o[1])))
		case "json":
			bw.WriteJSON([]byte(str(o[1])))
		case "redirect":
			bw.Redirect(str(o[1]), num(o[2]))
		case "nocontent":
			bw.NoContent(num(o[1]))
		case "writeheader":
			bw.WriteHeader(num(o[1]))
		case "htmlwith":
			bw.SetStatus(num(o[2]))
			bw.WriteHTML([]byte(str(o[1])))
		case "formatted":
			_ = bw.Formatted(num(o[1]), str(o[2]))
		}
	}
	bw.CommitPending()
	return observe(rec)
}

func observe(rec *counting) Obs {
	res := rec.Result()
	h := map[string][]string{}
	for k, v := range res.Header {
		h[k] = v
	}
	// the default envelope carries time.Now().Unix(): not an observable of the property
	body := tsRe.ReplaceAllString(rec.Body.String(), `"timestamp":0`)
	return Obs{Wh: rec.wh, Code: res.StatusCode, Hdr: h, Body: body}
}

// the files served by the "file" op, created once per process
var (
	fileDirOnce sync.Once
	fileDir     string
)

func filePath(name string) string {
	fileDirOnce.Do(func() {
		fileDir, _ = os.MkdirTemp("", "c13files")
		_ = os.WriteFile(fileDir+"/f.html", []byte("<p>f</p>"), 0o644)
		_ = os.WriteFile(fileDir+"/f.json", []byte("{\"f\":1}"), 0o644)
		_ = os.WriteFile(fileDir+"/f.zzz", []byte("zz"), 0o644)
	})
	if name == "" {
		return fileDir
	}
	return fileDir + "/" + name
}

var tsRe = regexp.MustCompile(`"timestamp":\d+`)

func q(s string) string { return strconv.Quote(s) }

// script mode: the same ops as calls on $w inside a handler function, served through the real
// Handler.ServeHTTP (beginResponse + deferred commitPending)
// opsScript renders ops as method calls on the response variable `v` (e.g. "$w").
// "*0" ops use the methods' DEFAULT arguments; "badstatus" wraps an out-of-range code in try/catch.
func opsScript(sb *strings.Builder, v string, ops [][]any) {
	for _, op := range ops {
		switch str(op[0]) {
		case "status":
			fmt.Fprintf(sb, "%s->status(%d);\n", v, num(op[1]))
		case "header":
			fmt.Fprintf(sb, "%s->header(%s, %s);\n", v, q(str(op[1])), q(str(op[2])))
		case "cookie":
			fmt.Fprintf(sb, "%s->cookie(%s, %s, []);\n", v, q(str(op[1])), q(str(op[2])))
		case "cookieopt":
			// options as an associative-array literal (an ObjectValue in this interpreter)
			fmt.Fprintf(sb, "%s->cookie(%s, %s, ['path' => '/x', 'maxAge' => 60, 'httpOnly' => true]);\n", v, q(str(op[1])), q(str(op[2])))
		case "cookieopt2":
			// options built element by element (an ArrayValue)
			fmt.Fprintf(sb, "$o = []; $o['path'] = '/x'; $o['secure'] = true; %s->cookie(%s, %s, $o);\n", v, q(str(op[1])), q(str(op[2])))
		case "cookie2":
			fmt.Fprintf(sb, "%s->cookie(%s, %s);\n", v, q(str(op[1])), q(str(op[2])))
		case "write":
			fmt.Fprintf(sb, "%s->write(%s);\n", v, q(str(op[1])))
		case "html":
			fmt.Fprintf(sb, "%s->html(%s);\n", v, q(str(op[1])))
		case "json":
			// payload is the JSON text of a list of strings; the script passes the list itself
			// (json()'s parameter is declared object|array and that is enforced)
			var items []string
			_ = json.Unmarshal([]byte(str(op[1])), &items)
			parts := make([]string, len(items))
			for i, it := range items {
				parts[i] = q(it)
			}
			fmt.Fprintf(sb, "%s->json([%s]);\n", v, strings.Join(parts, ", "))
		case "redirect":
			fmt.Fprintf(sb, "%s->redirect(%s, %d);\n", v, q(str(op[1])), num(op[2]))
		case "redirect0":
			fmt.Fprintf(sb, "%s->redirect(%s);\n", v, q(str(op[1])))
		case "nocontent":
			fmt.Fprintf(sb, "%s->noContent(%d);\n", v, num(op[1]))
		case "nocontent0":
			fmt.Fprintf(sb, "%s->noContent();\n", v)
		case "writeheader":
			fmt.Fprintf(sb, "%s->writeHeader(%d);\n", v, num(op[1]))
		case "htmlwith":
			fmt.Fprintf(sb, "%s->html(%s, %d);\n", v, q(str(op[1])), num(op[2]))
		case "formatted":
			// error(message, code) and success(null, message, code) both reach writeFormattedResponse
			if num(op[1]) >= 400 {
				fmt.Fprintf(sb, "%s->error(%s, %d);\n", v, q(str(op[2])), num(op[1]))
			} else {
				fmt.Fprintf(sb, "%s->success(null, %s, %d);\n", v, q(str(op[2])), num(op[1]))
			}
		case "success0":
			fmt.Fprintf(sb, "%s->success();\n", v)
		case "error0":
			fmt.Fprintf(sb, "%s->error();\n", v)
		case "formatfail":
			// with the server's onFormat closure throwing for the message "boom": the formatted
			// call fails before anything is written and must leave the response untouched
			fmt.Fprintf(sb, "try { %s->%s; %s->write(\"NOTREFUSED\"); } catch (\\Throwable $e) { }\n", v, str(op[1]), v)
		case "file":
			// $w->file(path[, downloadName]): Content-Type by extension, Content-Disposition, then the content
			if str(op[2]) == "" {
				fmt.Fprintf(sb, "%s->file(%s);\n", v, q(filePath("f."+str(op[1]))))
			} else {
				fmt.Fprintf(sb, "%s->file(%s, %s);\n", v, q(filePath("f."+str(op[1]))), q(str(op[2])))
			}
		case "filemissing":
			// a path that does not exist / is a directory: refused before anything is set
			target := filePath("nosuch.bin")
			if str(op[1]) == "dir" {
				target = filePath("")
			}
			fmt.Fprintf(sb, "try { %s->file(%s); %s->write(\"NOTREFUSED\"); } catch (\\Throwable $e) { }\n", v, q(target), v)
		case "badstatus":
			// an out-of-range status code must be refused with a catchable error and have no effect
			fmt.Fprintf(sb, "try { %s->%s(%d); %s->write(\"NOTREFUSED\"); } catch (\\Throwable $e) { }\n", v, str(op[1]), num(op[2]), v)
		}
	}
}

// script mode: the same ops as calls on $w inside a handler function, served through the real
// Handler.ServeHTTP (beginResponse + deferred commit)
func runScript(ops [][]any) (o Obs) {
	var sb strings.Builder
	sb.WriteString("function h($r, $w) {\n")
	opsScript(&sb, "$w", ops)
	sb.WriteString("}\n")
	defer func() {
		if r := recover(); r != nil {
			o.Err = fmt.Sprint(r)
		}
	}()
	vm, p := vrun.NewVM()
	// an uncaught throw inside a middleware reaches VM.ThrowControl (which would exit the process)
	vm.SetThrowControl(func(acl data.Control) { panic(acl) })
	prog, acl := p.ParseString(sb.String(), "c13.zy")
	if acl != nil {
		return Obs{Err: "parse: " + acl.AsString()}
	}
	ctx := vm.CreateContext(p.GetVariables())
	if _, c := prog.GetValue(ctx); c != nil {
		return Obs{Err: "run: " + c.AsString()}
	}
	fn, ok := vm.GetFunc("h")
	if !ok {
		return Obs{Err: "no function h"}
	}
	rec := &counting{ResponseRecorder: httptest.NewRecorder()}
	req := httptest.NewRequest("GET", "/x", nil)
	hd := ohttp.Handler{Value: fn, Ctx: ctx}
	hd.ServeHTTP(rec, req)
	return observe(rec)
}

// server mode: a script builds a real Server with an optional onError handler, middlewares
// (priority, ops before $next, ops after $next) and one route whose handler runs ops and
// optionally throws; one request is served by the real ServeMux. Every layer talks to its own
// Response object; the recorder counts header commits on the underlying connection.
type Mw struct {
	Prio int     `json:"prio"`
	Pre  [][]any `json:"pre"`
	Post [][]any `json:"post"`
	// an uncaught throw at the end of the calls before $next / after $next
	TPre  bool `json:"tpre"`
	TPost bool `json:"tpost"`
	Class bool `json:"class"` // a class-instance middleware (handle method) instead of a closure
}

func runServer(c Case) (o Obs) {
	var sb strings.Builder
	sb.WriteString("use Net\\Http\\Server;\n$server = new Server('127.0.0.1', 0);\n")
	if c.OnFormat {
		sb.WriteString("$server->onFormat(function ($code, $message, $data) {\n" +
			"if ($message == \"boom\") { throw new Exception(\"fmt\"); }\n" +
			"return [\"code\" => $code, \"message\" => $message, \"data\" => $data, \"timestamp\" => 0];\n});\n")
	}
	if c.OnError != nil {
		sb.WriteString("$server->onError(function ($request, $response, $error) {\n")
		opsScript(&sb, "$response", c.OnError)
		sb.WriteString("});\n")
	}
	for i, m := range c.Mws {
		var body strings.Builder
		opsScript(&body, "$response", m.Pre)
		if m.TPre {
			body.WriteString("throw new Exception(\"mwpre\");\n")
		}
		body.WriteString("$next($request, $response);\n")
		opsScript(&body, "$response", m.Post)
		if m.TPost {
			body.WriteString("throw new Exception(\"mwpost\");\n")
		}
		if m.Class {
			fmt.Fprintf(&sb, "class SMw%d { public function handle($request, $response, $next) {\n%s} }\n$server->middleware(new SMw%d(), %d);\n", i, body.String(), i, m.Prio)
		} else {
			fmt.Fprintf(&sb, "$server->middleware(function ($request, $response, $next) {\n%s}, %d);\n", body.String(), m.Prio)
		}
	}
	sb.WriteString("$server->get('/x', function ($req, $res) {\n")
	opsScript(&sb, "$res", c.Ops)
	if c.Throw {
		sb.WriteString("throw new Exception(\"boom\");\n")
	}
	sb.WriteString("});\n")
	defer func() {
		if r := recover(); r != nil {
			o.Err = fmt.Sprint(r)
		}
	}()
	vm, p := vrun.NewVM()
	// an uncaught throw inside a middleware reaches VM.ThrowControl (which would exit the process)
	vm.SetThrowControl(func(acl data.Control) { panic(acl) })
	prog, acl := p.ParseString(sb.String(), "c13srv.zy")
	if acl != nil {
		return Obs{Err: "parse: " + acl.AsString()}
	}
	vars := p.GetVariables()
	ctx := vm.CreateContext(vars)
	if _, ctl := prog.GetValue(ctx); ctl != nil {
		return Obs{Err: "run: " + ctl.AsString()}
	}
	var mux http.Handler
	for _, v := range vars {
		if v.GetName() == "server" {
			val, _ := ctx.GetVariableValue(v)
			if gs, ok := val.(data.GetSource); ok {
				mux, _ = gs.GetSource().(http.Handler)
			}
		}
	}
	if mux == nil {
		return Obs{Err: "no server mux"}
	}
	if c.Overlap {
		// request A parks at its first write to the connection; request B (same route) is served
		// completely meanwhile; then A resumes. Each response must be what its own calls produce.
		a := &blocking{counting: &counting{ResponseRecorder: httptest.NewRecorder()}, blocked: make(chan struct{}), release: make(chan struct{})}
		done := make(chan any, 1)
		go func() {
			defer func() { done <- recover() }()
			mux.ServeHTTP(a, httptest.NewRequest("GET", "/x", nil))
		}()
		var pa any
		finished := false
		select {
		case <-a.blocked:
			o.Lapped = true
		case pa = <-done:
			finished = true
		case <-time.After(10 * time.Second):
			return Obs{Err: "overlap: request A neither wrote nor returned"}
		}
		b := &counting{ResponseRecorder: httptest.NewRecorder()}
		mux.ServeHTTP(b, httptest.NewRequest("GET", "/x", nil))
		close(a.release)
		if !finished {
			select {
			case pa = <-done:
			case <-time.After(10 * time.Second):
				return Obs{Err: "overlap: request A did not return after release"}
			}
		}
		if pa != nil {
			return Obs{Err: "overlap: request A panicked: " + fmt.Sprint(pa)}
		}
		lapped := o.Lapped
		o = observe(a.counting)
		o.Lapped = lapped
		ob := observe(b)
		o.Second = &ob
		return o
	}
	rec := &counting{ResponseRecorder: httptest.NewRecorder()}
	mux.ServeHTTP(rec, httptest.NewRequest("GET", "/x", nil))
	return observe(rec)
}

func runMw(prios []int) Obs {
	var trace [][2]int
	fns := make([]ohttp.MiddlewareFunc, len(prios))
	for i := range prios {
		id := i
		fns[i] = func(next http.Handler) http.Handler {
			return http.HandlerFunc(func(w http.ResponseWriter, r *http.Request) {
				trace = append(trace, [2]int{0, id})
				next.ServeHTTP(w, r)
				trace = append(trace, [2]int{1, id})
			})
		}
	}
	final := http.HandlerFunc(func(w http.ResponseWriter, r *http.Request) { trace = append(trace, [2]int{2, 0}) })
	h := ohttp.VerifApplyMiddlewares(final, prios, fns)
	h.ServeHTTP(httptest.NewRecorder(), httptest.NewRequest("GET", "/", nil))
	return Obs{Trace: trace}
}

// script-level middleware registration: $server->middleware(fn, prio) ... $server->get('/x', fn),
// then the real ServeMux (Server.GetSource) serves one request; every layer writes its own marker
// through its own Response object, so the body is the trace and the recorder counts header commits.
func runMwScript(prios []int) (o Obs) {
	var sb strings.Builder
	sb.WriteString("use Net\\Http\\Server;\n$server = new Server('127.0.0.1', 0);\n")
	for i, p := range prios {
		fmt.Fprintf(&sb, "$server->middleware(function ($request, $response, $next) { $response->write(\"E%d;\"); $next($request, $response); $response->write(\"X%d;\"); }, %d);\n", i, i, p)
	}
	sb.WriteString("$server->get('/x', function ($req, $res) { $res->write(\"F;\"); });\n")
	defer func() {
		if r := recover(); r != nil {
			o.Err = fmt.Sprint(r)
		}
	}()
	vm, p := vrun.NewVM()
	// an uncaught throw inside a middleware reaches VM.ThrowControl (which would exit the process)
	vm.SetThrowControl(func(acl data.Control) { panic(acl) })
	prog, acl := p.ParseString(sb.String(), "c13mw.zy")
	if acl != nil {
		return Obs{Err: "parse: " + acl.AsString()}
	}
	vars := p.GetVariables()
	ctx := vm.CreateContext(vars)
	if _, c := prog.GetValue(ctx); c != nil {
		return Obs{Err: "run: " + c.AsString()}
	}
	var mux http.Handler
	for _, v := range vars {
		if v.GetName() == "server" {
			val, _ := ctx.GetVariableValue(v)
			if gs, ok := val.(data.GetSource); ok {
				mux, _ = gs.GetSource().(http.Handler)
			}
		}
	}
	if mux == nil {
		return Obs{Err: "no server mux"}
	}
	rec := &counting{ResponseRecorder: httptest.NewRecorder()}
	mux.ServeHTTP(rec, httptest.NewRequest("GET", "/x", nil))
	ob := observe(rec)
	for _, part := range strings.Split(ob.Body, ";") {
		switch {
		case part == "F":
			ob.Trace = append(ob.Trace, [2]int{2, 0})
		case strings.HasPrefix(part, "E"):
			n, _ := strconv.Atoi(part[1:])
			ob.Trace = append(ob.Trace, [2]int{0, n})
		case strings.HasPrefix(part, "X"):
			n, _ := strconv.Atoi(part[1:])
			ob.Trace = append(ob.Trace, [2]int{1, n})
		}
	}
	return ob
}

// registration-order mode: middlewares (closure or class instance, with priority) and routes are
// registered in an arbitrary interleaving; a route is wrapped by exactly the middlewares registered
// BEFORE it. Every route is then served once; the body of each response is its trace.
//
//	{"kind":"mwreg","items":[["mw","closure",5],["route"],["mw","class",0],["route"]]}
//
// with route groups: ["group",parent] creates Server number k (creation order, 0 = the root) by
// $s<parent>->group('/g<k>'); ["mw",kind,prio,target] and ["route",target] name the Server they act on.
func runMwReg(c Case) (o Obs) {
	tgt := func(it []any, i int) int {
		if len(it) > i {
			return num(it[i])
		}
		return 0
	}
	parent := []int{-1}
	var sb strings.Builder
	sb.WriteString("use Net\\Http\\Server;\n")
	nm, nr := 0, 0
	for _, it := range c.Items {
		if str(it[0]) == "mw" && str(it[1]) == "class" {
			fmt.Fprintf(&sb, "class Mw%d { public function handle($request, $response, $next) { $response->write(\"E%d;\"); $next($request, $response); $response->write(\"X%d;\"); } }\n", nm, nm, nm)
		}
		if str(it[0]) == "mw" {
			nm++
		}
	}
	sb.WriteString("$server = new Server('127.0.0.1', 0);\n$s0 = $server;\n")
	nm = 0
	var routeOn []int
	for _, it := range c.Items {
		switch str(it[0]) {
		case "group":
			k := len(parent)
			fmt.Fprintf(&sb, "$s%d = $s%d->group('/g%d');\n", k, tgt(it, 1), k)
			parent = append(parent, tgt(it, 1))
		case "mw":
			if str(it[1]) == "class" {
				fmt.Fprintf(&sb, "$s%d->middleware(new Mw%d(), %d);\n", tgt(it, 3), nm, num(it[2]))
			} else {
				fmt.Fprintf(&sb, "$s%d->middleware(function ($request, $response, $next) { $response->write(\"E%d;\"); $next($request, $response); $response->write(\"X%d;\"); }, %d);\n", tgt(it, 3), nm, nm, num(it[2]))
			}
			nm++
		case "route":
			fmt.Fprintf(&sb, "$s%d->get('/r%d', function ($req, $res) { $res->write(\"F;\"); });\n", tgt(it, 1), nr)
			routeOn = append(routeOn, tgt(it, 1))
			nr++
		}
	}
	// candidate URLs of a route on Server t: the group's own prefix (what the code does today), or the
	// concatenation of the prefixes down from the root (should nested groups ever compose)
	urls := func(t, r int) []string {
		own, chain := "", ""
		if t > 0 {
			own = fmt.Sprintf("/g%d", t)
		}
		for x := t; x > 0; x = parent[x] {
			chain = fmt.Sprintf("/g%d", x) + chain
		}
		u := []string{fmt.Sprintf("%s/r%d", own, r)}
		if chain != own {
			u = append(u, fmt.Sprintf("%s/r%d", chain, r))
		}
		return u
	}
	defer func() {
		if r := recover(); r != nil {
			o.Err = fmt.Sprint(r)
		}
	}()
	vm, p := vrun.NewVM()
	vm.SetThrowControl(func(acl data.Control) { panic(acl) })
	prog, acl := p.ParseString(sb.String(), "c13reg.zy")
	if acl != nil {
		return Obs{Err: "parse: " + acl.AsString()}
	}
	vars := p.GetVariables()
	ctx := vm.CreateContext(vars)
	if _, ctl := prog.GetValue(ctx); ctl != nil {
		return Obs{Err: "run: " + ctl.AsString()}
	}
	var mux http.Handler
	for _, v := range vars {
		if v.GetName() == "server" {
			val, _ := ctx.GetVariableValue(v)
			if gs, ok := val.(data.GetSource); ok {
				mux, _ = gs.GetSource().(http.Handler)
			}
		}
	}
	if mux == nil {
		return Obs{Err: "no server mux"}
	}
	// serve the routes in reverse registration order (a cache filled by an early route must not leak)
	var bodies []string
	for r := nr - 1; r >= 0; r-- {
		var rec *counting
		for _, u := range urls(routeOn[r], r) {
			rec = &counting{ResponseRecorder: httptest.NewRecorder()}
			mux.ServeHTTP(rec, httptest.NewRequest("GET", u, nil))
			if rec.Code != 404 {
				break
			}
		}
		bodies = append([]string{rec.Body.String()}, bodies...)
		if rec.wh > 1 {
			o.Wh = rec.wh
		}
	}
	o.Bodies = bodies
	return o
}

var _ = data.NewIntValue
var _ = sort.Strings

func main() {
	enc := json.NewEncoder(os.Stdout)
	defer func() {
		if fileDir != "" {
			os.RemoveAll(fileDir)
		}
	}()
	vrun.Lines(func(line string) {
		var c Case
		if err := json.Unmarshal([]byte(line), &c); err != nil {
			enc.Encode(Obs{Err: "bad case: " + err.Error()})
			return
		}
		switch {
		case c.Kind == "mw":
			enc.Encode(runMw(c.Prios))
		case c.Kind == "mwreg":
			enc.Encode(runMwReg(c))
		case c.Kind == "server":
			enc.Encode(runServer(c))
		case c.Kind == "mwscript":
			enc.Encode(runMwScript(c.Prios))
		case c.Mode == "script":
			enc.Encode(runScript(c.Ops))
		default:
			enc.Encode(runGo(c.Ops))
		}
	})
}
