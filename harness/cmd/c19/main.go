// c19: runs history scripts (generic instantiations interleaved with typed member writes, reads, calls of
// methods with typed parameters, constructor calls) on the real interpreter, in-process.
//
//	c19            stdin: one JSON case per line {"src": "<script text, plain .zy mode>"}; one fresh VM per case
//	               stdout: one JSON observation per line {"out": "<captured stdout>", "outcome": "ok|throw|parse|panic|control"}
//	c19 conc       the same cases (scripts that `spawn` several histories on ONE VM and collect what each history
//	               observed through a Channel), run in a child process (`c19 child`) so that data-race reports of a
//	               -race build can be collected from its stderr: after the observations one more line
//	               {"races": {"<first origami frame> | <first origami frame>": n}, "exit": code}
//
// The scripts print one marker per operation (see checks/C19.py); the harness adds nothing.
package main

import (
	"bytes"
	"encoding/json"
	"os"
	"os/exec"
	"strings"
	"time"

	"verif/harness/vrun"
)

type Case struct {
	Src   string `json:"src"`
	Spawn bool   `json:"spawn,omitempty"`
}

type Obs struct {
	Out     string `json:"out"`
	Outcome string `json:"outcome"`
	Detail  string `json:"detail,omitempty"`
}

func serve() {
	enc := json.NewEncoder(os.Stdout)
	vrun.Lines(func(line string) {
		var c Case
		if err := json.Unmarshal([]byte(line), &c); err != nil {
			enc.Encode(Obs{Outcome: "badcase", Detail: err.Error()})
			return
		}
		var r vrun.Result
		if c.Spawn {
			r = vrun.RunStringSpawn(c.Src, "c19.zy", nil)
		} else {
			r = vrun.RunString(c.Src, "c19.zy")
		}
		enc.Encode(Obs{Out: r.Out, Outcome: r.Outcome, Detail: r.Detail})
	})
}

func conc() {
	self, _ := os.Executable()
	cmd := exec.Command(self, "child")
	cmd.Stdin = os.Stdin
	var se bytes.Buffer
	cmd.Stdout, cmd.Stderr = os.Stdout, &se
	cmd.Env = append(os.Environ(), "GORACE=halt_on_error=0")
	timer := time.AfterFunc(600*time.Second, func() { cmd.Process.Kill() })
	err := cmd.Run()
	timer.Stop()
	exit := 0
	if err != nil {
		exit = -1
		if ee, ok := err.(*exec.ExitError); ok {
			exit = ee.ExitCode()
		}
	}
	stderr := se.String()
	pairs := map[string]int{}
	if strings.Contains(stderr, "WARNING: DATA RACE") {
		for _, blk := range strings.Split(stderr, "WARNING: DATA RACE")[1:] {
			var tops []string
			for _, part := range strings.Split(blk, "\n\n") {
				head := strings.TrimSpace(part)
				if !(strings.HasPrefix(head, "Write at") || strings.HasPrefix(head, "Read at") ||
					strings.HasPrefix(head, "Previous write at") || strings.HasPrefix(head, "Previous read at")) {
					continue
				}
				for _, l := range strings.Split(part, "\n") {
					l = strings.TrimSpace(l)
					if strings.HasPrefix(l, "github.com/php-any/origami/") {
						tops = append(tops, strings.TrimSuffix(strings.TrimPrefix(l, "github.com/php-any/origami/"), "()"))
						break
					}
				}
			}
			if len(tops) == 2 && tops[0] > tops[1] {
				tops[0], tops[1] = tops[1], tops[0]
			}
			pairs[strings.Join(tops, " | ")]++
		}
	}
	o := map[string]any{"races": pairs, "exit": exit}
	if strings.Contains(stderr, "fatal error:") {
		f := stderr[strings.Index(stderr, "fatal error:"):]
		if len(f) > 200 {
			f = f[:200]
		}
		o["fatal"] = f
	}
	json.NewEncoder(os.Stdout).Encode(o)
}

func main() {
	if len(os.Args) > 1 && os.Args[1] == "conc" {
		conc()
		return
	}
	serve()
}
