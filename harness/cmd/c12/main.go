// c12: drives a real base runtime.VM plus TempVMs through a sequence of registry operations and
// reports, after every step, what every live VM resolves for a pool of names.
//
// stdin: one JSON case per line; stdout: one JSON observation per line.
//
//	{"names":["A","a","\\A","App\\P"], "consts":["K"],
//	 "cp":[{"name":"P","kind":"c"|"i"|"x"}],          // autoload files: <dir>/P.php in namespace App
//	 "ops":[{"op":"newtemp"},{"op":"retemp","t":0},{"op":"prepare","t":0},
//	        {"op":"add","vm":-1,"kind":"c","name":"A","file":3,"route":"direct"|"parse"},
//	        {"op":"goc"|"goi"|"pkg","vm":0,"name":"App\\P"},
//	        {"op":"const","vm":0,"name":"K","val":5},{"op":"discard","t":0},
//	        {"op":"req_begin"}, ...ops..., {"op":"req_end"}]}
//
// req_begin ... req_end: the enclosed ops run INSIDE one request served by the real
// std/net/http HotHandler.ServeHTTP (which creates the request-level TempVM): req_begin is observed as the
// creation of the next TempVM (the handler function's ctx.GetVM()), req_end as its discarding.
//
// vm = -1 is the base VM, t >= 0 the t-th TempVM created by "newtemp".
// A definition is identified by the id of the source file it came from (GetFrom().GetSource()):
// "d<k>.php" -> k for add ops, 1000+i for the i-th autoload file.
package main

import (
	"encoding/json"
	"fmt"
	"net/http/httptest"
	"os"
	"path/filepath"
	goruntime "runtime"
	"sort"
	"strconv"
	"strings"

	"verif/harness/vrun"

	"github.com/php-any/origami/data"
	"github.com/php-any/origami/node"
	"github.com/php-any/origami/parser"
	"github.com/php-any/origami/runtime"
	ohttp "github.com/php-any/origami/std/net/http"
	"github.com/php-any/origami/std/php"
)

type CP struct {
	Name string `json:"name"`
	Kind string `json:"kind"`
}

type Op struct {
	Op    string `json:"op"`
	VM    int    `json:"vm"`
	T     int    `json:"t"`
	Kind  string `json:"kind"`
	Name  string `json:"name"`
	File  int    `json:"file"`
	Route string `json:"route"`
	Val   int    `json:"val"`
	NS    string `json:"ns"`
}

// hot-reload case: a SCRIPT handler function (one shared AST, as a registered route has) is served several times by
// the real HotHandler; before request k the autoload file App/P.php is rewritten to version k.  Every request
// runs on its own TempVM, so request k must see version k of the class (and of its helper function).
//
//	{"hot":{"body":"$o = new App\\P(); $w->write($o->v());","requests":3}}
type Hot struct {
	Body     string `json:"body"`
	Requests int    `json:"requests"`
	// Files: name -> content, written into the case directory before the first request (templates, included files); the
	// text DIR in Body and in the contents is replaced by that directory.  NoRewrite: do not rewrite App/P.php per request.
	// Probe: names that only request-level code declares: after EVERY request the base VM and a fresh TempVM must
	// resolve none of them as class, interface or function (Step.Leak lists what they do resolve).
	Files     map[string]string `json:"files,omitempty"`
	Probe     []string          `json:"probe,omitempty"`
	NoRewrite bool              `json:"norewrite,omitempty"`
}

type Case struct {
	Hot *Hot `json:"hot,omitempty"`
	GC  bool `json:"gc"` // collect garbage after every discard (address reuse by later TempVMs)
	// SharedObj: class names N for which the base creates ONE object kept in a static property (c12reg_N::$s = new c12fac_N())
	// whose method bodies all do `new N()` and return its marker: ordinary method make(), __invoke, __get, __call; ping() returns 1
	SharedObj []string `json:"sharedobj"`
	SharedFn  []string `json:"sharedfn"` // function names N for which the base defines c12call_N() { return N(); }
	Shared    []string `json:"shared"`   // class names N for which the base defines c12new_N() and class c12child_N extends N
	// Callbacks: class names that NO class-path file provides; for name k an spl autoload callback is registered
	// (parser.AddAutoLoad, process-wide, reset by NewVM) that defines class Callbacks[k] (definition id 2000+k) on the VM
	// of the context it is called with, and declines every other name (composer classmap / legacy autoloader)
	Callbacks []string `json:"callbacks,omitempty"`
	// PathShape: where the history's FILES live below a fresh temporary directory -- the files of routes parsefile /
	// include / require_once and the class-path directory of namespace App: "", "vendor", "vendor/acme/lib/src", "src",
	// "My.Dir/UPPER", "dots:vendor" (path spelled with a ../ segment) ...
	PathShape string   `json:"pathshape,omitempty"`
	Scripts   bool     `json:"scripts"` // the history contains script-level ops: load the PHP function library
	Names     []string `json:"names"`
	Consts    []string `json:"consts"`
	CP        []CP     `json:"cp"`
	Ops       []Op     `json:"ops"`
}

// one step: R = result of the op: 0 ok / nothing, 1 error(throw), 2 panic, 3 skipped (dead vm);
// D = definition id returned by goc/goi/pkg (-1 none); Look = flat lookup vector (see sweep)
type Step struct {
	R    int      `json:"r"`
	D    int      `json:"d"`
	Look []int    `json:"look"`
	Msg  string   `json:"msg,omitempty"`
	Out  string   `json:"out,omitempty"`
	Leak []string `json:"leak,omitempty"`
}

type Obs struct {
	Steps []Step `json:"steps"`
	// CPFind[i] = index of the autoload file FindClassFile(names[i]) returns, -1 if none
	CPFind []int  `json:"cpfind"`
	Err    string `json:"err,omitempty"`
}

type world struct {
	dir     string
	p       *parser.Parser
	base    *runtime.VM
	temps   []*runtime.TempVM // nil = discarded
	tp      []*parser.Parser  // parser bound to temp t (nil until prepared)
	c       *Case
	cpfile  map[string]int
	tplRoot string
	tpl     string            // directory of the template files of route "parsefile"
	all     []*runtime.TempVM // every TempVM a request ever ran on
	hot     *ohttp.HotHandler
	hotCtx  data.Context
	nfn     int          // counter for the helper functions of route "infunc"
	thrown  data.Control // last control handed to VM.ThrowControl (Program.GetValue reports throws there)
}

func srcID(w *world, from data.From) int {
	if from == nil {
		return -3
	}
	s := filepath.Base(from.GetSource())
	// code declared by eval() carries the source "<file>(<line>) : eval()'d code" of the file that called eval
	if i := strings.Index(s, ".php("); i >= 0 && strings.HasSuffix(s, "eval()'d code") {
		s = s[:i+4]
	}
	if id, ok := w.cpfile[s]; ok && strings.HasPrefix(from.GetSource(), w.dir) {
		return id
	}
	if strings.HasPrefix(s, "d") && strings.HasSuffix(s, ".php") {
		if n, err := strconv.Atoi(s[1 : len(s)-4]); err == nil {
			return n
		}
	}
	return -4
}

func (w *world) vm(i int) data.VM {
	if i < 0 {
		return w.base
	}
	if i >= len(w.temps) || w.temps[i] == nil {
		return nil
	}
	return w.temps[i]
}

func funcFrom(f data.FuncStmt) data.From {
	if g, ok := f.(node.GetFrom); ok {
		return g.GetFrom()
	}
	return nil
}

// sweep: for every vm slot (base, temp0..), for every name: class, interface, func ids;
// then for every const name its value; then for every autoload file whether the vm reports it cached.
// dead temps give -2 everywhere.
func (w *world) sweep() []int {
	out := []int{}
	for i := -1; i < len(w.temps); i++ {
		v := w.vm(i)
		n := 3*len(w.c.Names) + len(w.c.Consts) + len(w.c.CP)
		if v == nil {
			for k := 0; k < n; k++ {
				out = append(out, -2)
			}
			continue
		}
		for _, nm := range w.c.Names {
			if c, ok := v.GetClass(nm); ok {
				out = append(out, srcID(w, c.GetFrom()))
			} else {
				out = append(out, -1)
			}
		}
		for _, nm := range w.c.Names {
			if c, ok := v.GetInterface(nm); ok {
				out = append(out, srcID(w, c.GetFrom()))
			} else {
				out = append(out, -1)
			}
		}
		for _, nm := range w.c.Names {
			if f, ok := v.GetFunc(nm); ok {
				out = append(out, srcID(w, funcFrom(f)))
			} else {
				out = append(out, -1)
			}
		}
		for _, nm := range w.c.Consts {
			if c, ok := v.GetConstant(nm); ok {
				if iv, ok := c.(data.AsInt); ok {
					n, _ := iv.AsInt()
					out = append(out, n)
				} else {
					out = append(out, -5)
				}
			} else {
				out = append(out, -1)
			}
		}
		for _, cp := range w.c.CP {
			if v.GetPhpFileCache(filepath.Join(w.dir, cp.Name+".php")) {
				out = append(out, 1)
			} else {
				out = append(out, 0)
			}
		}
	}
	return out
}

func (w *world) parserFor(i int) *parser.Parser {
	if i < 0 {
		return w.p.Clone()
	}
	// parse-time registration must land in the TempVM: PrepareParse binds a clone to it
	p := w.temps[i].PrepareParse(w.p)
	w.tp[i] = p
	return p
}

// splCallback: a Go-implemented spl autoload callback ($name)
type splCallback struct {
	k    int
	name string
}

func (c *splCallback) GetName() string { return fmt.Sprintf("c12autoload%d", c.k) }
func (c *splCallback) GetParams() []data.GetValue {
	return []data.GetValue{node.NewParameter(nil, "name", 0, nil, nil)}
}
func (c *splCallback) GetVariables() []data.Variable {
	return []data.Variable{node.NewVariable(nil, "name", 0, nil)}
}
func (c *splCallback) Call(ctx data.Context) (data.GetValue, data.Control) {
	v, _ := ctx.GetIndexValue(0)
	s, ok := v.(data.AsString)
	if !ok || s.AsString() != c.name {
		return data.NewNullValue(), nil
	}
	file := fmt.Sprintf("d%d.php", 2000+c.k)
	from := node.NewTokenFrom(&file, 0, 0, 0, 0)
	if acl := ctx.GetVM().AddClass(node.NewClassStatement(from, c.name, "", nil, nil, map[string]data.Method{})); acl != nil {
		return nil, acl
	}
	return data.NewBoolValue(true), nil
}

// declSrc: the declaration of (kind, name); a name with a namespace prefix is declared by its short name after a
// `namespace NS;` line (only meaningful at the top of a file / parsed string)
func declSrc(kind, name string, file int) string {
	ns := ""
	if i := strings.LastIndex(name, "\\"); i > 0 {
		ns = "namespace " + name[:i] + ";\n"
		name = name[i+1:]
	}
	switch kind {
	case "c":
		// the marker property tells WHICH definition an object (or an object of a class extending this one) came from
		return ns + fmt.Sprintf("class %s { public $c12src = %d; }", name, file)
	case "i":
		return ns + "interface " + name + " {}"
	default:
		// the return value tells WHICH definition of the function was called
		return ns + fmt.Sprintf("function %s() { return %d; }", name, file)
	}
}

// shared code of the "code defined on the base, names resolved per request VM" family: for class name N the base VM
// defines   function c12new_N() { $o = new N(); return $o->c12src; }   (one AST executed by every VM) and
//
//	class c12child_N extends N { public function __construct() {} }   (a base class whose parent is per-VM)
func sharedName(n string) string { return strings.ReplaceAll(n, "\\", "_") }

func (w *world) doOp(o Op) (st Step) {
	st.D = -1
	defer func() {
		if r := recover(); r != nil {
			st.R = 2
			st.Msg = fmt.Sprint(r)
		}
	}()
	switch o.Op {
	case "newtemp":
		t := runtime.NewTempVM(w.base).(*runtime.TempVM)
		w.temps = append(w.temps, t)
		w.tp = append(w.tp, nil)
		return
	case "retemp":
		// NewTempVM of a TempVM returns it unchanged
		v := w.vm(o.T)
		if v == nil {
			st.R = 3
			return
		}
		if runtime.NewTempVM(v) != v {
			st.R = 1
			st.Msg = "NewTempVM(temp) returned a different VM"
		}
		return
	case "prepare":
		if w.vm(o.T) == nil {
			st.R = 3
			return
		}
		w.parserFor(o.T)
		return
	case "discard":
		if w.vm(o.T) == nil {
			st.R = 3
			return
		}
		w.temps[o.T] = nil
		w.tp[o.T] = nil
		if w.c.GC {
			// the request is over and nothing of the harness refers to its VM any more: let the collector take it, so
			// that a TempVM created later may be allocated at the same address (a cache keyed by the VM's address
			// instead of the VM would then hit for the wrong VM)
			goruntime.GC()
			goruntime.GC()
		}
		return
	}
	v := w.vm(o.VM)
	if v == nil {
		st.R = 3
		return
	}
	switch o.Op {
	case "add":
		file := fmt.Sprintf("d%d.php", o.File)
		if o.Route == "parsefile" {
			// the template-rendering path ($w->view): VM.ParseFile / TempVM.ParseFile on a file that declares something
			decl := declSrc(o.Kind, o.Name, o.File)
			// one template directory per history: the same file id is the same path (same-file re-declaration)
			if _, ok := w.tplDir(); !ok {
				st.R = 2
				return
			}
			path := w.filePath(file)
			os.WriteFile(filepath.Join(w.tpl, file), []byte("<?php\n"+decl+"\n"), 0o644)
			w.thrown = nil
			if _, acl := v.ParseFile(path, data.NewObjectValue()); acl != nil {
				st.R = 1
				st.Msg = acl.AsString()
			} else if w.thrown != nil {
				st.R = 1
				st.Msg = w.thrown.AsString()
			}
			return
		}
		if o.Route == "eval" || o.Route == "include" || o.Route == "require_once" || o.Route == "infunc" || o.Route == "cond" {
			// "define via a script statement": a script run on VM v whose statement declares the thing -- eval() of a
			// declaration, include / require_once of a file that declares it, a declaration inside a function body
			// (the function is then called) or inside a conditional block
			decl := declSrc(o.Kind, o.Name, o.File)
			var src string
			switch o.Route {
			case "eval":
				src = "eval(" + strconv.Quote(decl) + ");"
			case "include", "require_once":
				if _, ok := w.tplDir(); !ok {
					st.R = 2
					return
				}
				path := w.filePath(file)
				os.WriteFile(filepath.Join(w.tpl, file), []byte("<?php\n"+decl+"\n"), 0o644)
				file = "script.zy"
				src = o.Route + " " + strconv.Quote(path) + ";"
			case "infunc":
				w.nfn++
				src = fmt.Sprintf("function c12mk%d() { %s return 1; }\nc12mk%d();", w.nfn, decl, w.nfn)
			default:
				src = "if (1 == 1) { " + decl + " }"
			}
			p := w.parserFor(o.VM)
			prog, acl := p.ParseString(src, file)
			if acl != nil {
				st.R = 1
				st.Msg = "parse: " + acl.AsString()
				return
			}
			ctx := v.CreateContext(p.GetVariables())
			w.thrown = nil
			if _, ctl := prog.GetValue(ctx); ctl != nil {
				st.R = 1
				st.Msg = ctl.AsString()
			} else if w.thrown != nil {
				st.R = 1
				st.Msg = w.thrown.AsString()
			}
			return
		}
		if o.Route == "parse" {
			src := declSrc(o.Kind, o.Name, o.File)
			p := w.parserFor(o.VM)
			prog, acl := p.ParseString(src, file)
			if acl != nil {
				st.R = 1
				st.Msg = acl.AsString()
				return
			}
			ctx := v.CreateContext(p.GetVariables())
			w.thrown = nil
			if _, ctl := prog.GetValue(ctx); ctl != nil {
				st.R = 1
				st.Msg = ctl.AsString()
			} else if w.thrown != nil {
				st.R = 1
				st.Msg = w.thrown.AsString()
			}
			return
		}
		from := node.NewTokenFrom(&file, 0, 0, 0, 0)
		var acl data.Control
		switch o.Kind {
		case "c":
			acl = v.AddClass(node.NewClassStatement(from, o.Name, "", nil, nil, map[string]data.Method{}))
		case "i":
			acl = v.AddInterface(node.NewInterfaceStatement(from, o.Name, nil, nil))
		default:
			acl = v.AddFunc(node.NewFunctionStatement(from, o.Name, nil, nil, nil, nil, false))
		}
		if acl != nil {
			st.R = 1
			st.Msg = acl.AsString()
		}
	case "goc":
		c, acl := v.GetOrLoadClass(o.Name)
		if acl != nil {
			st.R = 1
			st.Msg = acl.AsString()
		} else if c != nil {
			st.D = srcID(w, c.GetFrom())
		}
	case "goi":
		c, acl := v.GetOrLoadInterface(o.Name)
		if acl != nil {
			st.R = 1
			st.Msg = acl.AsString()
		} else if c != nil {
			st.D = srcID(w, c.GetFrom())
		}
	case "pkg":
		c, acl := v.LoadPkg(o.Name)
		if acl != nil {
			st.R = 1
			st.Msg = acl.AsString()
		} else if c != nil {
			switch x := c.(type) {
			case data.ClassStmt:
				st.D = srcID(w, x.GetFrom())
			case data.InterfaceStmt:
				st.D = srcID(w, x.GetFrom())
			default:
				st.D = -6
			}
		}
	case "cexists", "iexists", "new":
		// script level, run on VM v: class_exists(N) / interface_exists(N) / new N (all resolve through the VM of
		// the running context: GetClass+GetOrLoadClass, GetInterface+GetOrLoadInterface, GetOrLoadClass)
		var src string
		switch o.Op {
		case "cexists":
			src = "echo class_exists(" + strconv.Quote(o.Name) + ") ? \"1\" : \"0\";"
		case "iexists":
			src = "echo interface_exists(" + strconv.Quote(o.Name) + ") ? \"1\" : \"0\";"
		default:
			src = "$o = new " + o.Name + "(); echo \"1\";"
		}
		p := w.parserFor(o.VM)
		var sb strings.Builder
		old := data.WriteOutput
		data.WriteOutput = func(x string) { sb.WriteString(x) }
		defer func() { data.WriteOutput = old }()
		st.R = 4
		st.D = 0
		prog, acl := p.ParseString(src, "script.zy")
		if acl != nil {
			st.Msg = "parse: " + acl.AsString()
			return
		}
		ctx := v.CreateContext(p.GetVariables())
		w.thrown = nil
		_, ctl := prog.GetValue(ctx)
		if ctl == nil && w.thrown == nil && sb.String() == "1" {
			st.D = 1
		}
		return
	case "objcall":
		// script level, run on VM v: enter the base-created shared object of N through o.Route: "ping" (an ordinary method
		// that resolves nothing), "method" ($f->make()), "invoke" ($f()), "get" ($f->anything), "call" ($f->undefined())
		sn := sharedName(o.Name)
		src := "$f = c12reg_" + sn + "::$s;\n"
		switch o.Route {
		case "ping":
			src += "echo $f->ping();"
		case "method":
			src += "echo $f->make();"
		case "invoke":
			src += "echo $f();"
		case "get":
			src += "echo $f->anyprop;"
		default:
			src += "echo $f->undefinedmethod(3);"
		}
		p := w.parserFor(o.VM)
		var sb strings.Builder
		old := data.WriteOutput
		data.WriteOutput = func(x string) { sb.WriteString(x) }
		defer func() { data.WriteOutput = old }()
		st.R = 5
		st.D = -1
		prog, acl := p.ParseString(src, "script.zy")
		if acl != nil {
			st.Msg = "parse: " + acl.AsString()
			return
		}
		ctx := v.CreateContext(p.GetVariables())
		w.thrown = nil
		_, ctl := prog.GetValue(ctx)
		if ctl == nil && w.thrown == nil {
			st.Out = sb.String()
			if n, err := strconv.Atoi(strings.TrimSpace(sb.String())); err == nil {
				st.D = n
			} else {
				st.D = -8
			}
		} else if ctl != nil {
			st.Msg = ctl.AsString()
		} else {
			st.Msg = w.thrown.AsString()
		}
		return
	case "callcall":
		// script level, run on VM v: the base function c12call_N(), whose body calls N() -- a name no VM defined when the
		// body was parsed (late-bound call); D = the marker the called N returned (-1: failed)
		src := "echo c12call_" + sharedName(o.Name) + "();"
		p := w.parserFor(o.VM)
		var sb strings.Builder
		old := data.WriteOutput
		data.WriteOutput = func(x string) { sb.WriteString(x) }
		defer func() { data.WriteOutput = old }()
		st.R = 5
		st.D = -1
		prog, acl := p.ParseString(src, "script.zy")
		if acl != nil {
			st.Msg = "parse: " + acl.AsString()
			return
		}
		ctx := v.CreateContext(p.GetVariables())
		w.thrown = nil
		_, ctl := prog.GetValue(ctx)
		if ctl == nil && w.thrown == nil {
			st.Out = sb.String()
			if n, err := strconv.Atoi(strings.TrimSpace(sb.String())); err == nil {
				st.D = n
			} else {
				st.D = -8
			}
		} else if ctl != nil {
			st.Msg = ctl.AsString()
		} else {
			st.Msg = w.thrown.AsString()
		}
		return
	case "callfn", "newchild":
		// script level, run on VM v: code DEFINED ON THE BASE VM (one shared AST) whose class name resolves per VM:
		// callfn: the base function's body does `new N()`; newchild: `new c12child_N()` where the base class extends N.
		// D = the marker of the definition of N that was used (-1: failed)
		var src string
		if o.Op == "callfn" {
			src = "echo c12new_" + sharedName(o.Name) + "();"
		} else {
			src = "$o = new c12child_" + sharedName(o.Name) + "(); echo $o->c12src;"
		}
		p := w.parserFor(o.VM)
		var sb strings.Builder
		old := data.WriteOutput
		data.WriteOutput = func(x string) { sb.WriteString(x) }
		defer func() { data.WriteOutput = old }()
		st.R = 5
		st.D = -1
		prog, acl := p.ParseString(src, "script.zy")
		if acl != nil {
			st.Msg = "parse: " + acl.AsString()
			return
		}
		ctx := v.CreateContext(p.GetVariables())
		w.thrown = nil
		_, ctl := prog.GetValue(ctx)
		if ctl == nil && w.thrown == nil {
			st.Out = sb.String()
			if n, err := strconv.Atoi(strings.TrimSpace(sb.String())); err == nil {
				st.D = n
			} else {
				st.D = -8
			}
		} else if ctl != nil {
			st.Msg = ctl.AsString()
		} else {
			st.Msg = w.thrown.AsString()
		}
		return
	case "newshort":
		// script level, run on VM v: `namespace NS; $o = new Short(); echo get_class($o);` -- the short name is resolved by
		// the parser bound to v; D = the definition of the class of the object created (-1: the script failed)
		src := "namespace " + o.NS + ";\n$o = new " + o.Name + "(); echo get_class($o);"
		p := w.parserFor(o.VM)
		var sb strings.Builder
		old := data.WriteOutput
		data.WriteOutput = func(x string) { sb.WriteString(x) }
		defer func() { data.WriteOutput = old }()
		st.R = 5
		st.D = -1
		prog, acl := p.ParseString(src, "script.zy")
		if acl != nil {
			st.Msg = "parse: " + acl.AsString()
			return
		}
		ctx := v.CreateContext(p.GetVariables())
		w.thrown = nil
		_, ctl := prog.GetValue(ctx)
		if ctl == nil && w.thrown == nil && sb.String() != "" {
			st.Out = sb.String()
			if c, ok := v.GetClass(sb.String()); ok {
				st.D = srcID(w, c.GetFrom())
			} else {
				st.D = -8
			}
		} else if ctl != nil {
			st.Msg = ctl.AsString()
		} else if w.thrown != nil {
			st.Msg = w.thrown.AsString()
		}
		return
	case "const":
		if acl := v.SetConstant(o.Name, data.NewIntValue(o.Val)); acl != nil {
			st.R = 1
			st.Msg = acl.AsString()
		}
	default:
		st.R = 2
		st.Msg = "unknown op " + o.Op
	}
	return
}

// tplDir: the directory of the files of routes parsefile / include / require_once of this history: a fresh temporary
// directory + the history's path shape ("vendor", "vendor/acme/lib/src", "src", "My.Dir/UPPER" ...)
func (w *world) tplDir() (string, bool) {
	if w.tpl == "" {
		tdir, err := os.MkdirTemp("", "c12tpl-")
		if err != nil {
			return "", false
		}
		w.tplRoot, _ = filepath.EvalSymlinks(tdir)
		w.tpl = filepath.Join(w.tplRoot, filepath.FromSlash(strings.TrimPrefix(w.c.PathShape, "dots:")))
		os.MkdirAll(w.tpl, 0o755)
	}
	return w.tpl, true
}

// filePath: the path string handed to include / ParseFile; shape "dots:<dir>" spells it with a ../ segment
func (w *world) filePath(file string) string {
	if strings.HasPrefix(w.c.PathShape, "dots:") {
		return w.tpl + "/../" + filepath.Base(w.tpl) + "/" + file
	}
	return filepath.Join(w.tpl, file)
}

// autoload directories are created once per distinct file set and reused (they are read-only)
var cpDirs = map[string]string{}
var cpFiles = map[string]map[string]int{}

var cpRoots []string

func cpDir(cps []CP, shape string) (string, map[string]int, error) {
	kb, _ := json.Marshal(cps)
	key := string(kb) + "|" + shape
	if d, ok := cpDirs[key]; ok {
		return d, cpFiles[key], nil
	}
	dir, err := os.MkdirTemp("", "c12-")
	if err != nil {
		return "", nil, err
	}
	dir, _ = filepath.EvalSymlinks(dir)
	cpRoots = append(cpRoots, dir)
	// the class-path directory of namespace App has the history's path shape too
	dir = filepath.Join(dir, filepath.FromSlash(strings.TrimPrefix(shape, "dots:")))
	os.MkdirAll(dir, 0o755)
	files := map[string]int{}
	for i, cp := range cps {
		var body string
		switch cp.Kind {
		case "c":
			body = "class " + cp.Name + " {}"
		case "i":
			body = "interface " + cp.Name + " {}"
		case "ci":
			body = "class " + cp.Name + " {}\ninterface " + cp.Name + "I {}"
		default: // a file that does not define the name it is called after
			body = "class " + cp.Name + "Other {}"
		}
		src := "<?php\nnamespace App;\n" + body + "\n"
		if err := os.WriteFile(filepath.Join(dir, cp.Name+".php"), []byte(src), 0o644); err != nil {
			return "", nil, err
		}
		files[cp.Name+".php"] = 1000 + i
	}
	cpDirs[key] = dir
	cpFiles[key] = files
	return dir, files, nil
}

// reqHandler is the ($r, $w) handler function a HotHandler serves: it runs the ops of one request on the
// VM of its request context.
type reqHandler struct {
	w     *world
	ops   []Op
	steps []Step
}

func (h *reqHandler) GetName() string { return "c12handler" }
func (h *reqHandler) GetParams() []data.GetValue {
	return []data.GetValue{node.NewParameter(nil, "r", 0, nil, nil), node.NewParameter(nil, "w", 1, nil, nil)}
}
func (h *reqHandler) GetVariables() []data.Variable {
	return []data.Variable{node.NewVariable(nil, "r", 0, nil), node.NewVariable(nil, "w", 1, nil)}
}
func (h *reqHandler) Call(ctx data.Context) (data.GetValue, data.Control) {
	w := h.w
	st := Step{D: -1}
	vm := ctx.GetVM()
	tv, ok := vm.(*runtime.TempVM)
	if !ok {
		st.R = 1
		st.Msg = fmt.Sprintf("request runs on %T, want a request-level *runtime.TempVM", vm)
		tv = runtime.NewTempVM(w.base).(*runtime.TempVM)
	}
	for _, old := range w.all {
		if old == tv {
			st.R = 1
			st.Msg = "request runs on a TempVM an earlier request already used"
		}
	}
	w.all = append(w.all, tv)
	w.temps = append(w.temps, tv)
	w.tp = append(w.tp, nil)
	st.Look = w.sweep()
	h.steps = append(h.steps, st)
	for _, o := range h.ops {
		s := w.doOp(o)
		s.Look = w.sweep()
		h.steps = append(h.steps, s)
	}
	return nil, nil
}

// serveRequest: one request through the real HotHandler; returns the steps for req_begin, the inner ops and req_end
func (w *world) serveRequest(ops []Op) (steps []Step) {
	fn := &reqHandler{w: w, ops: ops}
	if w.hot == nil {
		serverCtx := w.base.CreateContext(nil)
		w.hotCtx = serverCtx.CreateContext(fn.GetVariables())
	}
	// one HotHandler VALUE per request function, all sharing the server's long-lived handler context
	h := ohttp.HotHandler{Value: fn, Ctx: w.hotCtx}
	w.hot = &h
	end := Step{D: -1}
	func() {
		defer func() {
			if r := recover(); r != nil {
				end.R = 2
				end.Msg = fmt.Sprint(r)
			}
		}()
		h.ServeHTTP(httptest.NewRecorder(), httptest.NewRequest("GET", "/c12", nil))
	}()
	steps = fn.steps
	if len(steps) == 0 {
		// the handler never ran: still account for the begin step and the skipped ops
		steps = append(steps, Step{R: 2, D: -1, Msg: "handler did not run", Look: w.sweep()})
		for range ops {
			steps = append(steps, Step{R: 2, D: -1, Look: w.sweep()})
		}
		end.Look = w.sweep()
		return append(steps, end)
	}
	// the request is over: its TempVM is dropped
	t := len(w.temps) - 1
	w.temps[t] = nil
	w.tp[t] = nil
	// the server's own context must still be bound to the base VM
	if w.hotCtx.GetVM() != data.VM(w.base) && end.R == 0 {
		end.R = 1
		end.Msg = fmt.Sprintf("handler context is bound to %T after serving, want the base VM", w.hotCtx.GetVM())
	}
	end.Look = w.sweep()
	return append(steps, end)
}

func runHot(h *Hot) (obs Obs) {
	defer func() {
		if r := recover(); r != nil {
			obs.Err = fmt.Sprint(r)
		}
	}()
	dir, err := os.MkdirTemp("", "c12hot-")
	if err != nil {
		return Obs{Err: err.Error()}
	}
	defer os.RemoveAll(dir)
	dir, _ = filepath.EvalSymlinks(dir)
	write := func(k int) {
		src := fmt.Sprintf("<?php\nnamespace App;\nclass P { function v() { return %d; } static function s() { return %d; } }\n", k, k)
		os.WriteFile(filepath.Join(dir, "P.php"), []byte(src), 0o644)
	}
	p := parser.NewParser()
	base := runtime.NewVM(p).(*runtime.VM)
	var thrown data.Control
	base.SetThrowControl(func(acl data.Control) { thrown = acl })
	php.Load(base)
	ohttp.Load(base)
	base.AddNamespace("App", dir)
	for name, content := range h.Files {
		os.WriteFile(filepath.Join(dir, name), []byte(strings.ReplaceAll(content, "DIR", dir)), 0o644)
	}
	h.Body = strings.ReplaceAll(h.Body, "DIR", dir)
	prog, acl := p.ParseString("function h($r, $w) {\n"+h.Body+"\n}\n", "hot.zy")
	if acl != nil {
		return Obs{Err: "parse: " + acl.AsString()}
	}
	ctx := base.CreateContext(p.GetVariables())
	if _, ctl := prog.GetValue(ctx); ctl != nil {
		return Obs{Err: "run: " + ctl.AsString()}
	}
	fn, ok := base.GetFunc("h")
	if !ok {
		return Obs{Err: "no function h"}
	}
	serverCtx := base.CreateContext(nil)
	hh := ohttp.HotHandler{Value: fn, Ctx: serverCtx.CreateContext(fn.GetVariables())}
	for k := 1; k <= h.Requests; k++ {
		if !h.NoRewrite {
			write(k)
		}
		thrown = nil
		rec := httptest.NewRecorder()
		st := Step{D: -1}
		func() {
			defer func() {
				if r := recover(); r != nil {
					st.R = 2
					st.Msg = fmt.Sprint(r)
				}
			}()
			hh.ServeHTTP(rec, httptest.NewRequest("GET", "/hot", nil))
		}()
		if thrown != nil && st.R == 0 {
			st.R = 1
			st.Msg = thrown.AsString()
		}
		st.Out = rec.Body.String()
		// the request is over: nothing it declared may be resolvable through the base or through another request's VM
		fresh := runtime.NewTempVM(base)
		for _, nm := range h.Probe {
			for who, v := range map[string]data.VM{"base": base, "fresh-temp": fresh} {
				if _, ok := v.GetClass(nm); ok {
					st.Leak = append(st.Leak, who+":class:"+nm)
				}
				if _, ok := v.GetInterface(nm); ok {
					st.Leak = append(st.Leak, who+":interface:"+nm)
				}
				if _, ok := v.GetFunc(nm); ok {
					st.Leak = append(st.Leak, who+":function:"+nm)
				}
			}
		}
		sort.Strings(st.Leak)
		obs.Steps = append(obs.Steps, st)
	}
	// the base must not have the class
	if _, ok := base.GetClass("App\\P"); ok {
		obs.Err = "base VM resolves App\\P after the requests"
	}
	return obs
}

func runCase(c *Case) (obs Obs) {
	if c.Hot != nil {
		return runHot(c.Hot)
	}
	defer func() {
		if r := recover(); r != nil {
			obs.Err = fmt.Sprint(r)
		}
	}()
	dir, cpfile, err := cpDir(c.CP, c.PathShape)
	if err != nil {
		return Obs{Err: err.Error()}
	}
	w := &world{dir: dir, c: c, cpfile: cpfile}
	defer func() {
		if w.tplRoot != "" {
			os.RemoveAll(w.tplRoot)
		}
	}()
	w.p = parser.NewParser()
	w.base = runtime.NewVM(w.p).(*runtime.VM)
	w.base.SetThrowControl(func(acl data.Control) { w.thrown = acl })
	if c.Scripts {
		php.Load(w.base) // class_exists / interface_exists and the rest of the PHP function library
	}
	w.base.AddNamespace("App", dir)
	for k, n := range c.Callbacks {
		parser.AddAutoLoad(data.NewFuncValue(&splCallback{k: k, name: n}))
	}
	for _, n := range c.SharedObj {
		sn := sharedName(n)
		body := fmt.Sprintf("$o = new %s(); return $o->c12src;", n)
		src := fmt.Sprintf("class c12reg_%s { public static $s; }\nclass c12fac_%s {\n  function ping() { return 1; }\n  function make() { %s }\n  function __invoke() { %s }\n  function __get($k) { %s }\n  function __call($m, $a) { %s }\n}\nc12reg_%s::$s = new c12fac_%s();\n", sn, sn, body, body, body, body, sn, sn)
		p := w.p.Clone()
		prog, acl := p.ParseString(src, "sharedobj.zy")
		if acl != nil {
			return Obs{Err: "shared object: parse: " + acl.AsString()}
		}
		w.thrown = nil
		if _, ctl := prog.GetValue(w.base.CreateContext(p.GetVariables())); ctl != nil {
			return Obs{Err: "shared object: " + ctl.AsString()}
		}
		if w.thrown != nil {
			return Obs{Err: "shared object: " + w.thrown.AsString()}
		}
	}
	for _, n := range c.SharedFn {
		src := fmt.Sprintf("function c12call_%s() { return %s(); }\n", sharedName(n), n)
		p := w.p.Clone()
		prog, acl := p.ParseString(src, "sharedfn.zy")
		if acl != nil {
			return Obs{Err: "shared code: parse: " + acl.AsString()}
		}
		w.thrown = nil
		if _, ctl := prog.GetValue(w.base.CreateContext(p.GetVariables())); ctl != nil {
			return Obs{Err: "shared code: " + ctl.AsString()}
		}
		if w.thrown != nil {
			return Obs{Err: "shared code: " + w.thrown.AsString()}
		}
	}
	for _, n := range c.Shared {
		src := fmt.Sprintf("function c12new_%s() { $o = new %s(); return $o->c12src; }\nclass c12child_%s extends %s { public function __construct() {} }\n", sharedName(n), n, sharedName(n), n)
		p := w.p.Clone()
		prog, acl := p.ParseString(src, "shared.zy")
		if acl != nil {
			return Obs{Err: "shared code: parse: " + acl.AsString()}
		}
		w.thrown = nil
		if _, ctl := prog.GetValue(w.base.CreateContext(p.GetVariables())); ctl != nil {
			return Obs{Err: "shared code: " + ctl.AsString()}
		}
		if w.thrown != nil {
			return Obs{Err: "shared code: " + w.thrown.AsString()}
		}
	}
	for _, nm := range c.Names {
		idx := -1
		if fp, ok := w.p.GetClassPathManager().FindClassFile(nm); ok {
			if id, ok2 := w.cpfile[filepath.Base(fp)]; ok2 {
				idx = id - 1000
			} else {
				idx = -7
			}
		}
		obs.CPFind = append(obs.CPFind, idx)
	}
	// step 0: the initial world
	obs.Steps = append(obs.Steps, Step{D: -1, Look: w.sweep()})
	for i := 0; i < len(c.Ops); i++ {
		o := c.Ops[i]
		if o.Op == "req_begin" {
			j := i + 1
			for j < len(c.Ops) && c.Ops[j].Op != "req_end" {
				j++
			}
			obs.Steps = append(obs.Steps, w.serveRequest(c.Ops[i+1:j])...)
			i = j
			continue
		}
		st := w.doOp(o)
		st.Look = w.sweep()
		obs.Steps = append(obs.Steps, st)
	}
	return obs
}

func main() {
	out := json.NewEncoder(os.Stdout)
	vrun.Lines(func(line string) {
		if strings.TrimSpace(line) == "" {
			return
		}
		var c Case
		if err := json.Unmarshal([]byte(line), &c); err != nil {
			out.Encode(Obs{Err: "bad case: " + err.Error()})
			return
		}
		o := runCase(&c)
		out.Encode(o)
	})
	for _, d := range cpRoots {
		os.RemoveAll(d)
	}
}
