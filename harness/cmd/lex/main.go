// lex: drives the real lexer (and, for C01, the real parser / interpreter) on byte strings.
//
//	lex table                      prints the token table, the TokenType constants the model names, and the
//	                               ASCII bytes for which lexer.IsDelimiter holds (all obtained by RUNNING the code)
//	lex                            stdin: one JSON case per line
//	   {"hex":"2461","mode":"plain"|"template"}                          -> token stream
//	   {"hex":"..","mode":"..","parse":true,"run":false,"budget_ms":2000} -> + parse (and run) outcome
//	stdout: one JSON observation per line:
//	   toks   [[type,start,end,line,literalHex,kind]]  kind "w" WorkerToken, "l" LingToken (interpolation)
//	   lexpanic / parse: "ok"|"error"|"panic"|"timeout"; perr, pline (1-based line of the diagnostic), ppanic
//	   run: "ok"|"throw"|"control"|"panic"|"timeout"|"" ; rpanic
package main

import (
	"encoding/hex"
	"encoding/json"
	"fmt"
	"os"
	"regexp"
	"runtime/debug"
	"strings"
	"time"

	"verif/harness/vrun"

	"github.com/php-any/origami/data"
	"github.com/php-any/origami/lexer"
	"github.com/php-any/origami/node"
	"github.com/php-any/origami/token"
)

type Case struct {
	Hex    string `json:"hex"`
	Mode   string `json:"mode"`
	Parse  bool   `json:"parse"`
	Run    bool   `json:"run"`
	Budget int    `json:"budget_ms"`
	RunBud int    `json:"run_budget_ms"`
	// MaxToks > 0: when the source has more tokens than this, the token list is not returned (only its length and
	// the bracket-balance verdict, which is all the check needs for such cases); 0 = always return the tokens
	MaxToks int `json:"maxtoks"`
}

type Obs struct {
	Toks     [][]any `json:"toks"`
	Ntoks    int     `json:"ntoks,omitempty"` // set when the token list was withheld (MaxToks)
	Unb      string  `json:"unb,omitempty"`   // with Ntoks: "" = the ( ) [ ] { } tokens nest properly, else a description
	LexPanic string  `json:"lexpanic,omitempty"`
	Parse    string  `json:"parse,omitempty"`
	Perr     string  `json:"perr,omitempty"`
	Pline    int     `json:"pline,omitempty"`
	Pcol     int     `json:"pcol,omitempty"`
	Ppanic   string  `json:"ppanic,omitempty"`
	Nstmt    int     `json:"nstmt,omitempty"`
	RunRes   string  `json:"run,omitempty"`
	Rpanic   string  `json:"rpanic,omitempty"`
	Rline    int     `json:"rline,omitempty"`
	Pms      float64 `json:"pms,omitempty"` // wall time of lex+parse in milliseconds
	exit     bool    // the case left a runaway goroutine behind: the worker exits after reporting it
}

var consts = map[string]token.TokenType{
	"KEYWORD_START": token.KEYWORD_START, "KEYWORD_END": token.KEYWORD_END, "VALUE_START": token.VALUE_START,
	"VALUE_END": token.VALUE_END,
	"ADD": token.ADD, "SUB": token.SUB, "MUL": token.MUL, "QUO": token.QUO, "REM": token.REM, "ASSIGN": token.ASSIGN,
	"EQ": token.EQ, "NE": token.NE, "EQ_STRICT": token.EQ_STRICT, "NE_STRICT": token.NE_STRICT, "LT": token.LT,
	"GT": token.GT, "LE": token.LE, "GE": token.GE, "LAND": token.LAND, "LOR": token.LOR, "NOT": token.NOT,
	"BIT_AND": token.BIT_AND, "BIT_OR": token.BIT_OR, "BIT_XOR": token.BIT_XOR, "BIT_NOT": token.BIT_NOT,
	"SHL": token.SHL, "SHR": token.SHR, "INCR": token.INCR, "DECR": token.DECR,
	"OBJECT_OPERATOR": token.OBJECT_OPERATOR, "ARRAY_KEY_VALUE": token.ARRAY_KEY_VALUE, "TERNARY": token.TERNARY,
	"ELVIS": token.ELVIS, "COLON": token.COLON, "SCOPE_RESOLUTION": token.SCOPE_RESOLUTION, "AT": token.AT,
	"HASH": token.HASH, "DOLLAR": token.DOLLAR, "COMMA": token.COMMA, "SEMICOLON": token.SEMICOLON,
	"LPAREN": token.LPAREN, "RPAREN": token.RPAREN, "LBRACE": token.LBRACE, "RBRACE": token.RBRACE,
	"LBRACKET": token.LBRACKET, "RBRACKET": token.RBRACKET, "SPACESHIP": token.SPACESHIP,
	"NULLSAFE_CALL": token.NULLSAFE_CALL, "NULL_COALESCE": token.NULL_COALESCE,
	"NULL_COALESCE_ASSIGN": token.NULL_COALESCE_ASSIGN, "POWER": token.POWER, "POWER_EQ": token.POWER_EQ,
	"ADD_EQ": token.ADD_EQ, "SUB_EQ": token.SUB_EQ, "MUL_EQ": token.MUL_EQ, "QUO_EQ": token.QUO_EQ,
	"REM_EQ": token.REM_EQ, "CONCAT_EQ": token.CONCAT_EQ, "BIT_AND_EQ": token.BIT_AND_EQ,
	"BIT_OR_EQ": token.BIT_OR_EQ, "BIT_XOR_EQ": token.BIT_XOR_EQ, "SHL_EQ": token.SHL_EQ, "SHR_EQ": token.SHR_EQ,
	"NAMESPACE_SEPARATOR": token.NAMESPACE_SEPARATOR, "DOT": token.DOT,
	"NUMBER": token.NUMBER, "INT": token.INT, "FLOAT": token.FLOAT, "STRING": token.STRING, "BOOL": token.BOOL,
	"HEREDOC": token.HEREDOC, "NOWDOC": token.NOWDOC, "NULL": token.NULL, "TRUE": token.TRUE, "FALSE": token.FALSE,
	"BYTE": token.BYTE, "ARRAY": token.ARRAY,
	"IDENTIFIER": token.IDENTIFIER, "VARIABLE": token.VARIABLE, "COMMENT": token.COMMENT,
	"MULTILINE_COMMENT": token.MULTILINE_COMMENT, "WHITESPACE": token.WHITESPACE, "EOF": token.EOF,
	"NEWLINE": token.NEWLINE, "HTML_TAG": token.HTML_TAG, "UNKNOWN": token.UNKNOWN,
	"INTERPOLATION_TOKEN": token.INTERPOLATION_TOKEN,
}

func table() {
	type out struct {
		Defs   [][2]any       `json:"defs"`
		Consts map[string]int `json:"consts"`
		Delims []int          `json:"delims"`
	}
	var o out
	for _, d := range token.TokenDefinitions {
		o.Defs = append(o.Defs, [2]any{int(d.Type), hex.EncodeToString([]byte(d.Literal))})
	}
	o.Consts = map[string]int{}
	for k, v := range consts {
		o.Consts[k] = int(v)
	}
	for b := 0; b < 128; b++ {
		if lexer.IsDelimiter(rune(b)) {
			o.Delims = append(o.Delims, b)
		}
	}
	json.NewEncoder(os.Stdout).Encode(o)
}

var siteRe = regexp.MustCompile(`github\.com/php-any/origami/([A-Za-z0-9_/]+)\.(\(\*?[A-Za-z0-9_]+\)\.)?([A-Za-z0-9_]+)\(`)

// crashSite names the first frame of the interpreter/parser in a panic's stack: package.(Type).Method
func crashSite(stack string) string {
	if i := strings.Index(stack, "panic("); i >= 0 {
		stack = stack[i:]
	}
	m := siteRe.FindStringSubmatch(stack)
	if m == nil {
		return "?"
	}
	return m[1] + "." + strings.Trim(m[2], "().*") + "." + m[3]
}

// unbalanced mirrors checks/C01.py unbalanced(): "" when the bracket tokens nest properly
func unbalanced(toks []lexer.Token) string {
	closer := map[token.TokenType]token.TokenType{token.LPAREN: token.RPAREN, token.LBRACKET: token.RBRACKET, token.LBRACE: token.RBRACE}
	name := map[token.TokenType]string{token.LPAREN: "(", token.LBRACKET: "[", token.LBRACE: "{", token.RPAREN: ")", token.RBRACKET: "]", token.RBRACE: "}"}
	var stack []token.TokenType
	for _, t := range toks {
		ty := t.Type()
		if _, ok := closer[ty]; ok {
			stack = append(stack, ty)
		} else if ty == token.RPAREN || ty == token.RBRACKET || ty == token.RBRACE {
			if len(stack) == 0 || closer[stack[len(stack)-1]] != ty {
				return fmt.Sprintf("%s unmatched closer at byte %d", name[ty], t.Start())
			}
			stack = stack[:len(stack)-1]
		}
	}
	if len(stack) > 0 {
		return name[stack[len(stack)-1]] + " never closed"
	}
	return ""
}

func lexOnly(src string, mode string, maxToks int) (o Obs) {
	defer func() {
		if r := recover(); r != nil {
			o.Toks = nil
			o.LexPanic = fmt.Sprint(r)
		}
	}()
	var toks []lexer.Token
	if mode == "template" {
		toks = lexer.NewLexer().TokenizeTemplate(src)
	} else {
		toks = lexer.NewLexer().Tokenize(src)
	}
	o.Toks = [][]any{}
	if maxToks > 0 && len(toks) > maxToks {
		o.Ntoks = len(toks)
		o.Unb = unbalanced(toks)
		return o
	}
	for _, t := range toks {
		kind := "w"
		if _, ok := t.(*lexer.LingToken); ok {
			kind = "l"
		}
		o.Toks = append(o.Toks, []any{int(t.Type()), t.Start(), t.End(), t.Line(), hex.EncodeToString([]byte(t.Literal())), kind})
	}
	return o
}

type parseRes struct {
	state  string
	perr   string
	pline  int
	pcol   int
	ppanic string
	nstmt  int
	run    string
	rpanic string
	rline  int
}

type parsed struct {
	res  parseRes
	prog *node.Program
	vm   data.VM
	vars []data.Variable
	tmp  string
}

// parseOnly lexes + parses with the real parser; panics are reported, not propagated
func parseOnly(src, mode string) (out parsed) {
	defer func() {
		if r := recover(); r != nil {
			out.res.state = "panic"
			out.res.ppanic = fmt.Sprint(r) + " @ " + crashSite(string(debug.Stack()))
		}
	}()
	vm, p := vrun.NewVM()
	var prog *node.Program
	var acl data.Control
	if mode == "template" {
		// ParseFile is the only template-mode entry point: go through a temp file
		f, err := os.CreateTemp("", "c01-*.php")
		if err != nil {
			out.res.state = "harness"
			return
		}
		f.WriteString(src)
		f.Close()
		defer os.Remove(f.Name())
		prog, acl = p.ParseFile(f.Name())
	} else {
		prog, acl = p.ParseString(src, "c01.zy")
	}
	if acl != nil {
		out.res.state = "error"
		out.res.perr = acl.AsString()
		if gf, ok := acl.(node.GetFrom); ok && gf.GetFrom() != nil {
			l, c := gf.GetFrom().GetStartPosition()
			out.res.pline, out.res.pcol = l+1, c+1
		} else if tv, ok := acl.(*data.ThrowValue); ok && tv.Error != nil && tv.Error.From != nil {
			l, c := tv.Error.From.GetStartPosition()
			out.res.pline, out.res.pcol = l+1, c+1
		}
		return
	}
	out.res.state = "ok"
	out.res.nstmt = len(prog.Statements)
	out.prog, out.vm, out.vars = prog, vm, p.GetVariables()
	return
}

// runOnly executes an accepted program in-process; an internal panic is reported as run = "panic"
func runOnly(pd parsed) (run string, rpanic string, rline int) {
	defer func() {
		if r := recover(); r != nil {
			run, rpanic = "panic", fmt.Sprint(r)+" @ "+crashSite(string(debug.Stack()))
		}
	}()
	old := data.WriteOutput
	data.WriteOutput = func(string) {}
	defer func() { data.WriteOutput = old }()
	var thrown data.Control
	pd.vm.SetThrowControl(func(c data.Control) {
		if thrown == nil {
			thrown = c
		}
	})
	ctx := pd.vm.CreateContext(pd.vars)
	_, ctl := pd.prog.GetValue(ctx)
	if ctl == nil {
		ctl = thrown
	}
	if ctl != nil {
		if tv, ok := ctl.(*data.ThrowValue); ok {
			if tv.Error != nil && tv.Error.From != nil {
				l, _ := tv.Error.From.GetStartPosition()
				rline = l + 1
			}
			return "throw", "", rline
		}
		return "control", "", 0
	}
	return "ok", "", 0
}

func observe(c Case) Obs {
	raw, err := hex.DecodeString(c.Hex)
	if err != nil {
		return Obs{LexPanic: "bad hex"}
	}
	src := string(raw)
	if !c.Parse {
		return lexOnly(src, c.Mode, c.MaxToks)
	}
	budget := time.Duration(c.Budget) * time.Millisecond
	if budget <= 0 {
		budget = 2 * time.Second
	}
	// the token dump is under the same watchdog as the parse: a lexer that needs hours for one long line must be
	// reported as a timeout, not waited for
	lch := make(chan Obs, 1)
	go func() { lch <- lexOnly(src, c.Mode, c.MaxToks) }()
	var o Obs
	select {
	case o = <-lch:
	case <-time.After(budget):
		return Obs{Toks: [][]any{}, Parse: "timeout", exit: true}
	}
	ch := make(chan parsed, 1)
	t0 := time.Now()
	go func() { ch <- parseOnly(src, c.Mode) }()
	var pd parsed
	select {
	case pd = <-ch:
	case <-time.After(budget):
		o.Parse = "timeout"
		o.exit = true
		return o
	}
	o.Pms = float64(time.Since(t0).Microseconds()) / 1000.0
	r := pd.res
	o.Parse, o.Perr, o.Pline, o.Pcol, o.Ppanic, o.Nstmt = r.state, r.perr, r.pline, r.pcol, r.ppanic, r.nstmt
	if !c.Run || r.state != "ok" {
		return o
	}
	runBudget := budget
	if c.RunBud > 0 {
		runBudget = time.Duration(c.RunBud) * time.Millisecond
	}
	type rr struct {
		run, rpanic string
		rline       int
	}
	rch := make(chan rr, 1)
	go func() { a, b, l := runOnly(pd); rch <- rr{a, b, l} }()
	select {
	case x := <-rch:
		o.RunRes, o.Rpanic, o.Rline = x.run, x.rpanic, x.rline
	case <-time.After(runBudget):
		o.RunRes = "timeout" // a mutated program may loop: not a front-end failure, but the goroutine is lost
		o.exit = true
	}
	return o
}

func main() {
	if len(os.Args) > 1 && os.Args[1] == "table" {
		table()
		return
	}
	w := json.NewEncoder(os.Stdout)
	vrun.Lines(func(line string) {
		if strings.TrimSpace(line) == "" {
			return
		}
		var c Case
		if err := json.Unmarshal([]byte(line), &c); err != nil {
			w.Encode(Obs{LexPanic: "bad case: " + err.Error()})
			return
		}
		o := observe(c)
		w.Encode(o)
		if o.exit {
			os.Exit(3) // the driver restarts a worker for the remaining cases
		}
	})
}
