package vrun

import (
	"fmt"
	"strings"

	"github.com/php-any/origami/data"
	"github.com/php-any/origami/runtime"
)

// RunStringWith is RunString with a hook that runs on the fresh VM before the source is parsed
// (e.g. to register an extra Go-implemented function the script may call).
func RunStringWith(src string, file string, setup func(vm *runtime.VM)) (res Result) {
	outMu.Lock()
	defer outMu.Unlock()
	var sb strings.Builder
	old := data.WriteOutput
	data.WriteOutput = func(s string) { sb.WriteString(s) }
	defer func() { data.WriteOutput = old }()
	defer func() {
		if r := recover(); r != nil {
			res.Out = sb.String()
			res.Outcome = "panic"
			res.Detail = fmt.Sprint(r)
		}
	}()
	vm, p := NewVM()
	vm.SetThrowControl(func(acl data.Control) {
		res.Outcome = "throw"
		res.Detail = acl.AsString()
	})
	if setup != nil {
		setup(vm)
	}
	prog, acl := p.ParseString(src, file)
	if acl != nil {
		return Result{Out: sb.String(), Outcome: "parse", Detail: acl.AsString()}
	}
	ctx := vm.CreateContext(p.GetVariables())
	data.ResetUserOutput()
	_, ctl := prog.GetValue(ctx)
	if data.FlushAllBuffersFn != nil {
		data.FlushAllBuffersFn()
	}
	res.Out = sb.String()
	if ctl != nil {
		if _, ok := ctl.(*data.ThrowValue); ok {
			res.Outcome = "throw"
		} else {
			res.Outcome = "control"
		}
		res.Detail = ctl.AsString()
		return res
	}
	if res.Outcome == "" {
		res.Outcome = "ok"
	}
	return res
}
