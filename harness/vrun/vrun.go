// Package vrun: shared helpers for the verification harness — a fresh VM with the
// standard library loaded, running a script source in-process with captured output.
package vrun

import (
	"bufio"
	"fmt"
	"os"
	"strings"
	"sync"

	"github.com/php-any/origami/data"
	"github.com/php-any/origami/parser"
	"github.com/php-any/origami/runtime"
	"github.com/php-any/origami/std"
	"github.com/php-any/origami/std/net/http"
	"github.com/php-any/origami/std/php"
	"github.com/php-any/origami/std/system"
)

// NewVM returns a fresh VM + parser with std, php, http, system loaded (as zy.go does).
func NewVM() (*runtime.VM, *parser.Parser) {
	p := parser.NewParser()
	vm := runtime.NewVM(p)
	std.Load(vm)
	php.Load(vm)
	http.Load(vm)
	system.Load(vm)
	return vm.(*runtime.VM), p
}

// Result of running one script in-process.
type Result struct {
	Out     string // everything written through data.WriteOutput
	Outcome string // "ok" | "throw" | "parse" | "panic" | "control"
	Detail  string // error text / panic text (not compared, for replays)
}

var outMu sync.Mutex

// RunString parses and runs src on a fresh VM. Output is captured by replacing
// data.WriteOutput; an uncaught control is captured via SetThrowControl instead of exiting.
func RunString(src string, file string) (res Result) {
	outMu.Lock()
	defer outMu.Unlock()
	var sb strings.Builder
	old := data.WriteOutput
	data.WriteOutput = func(s string) { sb.WriteString(s) }
	defer func() { data.WriteOutput = old }()
	defer func() {
		if r := recover(); r != nil {
			res.Out = sb.String()
			res.Outcome = "panic"
			res.Detail = fmt.Sprint(r)
		}
	}()
	vm, p := NewVM()
	vm.SetThrowControl(func(acl data.Control) {
		res.Outcome = "throw"
		res.Detail = acl.AsString()
	})
	prog, acl := p.ParseString(src, file)
	if acl != nil {
		return Result{Out: sb.String(), Outcome: "parse", Detail: acl.AsString()}
	}
	ctx := vm.CreateContext(p.GetVariables())
	data.ResetUserOutput()
	_, ctl := prog.GetValue(ctx)
	if data.FlushAllBuffersFn != nil {
		data.FlushAllBuffersFn()
	}
	res.Out = sb.String()
	if ctl != nil {
		if _, ok := ctl.(*data.ThrowValue); ok {
			res.Outcome = "throw"
		} else {
			res.Outcome = "control"
		}
		res.Detail = ctl.AsString()
		return res
	}
	if res.Outcome == "" {
		res.Outcome = "ok"
	}
	return res
}

// Lines iterates over stdin lines with a large buffer.
func Lines(f func(line string)) {
	sc := bufio.NewScanner(os.Stdin)
	sc.Buffer(make([]byte, 1<<20), 1<<28)
	for sc.Scan() {
		f(sc.Text())
	}
}
