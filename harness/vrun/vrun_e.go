package vrun

import (
	"fmt"
	"strings"
	"sync"

	"github.com/php-any/origami/data"
)

// RunStringSpawn is RunString with a hook that can prepare the fresh VM (namespaces, registered Go
// functions) before the script is parsed.  Output written by spawned coroutines is captured under a
// mutex of its own (builder E; used by the c09/c10 script-level modes).
func RunStringSpawn(src string, file string, setup func(vm data.VM)) (res Result) {
	outMu.Lock()
	defer outMu.Unlock()
	var sb strings.Builder
	var wmu sync.Mutex
	old := data.WriteOutput
	data.WriteOutput = func(s string) { wmu.Lock(); sb.WriteString(s); wmu.Unlock() }
	defer func() { data.WriteOutput = old }()
	get := func() string { wmu.Lock(); defer wmu.Unlock(); return sb.String() }
	defer func() {
		if r := recover(); r != nil {
			res.Out = get()
			res.Outcome = "panic"
			res.Detail = fmt.Sprint(r)
		}
	}()
	vm, p := NewVM()
	var tmu sync.Mutex
	thrown := ""
	vm.SetThrowControl(func(acl data.Control) {
		tmu.Lock()
		thrown = acl.AsString()
		tmu.Unlock()
	})
	if setup != nil {
		setup(vm)
	}
	prog, acl := p.ParseString(src, file)
	if acl != nil {
		return Result{Out: get(), Outcome: "parse", Detail: acl.AsString()}
	}
	ctx := vm.CreateContext(p.GetVariables())
	data.ResetUserOutput()
	_, ctl := prog.GetValue(ctx)
	if data.FlushAllBuffersFn != nil {
		data.FlushAllBuffersFn()
	}
	res.Out = get()
	tmu.Lock()
	th := thrown
	tmu.Unlock()
	switch {
	case ctl != nil:
		res.Outcome = "throw"
		res.Detail = ctl.AsString()
	case th != "":
		res.Outcome = "throw"
		res.Detail = th
	default:
		res.Outcome = "ok"
	}
	return res
}
